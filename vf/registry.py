"""Registry of operator / functional instances (constructor recipes per branch of `_call`).

`population(rng, level)` yields (name, thunk) where thunk() builds the instance (so that a constructor
failure is attributed to the recipe that raised).  Names are value-free: 'Class/variant/space-tag'.
Meta information needed by workloads is derived from the name / instance:
  needs_positive(name)   base points must be positive (log, sqrt, KL, non-integer powers)
"""

import itertools

import numpy as np
import odl
import scipy.sparse

from . import util

S = odl.solvers


def rel(sp, rng, positive=False):
    return util.rand_element(sp, rng, positive=positive)


def needs_positive(name):
    return any(k in name for k in ('KL', 'KullbackLeibler', 'sqrt', 'log', 'Power2.5', 'reciprocal', 'arccosh', 'Powerhalf'))


def base_spaces():
    r3 = odl.rn(3)
    return [
        ('r3', r3), ('r3w', odl.rn(3, weighting=2.0)), ('r3aw', odl.rn(3, weighting=[1., 2., 3.])),
        ('c3', odl.cn(3)), ('c3w', odl.cn(3, weighting=0.5)),
        ('d4', odl.uniform_discr(0, 2, 4)), ('d4c', odl.uniform_discr(0, 2, 4, dtype=complex)),
        ('d4b', odl.uniform_discr(0, 2, 4, nodes_on_bdry=True)),
        ('d23', odl.uniform_discr([0, 0], [1, 3], (2, 3))),
    ]


def linear_population(rng, thorough=False):
    """Linear operators (and a few affine ones) over real/complex, weighted, discretized and product spaces."""
    r3 = odl.rn(3)
    spaces = base_spaces()
    for n, sp in spaces:
        sc = (1.5 - 0.5j) if sp.is_complex else 1.5
        yield 'ScalingOperator/' + n, lambda sp=sp, sc=sc: odl.ScalingOperator(sp, sc)
        yield 'ScalingOperator/real-scalar/' + n, lambda sp=sp: odl.ScalingOperator(sp, -2.0)
        yield 'IdentityOperator/' + n, lambda sp=sp: odl.IdentityOperator(sp)
        yield 'MultiplyOperator/element/' + n, lambda sp=sp: odl.MultiplyOperator(rel(sp, rng))
        yield 'MultiplyOperator/scalar/' + n, lambda sp=sp, sc=sc: odl.MultiplyOperator(sc, domain=sp, range=sp)
        yield 'MultiplyOperator/field-domain/' + n, lambda sp=sp: odl.MultiplyOperator(rel(sp, rng), domain=sp.field)
        yield 'InnerProductOperator/' + n, lambda sp=sp: odl.InnerProductOperator(rel(sp, rng))
        yield 'InnerProductOperator.adjoint/' + n, lambda sp=sp: odl.InnerProductOperator(rel(sp, rng)).adjoint
        yield 'ZeroOperator/' + n, lambda sp=sp: odl.ZeroOperator(sp)
        yield 'ZeroOperator/other-range/' + n, lambda sp=sp: odl.ZeroOperator(sp, odl.cn(2) if sp.is_complex else odl.rn(2))
        yield 'RealPart/' + n, lambda sp=sp: odl.RealPart(sp)
        yield 'ImagPart/' + n, lambda sp=sp: odl.ImagPart(sp)
        yield 'ComplexEmbedding/1/' + n, lambda sp=sp: odl.ComplexEmbedding(sp, 1.0)
        yield 'ComplexEmbedding/generic/' + n, lambda sp=sp: odl.ComplexEmbedding(sp, 0.5 - 2j)
        yield 'ComplexEmbedding/imag/' + n, lambda sp=sp: odl.ComplexEmbedding(sp, 1j)
        yield 'LinCombOperator/' + n, lambda sp=sp: odl.LinCombOperator(sp, 2.0, -1.5)
        ps = sp ** 2
        yield 'PointwiseInner/' + n, lambda ps=ps: odl.PointwiseInner(ps, rel(ps, rng))
        yield 'PointwiseInner/weighted/' + n, lambda ps=ps: odl.PointwiseInner(ps, rel(ps, rng), weighting=[1.0, 2.5])
        yield 'PointwiseInner/scalar-weight/' + n, lambda ps=ps: odl.PointwiseInner(ps, rel(ps, rng), weighting=1.7)
        yield 'PointwiseInner/one-component/' + n, lambda sp=sp: odl.PointwiseInner(sp ** 1, rel(sp ** 1, rng))
        # one component with a non-unit weight (space weighting, one-entry array, the operator's own weighting argument)
        yield 'PointwiseInner/one-component/pspace-weighted/' + n, \
            lambda sp=sp: odl.PointwiseInner(odl.ProductSpace(sp, 1, weighting=3.0), rel(odl.ProductSpace(sp, 1, weighting=3.0), rng))
        yield 'PointwiseInner/one-component/weighted/' + n, lambda sp=sp: odl.PointwiseInner(sp ** 1, rel(sp ** 1, rng), weighting=[2.5])
        yield 'PointwiseInner/one-component/scalar-weight/' + n, lambda sp=sp: odl.PointwiseInner(sp ** 1, rel(sp ** 1, rng), weighting=0.4)
        yield 'PointwiseNorm/one-component/weighted/' + n, lambda sp=sp: odl.PointwiseNorm(sp ** 1, weighting=[2.5])
        yield 'PointwiseSum/one-component/pspace-weighted/' + n, lambda sp=sp: odl.PointwiseSum(odl.ProductSpace(sp, 1, weighting=3.0))
        yield 'PointwiseInner.adjoint/' + n, lambda ps=ps: odl.PointwiseInner(ps, rel(ps, rng), weighting=[1.0, 2.5]).adjoint
        yield 'PointwiseSum/' + n, lambda ps=ps: odl.PointwiseSum(ps)
        yield 'PointwiseSum/weighted/' + n, lambda ps=ps: odl.PointwiseSum(ps, weighting=[2.0, 0.5])
        psw = odl.ProductSpace(sp, 2, weighting=[0.5, 2.0])
        yield 'PointwiseInner/pspace-weighted/' + n, lambda psw=psw: odl.PointwiseInner(psw, rel(psw, rng))
        yield 'ComponentProjection/int/' + n, lambda ps=ps: odl.ComponentProjection(ps, 1)
        yield 'ComponentProjection/list/' + n, lambda sp=sp: odl.ComponentProjection(sp ** 3, [2, 0])
        yield 'ComponentProjection/list-with-repeated-component/' + n, lambda sp=sp: odl.ComponentProjection(sp ** 3, [0, 0, 2])
        yield 'ComponentProjection.adjoint/list-with-repeated-component/' + n, lambda sp=sp: odl.ComponentProjection(sp ** 3, [1, 2, 1]).adjoint
        yield 'ComponentProjection/list-with-component-repeated-through-a-negative-index/' + n, lambda sp=sp: odl.ComponentProjection(sp ** 3, [-1, 2, 0])
        yield 'ComponentProjection/pspace-array-weighted/' + n, lambda psw=psw: odl.ComponentProjection(psw, 1)
        yield 'ComponentProjection.adjoint/' + n, lambda ps=ps: odl.ComponentProjection(ps, 1).adjoint
        # the index kinds an Integral / slice / list contract admits, on weighted product spaces
        psw3 = odl.ProductSpace(sp, 3, weighting=[0.5, 2.0, 3.0])
        pss = odl.ProductSpace(sp, 2, weighting=2.5)
        yield 'ComponentProjection/np-int64/pspace-array-weighted/' + n, lambda psw=psw: odl.ComponentProjection(psw, np.int64(0))
        yield 'ComponentProjection/np-intp/pspace-scalar-weighted/' + n, lambda pss=pss: odl.ComponentProjection(pss, np.intp(1))
        yield 'ComponentProjection/np-int32.adjoint/pspace-array-weighted/' + n, lambda psw3=psw3: odl.ComponentProjection(psw3, np.int32(2)).adjoint
        yield 'ComponentProjection/negative-int/pspace-array-weighted/' + n, lambda psw3=psw3: odl.ComponentProjection(psw3, -1)
        yield 'ComponentProjection/slice/pspace-array-weighted/' + n, lambda psw3=psw3: odl.ComponentProjection(psw3, slice(1, None))
        yield 'ComponentProjection/np-int-list/pspace-array-weighted/' + n, lambda psw3=psw3: odl.ComponentProjection(psw3, [np.int64(2), np.int64(0)])
        yield 'ComponentProjection/int/pspace-scalar-weighted/' + n, lambda pss=pss: odl.ComponentProjection(pss, 0)
        yield 'BroadcastOperator/' + n, lambda sp=sp, sc=sc: odl.BroadcastOperator(odl.ScalingOperator(sp, sc), odl.IdentityOperator(sp))
        yield 'BroadcastOperator/single/' + n, lambda sp=sp: odl.BroadcastOperator(odl.MultiplyOperator(rel(sp, rng)))
        yield 'BroadcastOperator/int/' + n, lambda sp=sp: odl.BroadcastOperator(odl.MultiplyOperator(rel(sp, rng)), 3)
        yield 'ReductionOperator/' + n, lambda sp=sp, sc=sc: odl.ReductionOperator(odl.ScalingOperator(sp, sc), odl.MultiplyOperator(rel(sp, rng)))
        yield 'ReductionOperator/single/' + n, lambda sp=sp: odl.ReductionOperator(odl.MultiplyOperator(rel(sp, rng)))
        yield 'DiagonalOperator/' + n, lambda sp=sp, sc=sc: odl.DiagonalOperator(odl.ScalingOperator(sp, sc), odl.MultiplyOperator(rel(sp, rng)))
        yield 'DiagonalOperator/int/' + n, lambda sp=sp: odl.DiagonalOperator(odl.MultiplyOperator(rel(sp, rng)), 2)
        yield 'ProductSpaceOperator/lower-triangular/' + n, lambda sp=sp, sc=sc: odl.ProductSpaceOperator(
            [[odl.ScalingOperator(sp, sc), None], [odl.MultiplyOperator(rel(sp, rng)), odl.IdentityOperator(sp)]])
        yield 'ProductSpaceOperator/empty-row/' + n, lambda sp=sp: odl.ProductSpaceOperator(
            [[odl.MultiplyOperator(rel(sp, rng)), odl.IdentityOperator(sp)], [None, None]], domain=sp ** 2, range=sp ** 2)
        yield 'ProductSpaceOperator/empty-column/' + n, lambda sp=sp: odl.ProductSpaceOperator(
            [[odl.MultiplyOperator(rel(sp, rng)), None], [odl.IdentityOperator(sp), None]], domain=sp ** 2, range=sp ** 2)
        yield 'ProductSpaceOperator/dense/' + n, lambda sp=sp, sc=sc: odl.ProductSpaceOperator(
            [[odl.MultiplyOperator(rel(sp, rng)), odl.ScalingOperator(sp, sc)], [odl.IdentityOperator(sp), odl.MultiplyOperator(rel(sp, rng))]])
        # arithmetic
        yield 'expr/A+B/' + n, lambda sp=sp, sc=sc: odl.MultiplyOperator(rel(sp, rng)) + odl.ScalingOperator(sp, sc)
        yield 'expr/A*B/' + n, lambda sp=sp, sc=sc: odl.MultiplyOperator(rel(sp, rng)) * odl.ScalingOperator(sp, sc)
        yield 'expr/s*A/' + n, lambda sp=sp, sc=sc: sc * odl.MultiplyOperator(rel(sp, rng))
        yield 'expr/A*s/' + n, lambda sp=sp, sc=sc: odl.MultiplyOperator(rel(sp, rng)) * sc
        yield 'expr/v*A/' + n, lambda sp=sp: rel(sp, rng) * odl.MultiplyOperator(rel(sp, rng))
        yield 'expr/A*v/' + n, lambda sp=sp: odl.MultiplyOperator(rel(sp, rng)) * rel(sp, rng)
        yield 'expr/v*f/' + n, lambda sp=sp: rel(sp, rng) * odl.InnerProductOperator(rel(sp, rng))
        yield 'expr/-A/' + n, lambda sp=sp: -odl.MultiplyOperator(rel(sp, rng))
        yield 'expr/A-B/' + n, lambda sp=sp, sc=sc: odl.MultiplyOperator(rel(sp, rng)) - odl.ScalingOperator(sp, sc)
        yield 'expr/A**2/' + n, lambda sp=sp: odl.MultiplyOperator(rel(sp, rng)) ** 2
        yield 'expr/OperatorSum-with-tmp/' + n, lambda sp=sp, sc=sc: odl.OperatorSum(odl.MultiplyOperator(rel(sp, rng)), odl.ScalingOperator(sp, sc), sp.element(), sp.element())
        yield 'expr/OperatorComp-with-tmp/' + n, lambda sp=sp, sc=sc: odl.OperatorComp(odl.MultiplyOperator(rel(sp, rng)), odl.ScalingOperator(sp, sc), sp.element())
        yield 'expr/RightScalarMult-with-tmp/' + n, lambda sp=sp: odl.operator.operator.OperatorRightScalarMult(odl.MultiplyOperator(rel(sp, rng)), 2.0, sp.element())
        yield 'FlatteningOperator/C/' + n, lambda sp=sp: odl.FlatteningOperator(sp)
        yield 'FlatteningOperator/F/' + n, lambda sp=sp: odl.FlatteningOperator(sp, order='F')
        yield 'FlatteningOperator.inverse/' + n, lambda sp=sp: odl.FlatteningOperator(sp).inverse
        pts1 = [[0, 2]]
        pts2 = [[0, 1], [1, 2]]
        pts = pts1 if sp.ndim == 1 else pts2
        yield 'SamplingOperator/point_eval/' + n, lambda sp=sp, pts=pts: odl.SamplingOperator(sp, pts)
        yield 'SamplingOperator/integrate/' + n, lambda sp=sp, pts=pts: odl.SamplingOperator(sp, pts, variant='integrate')
        w1 = [[0, 2, 2]]
        w2 = [[0, 1, 1], [1, 2, 2]]
        wp = w1 if sp.ndim == 1 else w2
        yield 'WeightedSumSamplingOperator/char_fun/' + n, lambda sp=sp, wp=wp: odl.WeightedSumSamplingOperator(sp, wp)
        yield 'WeightedSumSamplingOperator/dirac/' + n, lambda sp=sp, wp=wp: odl.WeightedSumSamplingOperator(sp, wp, variant='dirac')
    M = rng.normal(size=(4, 3))
    Mc = M + 1j * rng.normal(size=(4, 3))
    r3w = odl.rn(3, weighting=2.0)
    r3aw = odl.rn(3, weighting=[1., 2., 3.])
    yield 'MatrixOperator/dense/r3', lambda: odl.MatrixOperator(M)
    yield 'MatrixOperator/dense/r3w', lambda: odl.MatrixOperator(M, domain=r3w)
    yield 'MatrixOperator/dense/r3w->r4', lambda: odl.MatrixOperator(M, domain=r3w, range=odl.rn(4))
    yield 'MatrixOperator/dense/r3w->r4w-same', lambda: odl.MatrixOperator(M, domain=r3w, range=odl.rn(4, weighting=2.0))
    yield 'MatrixOperator/dense/r3aw', lambda: odl.MatrixOperator(M, domain=r3aw)
    yield 'MatrixOperator/dense/c3', lambda: odl.MatrixOperator(Mc)
    # complex matrices with structure: symmetric but not Hermitian (DFT matrix, B + B^T, i * identity), Hermitian, skew-Hermitian
    Bc = rng.normal(size=(3, 3)) + 1j * rng.normal(size=(3, 3))
    yield 'MatrixOperator/dense/c3-symmetric-not-hermitian', lambda: odl.MatrixOperator(Bc + Bc.T)
    yield 'MatrixOperator/dense/c3-dft-matrix', lambda: odl.MatrixOperator(np.exp(-2j * np.pi * np.outer(np.arange(3), np.arange(3)) / 3))
    yield 'MatrixOperator/dense/c3-i-times-identity', lambda: odl.MatrixOperator(1j * np.eye(3))
    yield 'MatrixOperator/dense/c3-hermitian', lambda: odl.MatrixOperator(Bc + Bc.conj().T)
    yield 'MatrixOperator/dense/c3-skew-hermitian', lambda: odl.MatrixOperator(Bc - Bc.conj().T)
    yield 'MatrixOperator/dense/r3-symmetric', lambda: odl.MatrixOperator(M[:, :3] + M[:, :3].T if M.shape[0] == 3 else np.eye(3))
    yield 'MatrixOperator/dense/real-matrix-on-c3', lambda: odl.MatrixOperator(M, domain=odl.cn(3))
    yield 'MatrixOperator/axis1/r(2,3)', lambda: odl.MatrixOperator(M, domain=odl.rn((2, 3)), axis=1)
    yield 'MatrixOperator/axis0/r(3,2)', lambda: odl.MatrixOperator(M, domain=odl.rn((3, 2)), axis=0)
    yield 'MatrixOperator/sparse/r3', lambda: odl.MatrixOperator(scipy.sparse.coo_matrix(M))
    yield 'MatrixOperator/sparse/c3', lambda: odl.MatrixOperator(scipy.sparse.csr_matrix(Mc))
    yield 'MatrixOperator.inverse/r3', lambda: odl.MatrixOperator(rng.normal(size=(3, 3)) + 3 * np.eye(3)).inverse
    dsp = [('d4', odl.uniform_discr(0, 2, 4)), ('d4c', odl.uniform_discr(0, 2, 4, dtype=complex)),
           ('d4b', odl.uniform_discr(0, 2, 4, nodes_on_bdry=True)), ('d23', odl.uniform_discr([0, 0], [1, 3], (2, 3))),
           ('d33b', odl.uniform_discr([0, 0], [1, 3], (3, 3), nodes_on_bdry=[(True, False), (False, True)]))]
    pads = ['constant', 'symmetric', 'periodic', 'order0', 'order1', 'order2', 'order1_adjoint', 'order0_adjoint', 'symmetric_adjoint', 'order2_adjoint']
    for n, sp in dsp:
        for method, pad in itertools.product(['forward', 'backward', 'central'], pads):
            if 'order2' in pad and min(sp.shape) < 3:
                continue
            if not thorough and method != 'forward' and pad not in ('constant', 'periodic', 'order1'):
                continue
            yield 'PartialDerivative/%s/%s/%s' % (method, pad, n), lambda sp=sp, method=method, pad=pad: odl.PartialDerivative(sp, axis=sp.ndim - 1, method=method, pad_mode=pad)
            yield 'Gradient/%s/%s/%s' % (method, pad, n), lambda sp=sp, method=method, pad=pad: odl.Gradient(sp, method=method, pad_mode=pad)
            yield 'Divergence/%s/%s/%s' % (method, pad, n), lambda sp=sp, method=method, pad=pad: odl.Divergence(range=sp, method=method, pad_mode=pad)
        yield 'Gradient/range-given/' + n, lambda sp=sp: odl.Gradient(sp, range=sp ** sp.ndim)
        yield 'Gradient/affine/' + n, lambda sp=sp: odl.Gradient(sp, pad_mode='constant', pad_const=1.5)
        yield 'PartialDerivative/affine/' + n, lambda sp=sp: odl.PartialDerivative(sp, axis=0, pad_mode='constant', pad_const=1.5)
        yield 'Divergence/affine/' + n, lambda sp=sp: odl.Divergence(range=sp, pad_mode='constant', pad_const=1.5)
        for pad in ['constant', 'symmetric', 'periodic', 'order0']:
            yield 'Laplacian/%s/%s' % (pad, n), lambda sp=sp, pad=pad: odl.Laplacian(sp, pad_mode=pad)
        yield 'Laplacian/affine/' + n, lambda sp=sp: odl.Laplacian(sp, pad_mode='constant', pad_const=-0.5)
        for pad in ['constant', 'symmetric', 'periodic', 'order0', 'order1']:
            yield 'ResizingOperator/grow/%s/%s' % (pad, n), lambda sp=sp, pad=pad: odl.ResizingOperator(sp, ran_shp=tuple(k + 2 for k in sp.shape), pad_mode=pad)
            if min(sp.shape) >= 3:   # the inverse of a shrinking operator pads; pad modes need >= 2 remaining points
                yield 'ResizingOperator/shrink/%s/%s' % (pad, n), lambda sp=sp, pad=pad: odl.ResizingOperator(sp, ran_shp=tuple(k - 1 for k in sp.shape), pad_mode=pad)
        yield 'ResizingOperator/affine/' + n, lambda sp=sp: odl.ResizingOperator(sp, ran_shp=tuple(k + 2 for k in sp.shape), pad_const=1.0)
        for sp2, n2 in ([(odl.uniform_discr([0, 0], [1, 3], (4, 6)), 'd46'), (odl.uniform_discr([0, 0], [1, 3], (4, 6), dtype=complex), 'd46c')] if n == 'd4' else []):
            # one axis grows while another shrinks (decisions taken from total sizes are wrong per axis): range smaller / equal / larger in total
            for pad in ['constant', 'symmetric', 'periodic', 'order0', 'order1']:
                for tag, dshape in (('total-smaller', (1, -2)), ('total-larger', (3, -1)), ('swap', None)):
                    rs = tuple(reversed(sp2.shape)) if dshape is None else tuple(k + d for k, d in zip(sp2.shape, dshape + (0,) * sp2.ndim))
                    if min(rs) < 2 or rs == sp2.shape:
                        continue
                    yield 'ResizingOperator/mixed-%s/%s/%s' % (tag, pad, n2), lambda sp2=sp2, pad=pad, rs=rs: odl.ResizingOperator(sp2, ran_shp=rs, pad_mode=pad)
                    yield 'ResizingOperator.adjoint/mixed-%s/%s/%s' % (tag, pad, n2), lambda sp2=sp2, pad=pad, rs=rs: odl.ResizingOperator(sp2, ran_shp=rs, pad_mode=pad).adjoint
        yield 'ResizingOperator.adjoint/' + n, lambda sp=sp: odl.ResizingOperator(sp, ran_shp=tuple(k + 2 for k in sp.shape), pad_mode='order0').adjoint
    for shape in [(4,), (5,), (2, 3), (3, 4)]:
        for dt in ('float64', 'complex128'):
            sp = odl.uniform_discr([0] * len(shape), [1] * len(shape), shape, dtype=dt)
            for impl in ('numpy', 'pyfftw'):
                for hc in ((False, True) if dt == 'float64' else (False,)):
                    tag = '%s/%s/%s/%s' % ('r' if dt == 'float64' else 'c', impl, 'hc' if hc else 'full', 'x'.join(map(str, shape)))
                    yield 'DiscreteFourierTransform/' + tag, lambda sp=sp, impl=impl, hc=hc: odl.trafos.DiscreteFourierTransform(sp, impl=impl, halfcomplex=hc)
                    yield 'DiscreteFourierTransformInverse/' + tag, lambda sp=sp, impl=impl, hc=hc: odl.trafos.DiscreteFourierTransform(sp, impl=impl, halfcomplex=hc).inverse
                    yield 'FourierTransform/' + tag, lambda sp=sp, impl=impl, hc=hc: odl.trafos.FourierTransform(sp, impl=impl, halfcomplex=hc)
                    yield 'FourierTransformInverse/' + tag, lambda sp=sp, impl=impl, hc=hc: odl.trafos.FourierTransform(sp, impl=impl, halfcomplex=hc).inverse
    sp8 = odl.uniform_discr(0, 1, 8)
    sp7 = odl.uniform_discr(0, 1.4, 7)
    sp64 = odl.uniform_discr([0, 0], [1, 2], (6, 4))
    for w in ('haar', 'db2', 'sym3'):
        yield 'WaveletTransform/%s/even' % w, lambda w=w: odl.trafos.WaveletTransform(sp8, w, nlevels=2, pad_mode='pywt_periodic')
        yield 'WaveletTransformInverse/%s/even' % w, lambda w=w: odl.trafos.WaveletTransform(sp8, w, nlevels=2, pad_mode='pywt_periodic').inverse
    yield 'WaveletTransform/db2/odd', lambda: odl.trafos.WaveletTransform(sp7, 'db2', nlevels=2, pad_mode='pywt_periodic')
    yield 'WaveletTransformInverse/db2/odd', lambda: odl.trafos.WaveletTransform(sp7, 'db2', nlevels=2, pad_mode='pywt_periodic').inverse
    yield 'WaveletTransform/haar/2d-axes', lambda: odl.trafos.WaveletTransform(sp64, 'haar', nlevels=1, pad_mode='pywt_periodic', axes=(0,))
    yield 'WaveletTransform/bior/symmetric-pad', lambda: odl.trafos.WaveletTransform(sp8, 'bior2.2', nlevels=1, pad_mode='symmetric')


def nonlinear_population(rng, thorough=False):
    r4 = odl.rn(4)
    c4 = odl.cn(4)
    d = odl.uniform_discr(0, 1, 4)
    r4w = odl.rn(4, weighting=1.5)
    for n, sp in [('r4', r4), ('c4', c4), ('d', d), ('r4w', r4w)]:
        yield 'PowerOperator/2/' + n, lambda sp=sp: odl.PowerOperator(sp, 2)
        yield 'PowerOperator/Power2.5/' + n, lambda sp=sp: odl.PowerOperator(sp, 2.5)
        yield 'PowerOperator/field/' + n, lambda sp=sp: odl.PowerOperator(sp.field, 3)
        yield 'NormOperator/' + n, lambda sp=sp: odl.NormOperator(sp)
        yield 'DistOperator/' + n, lambda sp=sp: odl.DistOperator(rel(sp, rng))
        yield 'ConstantOperator/' + n, lambda sp=sp: odl.ConstantOperator(rel(sp, rng))
        yield 'ConstantOperator/other-domain/' + n, lambda sp=sp: odl.ConstantOperator(rel(sp, rng), domain=odl.rn(2))
        yield 'ComplexModulus/' + n, lambda sp=sp: odl.ComplexModulus(sp)
        yield 'ComplexModulusSquared/' + n, lambda sp=sp: odl.ComplexModulusSquared(sp)
        for p in (1, 1.5, 2, 3, np.inf):
            yield 'PointwiseNorm/p=%s/%s' % (p, n), lambda sp=sp, p=p: odl.PointwiseNorm(sp ** 2, exponent=p)
            yield 'PointwiseNorm/p=%s/weighted/%s' % (p, n), lambda sp=sp, p=p: odl.PointwiseNorm(sp ** 2, exponent=p, weighting=[1.0, 2.5])
            yield 'PointwiseNorm/p=%s/scalar-weight/%s' % (p, n), lambda sp=sp, p=p: odl.PointwiseNorm(sp ** 2, exponent=p, weighting=1.7)
        A = lambda sp=sp: odl.PowerOperator(sp, 2)
        B = lambda sp=sp: odl.ScalingOperator(sp, 2.0)
        yield 'expr/nl:A+B/' + n, lambda sp=sp: A() + B()
        yield 'expr/nl:A*B/' + n, lambda sp=sp: A() * B()
        yield 'expr/nl:B*A/' + n, lambda sp=sp: B() * A()
        yield 'expr/nl:A*s/' + n, lambda sp=sp: A() * 2.0
        yield 'expr/nl:s*A/' + n, lambda sp=sp: 2.0 * A()
        yield 'expr/nl:A*v/' + n, lambda sp=sp: A() * rel(sp, rng)
        yield 'expr/nl:v*A/' + n, lambda sp=sp: rel(sp, rng) * A()
        yield 'expr/nl:A+v/' + n, lambda sp=sp: A() + rel(sp, rng)
        yield 'expr/nl:OperatorPointwiseProduct/' + n, lambda sp=sp: odl.OperatorPointwiseProduct(A(), B())
        yield 'expr/nl:RightScalarMult-with-tmp/' + n, lambda sp=sp: odl.operator.operator.OperatorRightScalarMult(A(), 2.0, sp.element())
    import odl.ufunc_ops as uo
    names = [nm for nm in dir(uo) if not nm.startswith('_') and callable(getattr(uo, nm)) and nm not in ('ufunc_class_factory', 'ufunc_functional_factory', 'find_min_signature', 'dtypes_out', 'derivative_factory', 'gradient_factory') and nm.islower()]
    i4 = odl.tensor_space(4, dtype='int64')
    integer_only = ('bitwise_and', 'bitwise_or', 'bitwise_xor', 'invert', 'left_shift', 'right_shift', 'gcd', 'lcm', 'bitwise_count')
    for nm in sorted(names):
        fac = getattr(uo, nm)
        nin = getattr(np, nm).nin if hasattr(np, nm) else 1
        nout = getattr(np, nm).nout if hasattr(np, nm) else 1
        if nm in integer_only:
            yield 'ufunc_ops.%s/i4' % nm, lambda fac=fac: fac(i4)
            continue
        yield 'ufunc_ops.%s/r4' % nm, lambda fac=fac: fac(r4)
        if thorough or nm in ('sin', 'exp', 'absolute', 'add', 'modf', 'square'):
            yield 'ufunc_ops.%s/d' % nm, lambda fac=fac: fac(d)
            if nin == 1 and nout == 1:
                # functionals on fields exist for one-in one-out ufuncs only
                yield 'ufunc_ops.%s/field' % nm, lambda fac=fac: fac(odl.RealNumbers())
    sp2 = odl.uniform_discr([0, 0], [1, 1], (4, 5))
    yield 'LinDeformFixedDisp/linear', lambda: odl.deform.LinDeformFixedDisp(sp2.tangent_bundle.element([0.05 * sp2.one(), -0.03 * sp2.one()]))
    yield 'LinDeformFixedDisp/nearest', lambda: odl.deform.LinDeformFixedDisp(sp2.tangent_bundle.element([0.05 * sp2.one(), -0.03 * sp2.one()]), interp='nearest')
    yield 'LinDeformFixedDisp.adjoint', lambda: odl.deform.LinDeformFixedDisp(sp2.tangent_bundle.element([0.05 * sp2.one(), -0.03 * sp2.one()])).adjoint
    yield 'LinDeformFixedTempl', lambda: odl.deform.LinDeformFixedTempl(sp2.element(lambda x: x[0] + x[1]))
    yield 'LinDeformFixedTempl.derivative', lambda: odl.deform.LinDeformFixedTempl(sp2.element(lambda x: x[0] + x[1])).derivative(sp2.tangent_bundle.zero())
    yield 'Resampling/linear/refine', lambda: odl.Resampling(d, odl.uniform_discr(0, 1, 7), 'linear')
    yield 'Resampling/nearest/coarsen', lambda: odl.Resampling(odl.uniform_discr(0, 1, 7), d, 'nearest')
    yield 'Resampling.adjoint', lambda: odl.Resampling(d, odl.uniform_discr(0, 1, 7), 'linear').adjoint
    sq = odl.uniform_discr([-1, -1], [1, 1], (6, 6))
    yield 'RayTransform/skimage', lambda: odl.tomo.RayTransform(sq, odl.tomo.parallel_beam_geometry(sq, 5), impl='skimage')
    yield 'RayTransform.adjoint/skimage', lambda: odl.tomo.RayTransform(sq, odl.tomo.parallel_beam_geometry(sq, 5), impl='skimage').adjoint
    # complex spaces: real and imaginary parts are transformed separately by a wrapper
    sqc = odl.uniform_discr([-1, -1], [1, 1], (6, 6), dtype=complex)
    yield 'RayTransform/skimage/complex', lambda: odl.tomo.RayTransform(sqc, odl.tomo.parallel_beam_geometry(sqc.real_space, 5), impl='skimage')
    yield 'RayTransform.adjoint/skimage/complex', lambda: odl.tomo.RayTransform(sqc, odl.tomo.parallel_beam_geometry(sqc.real_space, 5), impl='skimage').adjoint


def functional_recipes(rng, thorough=False):
    """(name, space-tag, thunk) for every Functional class incl. derived forms."""
    r4 = odl.rn(4)
    spaces = [('r4', r4), ('r4w', odl.rn(4, weighting=1.5)), ('d', odl.uniform_discr(0, 1, 4)), ('d23', odl.uniform_discr([0, 0], [1, 3], (2, 3)))]
    for n, sp in spaces:
        g = lambda sp=sp: rel(sp, rng)
        gp = lambda sp=sp: rel(sp, rng, positive=True)
        yield 'L1Norm/' + n, lambda sp=sp: S.L1Norm(sp)
        yield 'L2Norm/' + n, lambda sp=sp: S.L2Norm(sp)
        yield 'L2NormSquared/' + n, lambda sp=sp: S.L2NormSquared(sp)
        yield 'LpNorm/inf/' + n, lambda sp=sp: S.LpNorm(sp, np.inf)
        yield 'LpNorm/1/' + n, lambda sp=sp: S.LpNorm(sp, 1)
        yield 'LpNorm/2/' + n, lambda sp=sp: S.LpNorm(sp, 2)
        yield 'LpNorm/3/' + n, lambda sp=sp: S.LpNorm(sp, 3)
        yield 'IndicatorLpUnitBall/1/' + n, lambda sp=sp: S.IndicatorLpUnitBall(sp, 1)
        yield 'IndicatorLpUnitBall/2/' + n, lambda sp=sp: S.IndicatorLpUnitBall(sp, 2)
        yield 'IndicatorLpUnitBall/inf/' + n, lambda sp=sp: S.IndicatorLpUnitBall(sp, np.inf)
        yield 'IndicatorBox/' + n, lambda sp=sp: S.IndicatorBox(sp, -0.5, 1)
        yield 'IndicatorBox/one-sided/' + n, lambda sp=sp: S.IndicatorBox(sp, lower=0.1)
        yield 'IndicatorNonnegativity/' + n, lambda sp=sp: S.IndicatorNonnegativity(sp)
        yield 'IndicatorZero/' + n, lambda sp=sp: S.IndicatorZero(sp)
        yield 'IndicatorZero/constant/' + n, lambda sp=sp: S.IndicatorZero(sp, 2.0)
        yield 'IndicatorSimplex/' + n, lambda sp=sp: S.IndicatorSimplex(sp)
        yield 'IndicatorSimplex/diameter/' + n, lambda sp=sp: S.IndicatorSimplex(sp, diameter=2.5)
        yield 'IndicatorSumConstraint/' + n, lambda sp=sp: S.IndicatorSumConstraint(sp)
        yield 'IndicatorSumConstraint/value/' + n, lambda sp=sp: S.IndicatorSumConstraint(sp, sum_value=2.5)
        yield 'KullbackLeibler/' + n, lambda sp=sp: S.KullbackLeibler(sp)
        yield 'KullbackLeibler/prior/' + n, lambda sp=sp: S.KullbackLeibler(sp, prior=gp())
        yield 'KullbackLeiblerCrossEntropy/' + n, lambda sp=sp: S.KullbackLeiblerCrossEntropy(sp)
        yield 'KullbackLeiblerCrossEntropy/prior/' + n, lambda sp=sp: S.KullbackLeiblerCrossEntropy(sp, prior=gp())
        yield 'Huber/' + n, lambda sp=sp: S.Huber(sp, 0.2)
        yield 'ZeroFunctional/' + n, lambda sp=sp: S.ZeroFunctional(sp)
        yield 'ConstantFunctional/' + n, lambda sp=sp: S.ConstantFunctional(sp, 1.5)
        yield 'QuadraticForm/vector/' + n, lambda sp=sp: S.QuadraticForm(vector=g(), constant=0.5)
        yield 'QuadraticForm/operator/' + n, lambda sp=sp: S.QuadraticForm(operator=odl.ScalingOperator(sp, 2.0), vector=g(), constant=-1.0)
        yield 'derived/translated/L1/' + n, lambda sp=sp: S.L1Norm(sp).translated(g())
        yield 'derived/translated/L2sq/' + n, lambda sp=sp: S.L2NormSquared(sp).translated(g())
        yield 'derived/left-scaled/L1/' + n, lambda sp=sp: 2.5 * S.L1Norm(sp)
        yield 'derived/left-scaled/L2/' + n, lambda sp=sp: 0.4 * S.L2Norm(sp)
        yield 'derived/right-scaled/L1/' + n, lambda sp=sp: S.L1Norm(sp) * 2.5
        yield 'derived/right-scaled/L2sq/' + n, lambda sp=sp: S.L2NormSquared(sp) * (-0.5)
        yield 'derived/scalar-sum/L1/' + n, lambda sp=sp: S.L1Norm(sp) + 1.25
        yield 'derived/quadratic-perturb/L1/' + n, lambda sp=sp: S.FunctionalQuadraticPerturb(S.L1Norm(sp), 0.5, g())
        yield 'derived/quadratic-perturb/linear-only/L2/' + n, lambda sp=sp: S.FunctionalQuadraticPerturb(S.L2Norm(sp), 0.0, g(), 0.3)
        # a linear functional composed with a non-linear / affine operator is not linear
        yield 'derived/comp(linear-functional,PowerOperator)/' + n, lambda sp=sp: S.QuadraticForm(vector=g()) * odl.PowerOperator(sp, 2)
        yield 'derived/comp(linear-functional,affine)/' + n, lambda sp=sp: S.QuadraticForm(vector=g()) * (odl.IdentityOperator(sp) - g())
        yield 'derived/comp(linear-functional,linear)/' + n, lambda sp=sp: S.QuadraticForm(vector=g()) * odl.ScalingOperator(sp, 1.5)
        # linear base functionals: the perturbed functional is linear only without quadratic and constant part
        yield 'derived/quadratic-perturb/linear-base/linear-term/' + n, lambda sp=sp: S.FunctionalQuadraticPerturb(S.ZeroFunctional(sp), 0.0, g())
        yield 'derived/quadratic-perturb/linear-base/constant/' + n, lambda sp=sp: S.FunctionalQuadraticPerturb(S.ZeroFunctional(sp), 0.0, g(), 2.0)
        yield 'derived/quadratic-perturb/linear-base/quadratic/' + n, lambda sp=sp: S.FunctionalQuadraticPerturb(S.QuadraticForm(vector=g()), 0.7)
        yield 'derived/left-vector(quadratic-perturb/linear-base/constant)/' + n, \
            lambda sp=sp: odl.rn(2).element([1.0, -2.0]) * S.FunctionalQuadraticPerturb(S.ZeroFunctional(sp), 0.0, g(), 2.0)
        yield 'derived/sum/L2sq+Huber/' + n, lambda sp=sp: S.L2NormSquared(sp) + S.Huber(sp, 0.3)
        yield 'derived/comp/L2sq*Scaling/' + n, lambda sp=sp: S.L2NormSquared(sp) * odl.ScalingOperator(sp, 2.0)
        yield 'derived/right-vector/L2sq/' + n, lambda sp=sp: S.L2NormSquared(sp) * g()
        yield 'derived/convex_conj/L1/' + n, lambda sp=sp: S.L1Norm(sp).convex_conj
        yield 'derived/convex_conj/L2sq/' + n, lambda sp=sp: S.L2NormSquared(sp).convex_conj
        yield 'derived/convex_conj/KL/' + n, lambda sp=sp: S.KullbackLeibler(sp, prior=gp()).convex_conj
        yield 'derived/convex_conj/KLCE/' + n, lambda sp=sp: S.KullbackLeiblerCrossEntropy(sp, prior=gp()).convex_conj
        yield 'derived/convex_conj/default(Huber+L2sq)/' + n, lambda sp=sp: (S.L2NormSquared(sp) + S.Huber(sp, 0.3)).convex_conj
        yield 'derived/MoreauEnvelope/L1/' + n, lambda sp=sp: S.MoreauEnvelope(S.L1Norm(sp), 0.7)
        yield 'derived/BregmanDistance/L2sq/' + n, lambda sp=sp: (lambda p: S.BregmanDistance(S.L2NormSquared(sp), p, S.L2NormSquared(sp).gradient(p)))(g())
        yield 'derived/InfimalConvolution/' + n, lambda sp=sp: S.InfimalConvolution(S.L2NormSquared(sp), S.L1Norm(sp))
        yield 'derived/product/' + n, lambda sp=sp: S.FunctionalProduct(S.L2NormSquared(sp), S.L2NormSquared(sp) + 1.0)
        yield 'derived/quotient/' + n, lambda sp=sp: S.FunctionalQuotient(S.L2NormSquared(sp), S.L2NormSquared(sp) + 1.0)
        yield 'IdentityFunctional/' + n, lambda sp=sp: S.IdentityFunctional(sp.field)
        yield 'ScalingFunctional/' + n, lambda sp=sp: S.ScalingFunctional(sp.field, 2.5)
        yield 'derived/left-vector(FunctionalLeftVectorMult)/' + n, lambda sp=sp: odl.rn(2).element([1.0, -2.0]) * S.L2NormSquared(sp)
    for n, sp in [('r4', r4), ('d', odl.uniform_discr(0, 1, 4))]:
        ps = sp ** 2
        yield 'GroupL1Norm/' + n, lambda ps=ps: S.GroupL1Norm(ps)
        yield 'GroupL1Norm/p1/' + n, lambda ps=ps: S.GroupL1Norm(ps, exponent=1)
        yield 'IndicatorGroupL1UnitBall/' + n, lambda ps=ps: S.IndicatorGroupL1UnitBall(ps)
        yield 'SeparableSum/L1,L2sq/' + n, lambda sp=sp: S.SeparableSum(S.L1Norm(sp), S.L2NormSquared(sp))
        yield 'SeparableSum/power/' + n, lambda sp=sp: S.SeparableSum(S.L1Norm(sp), 3)
        yield 'L1Norm/pspace/' + n, lambda ps=ps: S.L1Norm(ps)
        yield 'L2NormSquared/pspace/' + n, lambda ps=ps: S.L2NormSquared(ps)
        yield 'Huber/pspace/' + n, lambda ps=ps: S.Huber(ps, 0.3)
        yield 'IndicatorBox/pspace/' + n, lambda ps=ps: S.IndicatorBox(ps, -0.5, 1)
    NN = lambda: odl.ProductSpace(odl.ProductSpace(odl.rn(3), 2), 2)
    yield 'NuclearNorm/r(2x3)', lambda: S.NuclearNorm(NN())
    yield 'NuclearNorm/outer1/r(2x3)', lambda: S.NuclearNorm(NN(), outer_exp=1, singular_vector_exp=1)
    yield 'NuclearNorm/sv2/r(2x3)', lambda: S.NuclearNorm(NN(), outer_exp=2, singular_vector_exp=2)
    yield 'NuclearNorm/svinf/r(2x3)', lambda: S.NuclearNorm(NN(), outer_exp=1, singular_vector_exp=np.inf)
    yield 'IndicatorNuclearNormUnitBall/r(2x3)', lambda: S.IndicatorNuclearNormUnitBall(NN())
    yield 'RosenbrockFunctional/r4', lambda: S.RosenbrockFunctional(odl.rn(4))
    # non-constant Hessian after a linear operator that moves the point (second derivative at the inner point A x)
    yield 'derived/comp(Rosenbrock,Matrix)/r4', lambda: S.RosenbrockFunctional(odl.rn(4), scale=2.0) * odl.MatrixOperator(
        np.array([[0.5, 0.2, 0, 0], [0, 0.7, 0.1, 0], [0.3, 0, 0.6, 0], [0, 0, 0.2, 0.9]]), domain=odl.rn(4), range=odl.rn(4))
    yield 'derived/comp(L2NormSquared*Power,Scaling)/r4', lambda: (S.L2NormSquared(odl.rn(4)) * odl.PowerOperator(odl.rn(4), 2)) * odl.ScalingOperator(odl.rn(4), 0.6)
    yield 'RosenbrockFunctional/scale/r2', lambda: S.RosenbrockFunctional(odl.rn(2), scale=3.0)
    yield 'NumericalGradient/r4', lambda: odl.solvers.functional.derivatives.NumericalGradient(S.L2NormSquared(r4))
    yield 'NumericalDerivative/r4', lambda: odl.solvers.functional.derivatives.NumericalDerivative(odl.PowerOperator(r4, 2), r4.one())


def all_recipes(rng, thorough=False):
    for n, t in linear_population(rng, thorough):
        yield 'lin', n, t
    for n, t in nonlinear_population(rng, thorough):
        yield 'nonlin', n, t
    for n, t in functional_recipes(rng, thorough):
        yield 'func', n, t


def library_classes():
    """All concrete Operator subclasses defined in library modules (incl. dynamically created ones)."""
    from odl.operator.operator import Operator
    import importlib
    import pkgutil
    for m in pkgutil.walk_packages(odl.__path__, 'odl.'):
        if '.test' in m.name or 'contrib' in m.name or 'diagnostics' in m.name or m.name.endswith('__main__'):
            continue
        try:
            importlib.import_module(m.name)
        except Exception:
            pass
    seen = set()

    def walk(c):
        for s in c.__subclasses__():
            if s not in seen:
                seen.add(s)
                walk(s)
    walk(Operator)
    return sorted(set('%s.%s' % (c.__module__, c.__qualname__) for c in seen
                      if c.__module__.startswith('odl.') and '.test' not in c.__module__ and 'contrib' not in c.__module__))
