"""pytest plugin (-p vf.ambient): run the repository's own tests under the record-only monitors.

Switches on the poison sanitizer and the Operator.__call__ contract (optionally with shadow execution of
aliased calls, VF_AMBIENT_SHADOW=1) and dumps what they recorded to VF_AMBIENT_LOG at session end.  Test
pass/fail is ignored by the caller; only violations recorded for *library* components count.
"""

import json
import os

_STATE = {}


def pytest_configure(config):
    import warnings
    warnings.filterwarnings('ignore')
    import sys
    repo = os.environ.get('VF_REPO', '/repo')
    if repo not in sys.path[:1]:
        sys.path.insert(0, repo)
    from vf import sanitize, util
    viol = {}
    counts = {}

    def report(kind, op, detail):
        key = (type(op).__name__, '%s->%s' % (util.space_tag(op.domain), util.space_tag(op.range)), kind)
        viol[key] = viol.get(key, 0) + 1
    class Rec(object):
        def ev(self, name, n=1):
            counts[name] = counts.get(name, 0) + n

        def violation(self, comp, cfg, kind, **detail):
            key = (comp, cfg.split(';a=')[0], kind)
            viol[key] = viol.get(key, 0) + 1
            if key not in examples:
                examples[key] = {k: repr(v)[:200] for k, v in detail.items()}

        def note_add(self, key, n=1):
            counts[key] = counts.get(key, 0) + n
    examples = {}
    if os.environ.get('VF_AMBIENT_NO_CALLMON', '0') != '1':
        sanitize.poison_on()
        mon = sanitize.CallMonitor(report, shadow=os.environ.get('VF_AMBIENT_SHADOW', '0') == '1', library_only=True, count=counts)
        mon.install()
    if os.environ.get('VF_AMBIENT_INNER', '0') == '1':
        # C02: documented weighted sums and axioms on every inner / norm / dist call the suite makes
        from vf.props import c02
        c02.AmbientContract(Rec()).install()
    if os.environ.get('VF_AMBIENT_EQ', '0') == '1':
        # C20: coherence of ==, hash and membership on every comparison the suite makes
        from vf.props import c20
        c20.AmbientContract(Rec()).install()
    if os.environ.get('VF_AMBIENT_UFUNC', '0') == '1':
        # C17: every __array_ufunc__ dispatch the suite makes against NumPy on the underlying arrays
        from vf.props import c17
        c17.AmbientContract(Rec()).install()
    if os.environ.get('VF_AMBIENT_LINCOMB', '0') == '1':
        # C01: the lincomb / multiply / divide contract on every call the suite makes
        from vf.props import c01
        c01.Contract(Rec()).install()
    _STATE.update(viol=viol, counts=counts, sanitize=sanitize, examples=examples)


def pytest_sessionfinish(session, exitstatus):
    path = os.environ.get('VF_AMBIENT_LOG')
    if not path or not _STATE:
        return
    data = {
        'stats': {k: v for k, v in _STATE['counts'].items()},
        'poisoned': _STATE['sanitize'].poisoned_count(),
        'violations': [{'component': k[0], 'config': k[1], 'kind': k[2], 'count': v, 'example': _STATE['examples'].get(k)}
                       for k, v in sorted(_STATE['viol'].items())],
        'exitstatus': int(exitstatus),
    }
    with open(path, 'w') as f:
        json.dump(data, f)
