"""Functional recipes shared by C07 (proximal), C08 (conjugates), C09 (gradients), C10 (aliasing).

Every recipe is instantiated in the variants the automated campaign showed to matter:
plain, translated / with data term, scaled by lambda not in {0, 1}, (element-valued sigma is chosen by the
workloads for the factories that document it).
"""

import numpy as np
import odl

from . import util

S = odl.solvers


def spaces():
    yield 'rn5', odl.rn(5)
    yield 'rn5w', odl.rn(5, weighting=2.5)
    yield 'rn5aw', odl.rn(5, weighting=np.array([1., 2, .5, 3, 1.5]))
    yield 'discr6', odl.uniform_discr(0, 3, 6)            # cell 0.5
    yield 'discr2d', odl.uniform_discr([0, 0], [1, 2], (3, 4))
    yield 'rn150', odl.rn(150)                            # beyond the 100-entry lincomb switch


def pspaces():
    yield 'rn4^2', odl.rn(4) ** 2
    yield 'discr^2', odl.uniform_discr(0, 2, 5) ** 2
    yield 'discr2d^2', odl.uniform_discr([0, 0], [1, 2], (3, 2)) ** 2
    # component-weighted power spaces (the vector-field functionals must use the weights consistently in value,
    # gradient, proximal and conjugate)
    yield 'rn4^2;w=[1,4]', odl.ProductSpace(odl.rn(4), 2, weighting=[1.0, 4.0])
    yield 'discr^2;w=2.5', odl.ProductSpace(odl.uniform_discr(0, 2, 5), 2, weighting=2.5)


def rand_el(sp, rng, scale=1.0):
    return util.rand_element(sp, rng, scale=scale)


def pos_el(sp, rng, lo=0.3, hi=2.0):
    if util.is_pspace(sp):
        return sp.element([pos_el(s, rng, lo, hi) for s in sp])
    return sp.element(rng.uniform(lo, hi, size=sp.shape))


def funcs(sp, rng):
    """(name, thunk, tags) on a non-product space.  tags: 'kl' (needs positive points for values),
    'smooth' (has gradient everywhere on the probe region), 'indicator'."""
    g = lambda: rand_el(sp, rng)
    gp = lambda: pos_el(sp, rng)
    yield 'L1Norm', lambda: S.L1Norm(sp), ()
    yield 'L2Norm', lambda: S.L2Norm(sp), ()
    yield 'L2NormSquared', lambda: S.L2NormSquared(sp), ('smooth',)
    yield 'LpNorm(inf)', lambda: S.LpNorm(sp, np.inf), ()
    yield 'LpNorm(1)', lambda: S.LpNorm(sp, 1), ()
    yield 'LpNorm(2)', lambda: S.LpNorm(sp, 2), ()
    # exponents without closed-form proximal / gradient: values and conjugates only (conjugate exponent 3 <-> 1.5)
    yield 'LpNorm(1.5)', lambda: S.LpNorm(sp, 1.5), ('nograd',)
    yield 'LpNorm(3)', lambda: S.LpNorm(sp, 3), ('nograd',)
    yield 'IndicatorLpUnitBall(1.5)', lambda: S.IndicatorLpUnitBall(sp, 1.5), ('indicator', 'nograd')
    yield 'IndicatorLpUnitBall(3)', lambda: S.IndicatorLpUnitBall(sp, 3), ('indicator', 'nograd')
    yield 'IndicatorLpUnitBall(1)', lambda: S.IndicatorLpUnitBall(sp, 1), ('indicator',)
    yield 'IndicatorLpUnitBall(2)', lambda: S.IndicatorLpUnitBall(sp, 2), ('indicator',)
    yield 'IndicatorLpUnitBall(inf)', lambda: S.IndicatorLpUnitBall(sp, np.inf), ('indicator',)
    yield 'IndicatorBox', lambda: S.IndicatorBox(sp, -0.5, 0.8), ('indicator',)
    yield 'IndicatorBox(lower-only)', lambda: S.IndicatorBox(sp, lower=0.1), ('indicator',)
    yield 'IndicatorNonnegativity', lambda: S.IndicatorNonnegativity(sp), ('indicator',)
    yield 'ZeroFunctional', lambda: S.ZeroFunctional(sp), ('smooth',)
    yield 'ConstantFunctional', lambda: S.ConstantFunctional(sp, 2.0), ('smooth',)
    yield 'IndicatorZero', lambda: S.IndicatorZero(sp), ('indicator',)
    yield 'KullbackLeibler(prior)', lambda: S.KullbackLeibler(sp, gp()), ('kl',)
    # prior with exact zeros (documented as allowed: 0 log 0 := 0); grad f(x) = 1 - g/x is exactly 1 there
    yield 'KullbackLeibler(prior-with-zeros)', lambda: S.KullbackLeibler(sp, _zero_some(gp(), rng)), ('kl',)
    yield 'KullbackLeibler', lambda: S.KullbackLeibler(sp), ('kl',)
    yield 'KullbackLeibler(prior).convex_conj', lambda: S.KullbackLeibler(sp, gp()).convex_conj, ('klcc',)
    yield 'KullbackLeiblerCrossEntropy(prior)', lambda: S.KullbackLeiblerCrossEntropy(sp, gp()), ('kl',)
    yield 'KullbackLeiblerCrossEntropy', lambda: S.KullbackLeiblerCrossEntropy(sp), ('kl',)
    yield 'KullbackLeiblerCrossEntropy(prior).convex_conj', lambda: S.KullbackLeiblerCrossEntropy(sp, gp()).convex_conj, ('smooth', 'exp')
    yield 'Huber', lambda: S.Huber(sp, 0.3), ('c1',)
    # documented limit case: without smoothing the Huber functional is the 1-norm (of the pointwise 2-norm on vector fields)
    yield 'Huber(gamma=0)', lambda: S.Huber(sp, 0), ('nograd',)
    yield 'IndicatorSimplex', lambda: S.IndicatorSimplex(sp, 1.5), ('indicator',)
    yield 'IndicatorSumConstraint', lambda: S.IndicatorSumConstraint(sp, 1.5), ('indicator',)
    yield 'IndicatorSumConstraint(0)', lambda: S.IndicatorSumConstraint(sp, 0), ('indicator',)
    yield 'IndicatorSumConstraint(negative)', lambda: S.IndicatorSumConstraint(sp, -2.0), ('indicator',)
    yield 'QuadraticForm(vector)', lambda: S.QuadraticForm(vector=g(), constant=0.5), ('smooth',)
    yield 'QuadraticForm(operator)', lambda: S.QuadraticForm(operator=odl.ScalingOperator(sp, 1.5), vector=g(), constant=-1.0), ('smooth',)
    # derived forms
    yield 'translated(L1Norm)', lambda: S.L1Norm(sp).translated(g()), ()
    yield 'translated(L2NormSquared)', lambda: S.L2NormSquared(sp).translated(g()), ('smooth',)
    yield 'translated(IndicatorBox)', lambda: S.IndicatorBox(sp, -0.5, 0.8).translated(g()), ('indicator',)
    yield 'translated(KullbackLeibler)', lambda: S.KullbackLeibler(sp, gp()).translated(-0.3 * sp.one()), ('kl',)
    yield 'left-scaled(L1Norm)', lambda: 2.5 * S.L1Norm(sp), ()
    yield 'left-scaled(L2Norm)', lambda: 0.4 * S.L2Norm(sp), ()
    yield 'left-scaled(L2NormSquared)', lambda: 0.4 * S.L2NormSquared(sp), ('smooth',)
    yield 'left-scaled(Huber)', lambda: 2.5 * S.Huber(sp, 0.3), ('c1',)
    yield 'left-scaled(KullbackLeibler)', lambda: 1.7 * S.KullbackLeibler(sp, gp()), ('kl',)
    yield 'right-scaled(L2Norm)', lambda: S.L2Norm(sp) * 0.5, ()
    yield 'right-scaled(L1Norm)', lambda: S.L1Norm(sp) * (-2.0), ()
    yield 'right-scaled(L2NormSquared)', lambda: S.L2NormSquared(sp) * 3.0, ('smooth',)
    yield 'right-scaled(IndicatorBox)', lambda: S.IndicatorBox(sp, -0.5, 0.8) * 2.0, ('indicator',)
    yield 'scalar-sum(L1Norm)', lambda: S.L1Norm(sp) + 1.25, ()
    yield 'quadratic-perturb(L1Norm)', lambda: S.FunctionalQuadraticPerturb(S.L1Norm(sp), quadratic_coeff=0.7, linear_term=g(), constant=1.0), ()
    yield 'quadratic-perturb(L2Norm,linear-only)', lambda: S.FunctionalQuadraticPerturb(S.L2Norm(sp), quadratic_coeff=0.0, linear_term=g()), ()
    yield 'quadratic-perturb(Huber)', lambda: S.FunctionalQuadraticPerturb(S.Huber(sp, 0.3), quadratic_coeff=0.4), ('c1',)
    yield 'L2NormSquared.convex_conj', lambda: S.L2NormSquared(sp).convex_conj, ('smooth',)
    yield 'L1Norm.convex_conj', lambda: S.L1Norm(sp).convex_conj, ('indicator',)
    yield 'L2Norm.convex_conj', lambda: S.L2Norm(sp).convex_conj, ('indicator',)
    yield 'Huber.convex_conj', lambda: S.Huber(sp, 0.3).convex_conj, ()
    yield 'left-scaled(L1Norm).convex_conj', lambda: (2.5 * S.L1Norm(sp)).convex_conj, ('indicator',)
    yield 'translated(L1Norm).convex_conj', lambda: S.L1Norm(sp).translated(g()).convex_conj, ()
    yield 'default-convex_conj(L2NormSquared+Huber)', lambda: (S.L2NormSquared(sp) + S.Huber(sp, 0.3)).convex_conj, ('novalue',)
    yield 'BregmanDistance(L2NormSquared)', lambda: (lambda p: S.BregmanDistance(S.L2NormSquared(sp), p, S.L2NormSquared(sp).gradient(p)))(g()), ('smooth',)
    yield 'BregmanDistance(L1Norm)', lambda: (lambda p: S.BregmanDistance(S.L1Norm(sp), p, S.L1Norm(sp).gradient(p)))(sp.element(np.where(np.abs(np.asarray(g())) < 0.2, 0.5, np.asarray(g())))), ()
    # user-assembled functionals (all six callables given), their conjugates and biconjugates
    def simple(fn):
        f0 = fn()
        fc = f0.convex_conj
        kw = {}
        try:
            kw = dict(grad=f0.gradient, convex_conj_grad=fc.gradient)
        except Exception:
            kw = {}
        return S.simple_functional(sp, fcall=f0, prox=f0.proximal, convex_conj_fcall=fc, convex_conj_prox=fc.proximal, **kw)
    yield 'simple_functional(L1Norm)', lambda: simple(lambda: S.L1Norm(sp)), ()
    yield 'simple_functional(L1Norm).convex_conj', lambda: simple(lambda: S.L1Norm(sp)).convex_conj, ('indicator',)
    yield 'simple_functional(L1Norm).convex_conj.convex_conj', lambda: simple(lambda: S.L1Norm(sp)).convex_conj.convex_conj, ()
    yield 'simple_functional(L2NormSquared)', lambda: simple(lambda: S.L2NormSquared(sp)), ('smooth',)
    yield 'simple_functional(L2NormSquared).convex_conj', lambda: simple(lambda: S.L2NormSquared(sp)).convex_conj, ('smooth',)
    yield 'simple_functional(L2NormSquared).convex_conj.convex_conj', lambda: simple(lambda: S.L2NormSquared(sp)).convex_conj.convex_conj, ('smooth',)
    yield 'MoreauEnvelope(L1Norm)', lambda: S.MoreauEnvelope(S.L1Norm(sp), 0.7), ('c1', 'noprox')
    yield 'InfimalConvolution(L2NormSquared,L1Norm)', lambda: S.InfimalConvolution(S.L2NormSquared(sp), S.L1Norm(sp)), ('novalue', 'noprox')


# ---- seeded compositions of the derived-functional wrappers ---------------------------------------------------
# Each wrapper maps (functional, reference value function, tags) -> the same triple; the reference is built from the
# mathematical meaning of the wrapper and the *base* functional's value only, so it is independent of how the wrapper
# classes store and flatten their state (scalar folding in Operator{Left,Right}ScalarMult, nested translations, ...).

def _bases(sp, rng):
    yield 'L1', lambda: S.L1Norm(sp), ()
    yield 'L2', lambda: S.L2Norm(sp), ()
    yield 'L2sq', lambda: S.L2NormSquared(sp), ('smooth',)
    yield 'Huber', lambda: S.Huber(sp, 0.3), ('c1',)
    yield 'Box', lambda: S.IndicatorBox(sp, -0.5, 0.8), ('indicator',)
    yield 'QuadV', lambda: S.QuadraticForm(vector=rand_el(sp, rng), constant=0.5), ('smooth',)
    if not util.is_pspace(sp):
        # a linear functional after a non-linear operator (no proximal / conjugate offered: values and gradients only)
        yield 'LinOfP2', lambda: S.QuadraticForm(vector=rand_el(sp, rng)) * odl.PowerOperator(sp, 2), ('smooth', 'nolip')


def _wrappers(sp, rng):
    def left(a):
        return ('%g*' % a, lambda f: a * f, lambda r: (lambda x: a * r(x)), lambda t: t)

    def right(b):
        return ('*%g' % b, lambda f: f * b, lambda r: (lambda x: r(b * x)), lambda t: t)

    def transl():
        g = rand_el(sp, rng)
        return ('T', lambda f: f.translated(g), lambda r: (lambda x: r(x - g)), lambda t: t)

    def plus(c):
        return ('+%g' % c, lambda f: f + c, lambda r: (lambda x: r(x) + c), lambda t: tuple(u for u in t if u != 'indicator'))

    def qp(q, lin):
        ll = rand_el(sp, rng) if lin else None
        return ('Q%g%s' % (q, 'l' if lin else ''), lambda f: S.FunctionalQuadraticPerturb(f, quadratic_coeff=q, linear_term=ll, constant=0.25),
                lambda r: (lambda x: r(x) + q * x.inner(x) + (x.inner(ll) if ll is not None else 0.0) + 0.25),
                lambda t: tuple(u for u in t if u != 'indicator'))

    def minus_scaled(a):
        # f - a*g with g = 0.5 f  ==  (1 - a/2) f, written the way users write differences of scaled functionals
        return ('-(%g*-)' % a, lambda f: f - a * (0.5 * f), lambda r: (lambda x: (1 - 0.5 * a) * r(x)), lambda t: t)
    def rvec():
        # f * v = f(v . x) with a vector without zero entries (mixed signs on real spaces)
        v = pos_el(sp, rng, 0.5, 2.0)
        if not util.is_pspace(sp):
            v = sp.element(np.asarray(v) * rng.choice([-1.0, 1.0], size=sp.shape))
        return ('*v', lambda f: f * v, lambda r: (lambda x: r(v * x)), lambda t: t)
    return [lambda: left(0.25), lambda: left(3.0), lambda: left(1.0), lambda: right(2.0), lambda: right(1.5), lambda: right(-0.5),
            lambda: right(1.0), transl, lambda: plus(1.25), lambda: qp(0.7, True), lambda: qp(0.0, True), lambda: qp(0.4, False),
            lambda: minus_scaled(0.5), rvec]


PAIR_KINDS = (0, 1, 3, 5, 7, 8, 9, 10, 12, 13)   # indices into _wrappers: every wrapper class, both scalings with two factors


def composed(sp, rng, n, depth=(2, 3), pairs=()):
    """``n`` seeded compositions (depth 2..3) of scaling / translation / constant / quadratic-perturbation wrappers
    over base functionals, preceded by the ordered wrapper pairs ``pairs`` (indices into PAIR_KINDS x PAIR_KINDS), which
    are enumerated, not drawn.  Yields (name, thunk, tags, ref) with ``ref(x)`` the independent value model."""
    bases = list(_bases(sp, rng))
    if util.weighting_tag(sp).startswith('array'):
        # Huber on array-weighted spaces fails in its own evaluation (listed finding on the plain recipe)
        bases = [b for b in bases if b[0] != 'Huber']
    plan = [(cls, k) for k in pairs for cls in ('pair-smooth', 'pair-kinked')] + [('random', None)] * n
    for how, k in plan:
        ws = _wrappers(sp, rng)
        if how != 'random':
            # one base with a Lipschitz gradient and one without, per ordered wrapper pair
            pool = [b for b in bases if (b[0] in ('L2sq', 'Huber', 'QuadV', 'LinOfP2')) == (how == 'pair-smooth')]
            bname, bthunk, tags = pool[int(rng.integers(len(pool)))]
            chain = [ws[PAIR_KINDS[k // len(PAIR_KINDS)]](), ws[PAIR_KINDS[k % len(PAIR_KINDS)]]()]
        else:
            bname, bthunk, tags = bases[int(rng.integers(len(bases)))]
            d = int(rng.integers(depth[0], depth[1] + 1))
            chain = [ws[int(rng.integers(len(ws)))]() for _k in range(d)]
        if 'indicator' in tags:
            # inf - inf has no meaning: no differences of extended-valued functionals
            chain = [w if not w[0].startswith('-(') else ws[1]() for w in chain]
        name = bname
        for w in chain:
            name = '(%s)%s' % (name, w[0]) if not w[0].endswith('*') else '%s(%s)' % (w[0], name)
            tags = w[3](tags)

        cache = {}

        def base(bthunk=bthunk, cache=cache):
            if 'f' not in cache:
                cache['f'] = bthunk()
            return cache['f']

        def thunk(base=base, chain=chain):
            f = base()
            for w in chain:
                f = w[1](f)
            return f

        def ref(x, base=base, chain=chain):
            r = base()
            for w in chain:
                r = w[2](r)
            return r(x)
        yield 'composed:' + name, thunk, tuple(tags) + ('composed', 'base:' + bname), ref


def _zero_some(el, rng):
    a = np.asarray(el).copy()
    flat = a.reshape(-1)
    flat[rng.choice(flat.size, size=max(1, flat.size // 3), replace=False)] = 0.0
    return el.space.element(a)


def pfuncs(sp, rng):
    for rec in _pfuncs(sp, rng):
        # SeparableSum builds its own (unweighted) product domain: not a functional on a component-weighted space
        if 'SeparableSum' in rec[0] and 'PNone' not in util.weighting_tag(sp):
            continue
        yield rec


def _pfuncs(sp, rng):
    g = lambda: rand_el(sp, rng)
    yield 'GroupL1Norm', lambda: S.GroupL1Norm(sp), ()
    yield 'GroupL1Norm(1)', lambda: S.GroupL1Norm(sp, 1), ()
    yield 'IndicatorGroupL1UnitBall', lambda: S.IndicatorGroupL1UnitBall(sp), ('indicator',)
    yield 'IndicatorGroupL1UnitBall(inf)', lambda: S.IndicatorGroupL1UnitBall(sp, np.inf), ('indicator',)
    # exponents for which no proximal is implemented today: if one is offered it has to be the proximal
    yield 'IndicatorGroupL1UnitBall(1)', lambda: S.IndicatorGroupL1UnitBall(sp, 1), ('indicator',)
    yield 'GroupL1Norm(inf)', lambda: S.GroupL1Norm(sp, np.inf), ()
    yield 'GroupL1Norm(inf).convex_conj', lambda: S.GroupL1Norm(sp, np.inf).convex_conj, ('indicator',)
    yield 'Huber(pspace)', lambda: S.Huber(sp, 0.3), ('c1',)
    yield 'Huber(pspace,gamma=0)', lambda: S.Huber(sp, 0), ('nograd',)
    yield 'SeparableSum(L1Norm,L2NormSquared)', lambda: S.SeparableSum(S.L1Norm(sp[0]), S.L2NormSquared(sp[1])), ()
    yield 'SeparableSum(Huber,3.0*L1Norm)', lambda: S.SeparableSum(S.Huber(sp[0], 0.3), 3.0 * S.L1Norm(sp[1])), ()
    yield 'SeparableSum(L1Norm,2)', lambda: S.SeparableSum(S.L1Norm(sp[0]), 2), ()
    # wrappers of a separable sum keep its per-component steps (the sigma classes of C07 include one step per component for them)
    yield 'left-scaled(SeparableSum(L1Norm,L2NormSquared))', lambda: 2 * S.SeparableSum(S.L1Norm(sp[0]), S.L2NormSquared(sp[1])), ()
    yield 'left-scaled-float(SeparableSum(Huber,L1Norm))', lambda: 0.5 * S.SeparableSum(S.Huber(sp[0], 0.3), S.L1Norm(sp[1])), ()
    yield 'translated(SeparableSum(L1Norm,L2NormSquared))', lambda: S.SeparableSum(S.L1Norm(sp[0]), S.L2NormSquared(sp[1])).translated(g()), ()
    yield 'L1Norm(pspace)', lambda: S.L1Norm(sp), ()
    yield 'L2Norm(pspace)', lambda: S.L2Norm(sp), ()
    yield 'L2NormSquared(pspace)', lambda: S.L2NormSquared(sp), ('smooth',)
    yield 'IndicatorBox(pspace)', lambda: S.IndicatorBox(sp, -0.5, 0.8), ('indicator',)
    yield 'translated(GroupL1Norm)', lambda: S.GroupL1Norm(sp).translated(g()), ()
    yield 'left-scaled(GroupL1Norm)', lambda: 2.5 * S.GroupL1Norm(sp), ()
    yield 'GroupL1Norm.convex_conj', lambda: S.GroupL1Norm(sp).convex_conj, ('indicator',)
    yield 'SeparableSum.convex_conj', lambda: S.SeparableSum(S.L1Norm(sp[0]), S.L2NormSquared(sp[1])).convex_conj, ()


def nuclear(rng):
    # matrix-valued fields over an image grid (>= 2 axes, square and non-square)
    for bname, base in (('rn(3,3)', odl.rn((3, 3))), ('discr(2,3)', odl.uniform_discr([0, 0], [1, 1], (2, 3)))):
        N2 = odl.ProductSpace(odl.ProductSpace(base, 2), 2)
        yield 'NuclearNorm(1,2)/' + bname, N2, lambda N2=N2: S.NuclearNorm(N2, outer_exp=1, singular_vector_exp=2), ()
        yield 'NuclearNorm(2,2)/' + bname, N2, lambda N2=N2: S.NuclearNorm(N2, outer_exp=2, singular_vector_exp=2), ()
        yield 'NuclearNorm(1,1)/' + bname, N2, lambda N2=N2: S.NuclearNorm(N2, outer_exp=1, singular_vector_exp=1), ()
    NN = odl.ProductSpace(odl.ProductSpace(odl.rn(3), 2), 2)
    yield 'NuclearNorm(1,2)', NN, lambda: S.NuclearNorm(NN, outer_exp=1, singular_vector_exp=2), ()
    yield 'NuclearNorm(1,1)', NN, lambda: S.NuclearNorm(NN, outer_exp=1, singular_vector_exp=1), ()
    yield 'NuclearNorm(2,2)', NN, lambda: S.NuclearNorm(NN, outer_exp=2, singular_vector_exp=2), ()
    yield 'NuclearNorm(inf,inf)', NN, lambda: S.NuclearNorm(NN, outer_exp=np.inf, singular_vector_exp=np.inf), ()
    yield 'NuclearNorm(1,inf)', NN, lambda: S.NuclearNorm(NN, outer_exp=1, singular_vector_exp=np.inf), ()
    yield 'NuclearNorm(1,2).convex_conj', NN, lambda: S.NuclearNorm(NN, outer_exp=1, singular_vector_exp=2).convex_conj, ('indicator',)
    yield 'left-scaled(NuclearNorm)', NN, lambda: 2.5 * S.NuclearNorm(NN), ()


def composed_component(fname, tags):
    """Seed-independent component name for a composed recipe: the base functional only."""
    for t in tags:
        if t.startswith('base:'):
            return 'composed(%s)' % t[5:]
    return fname


def all_composed(rng, thorough=False):
    """Yield (fname, sname, space, thunk, tags, ref) for seeded wrapper compositions on every non-product space."""
    sps = list(spaces())
    npairs = len(PAIR_KINDS) ** 2
    for j, (sname, sp) in enumerate(sps):
        for fname, thunk, tags, ref in composed(sp, rng, 14 if thorough else 5, pairs=[k for k in range(npairs) if k % len(sps) == j]):
            yield fname, sname, sp, thunk, tags, ref


def cspaces():
    yield 'cn4', odl.cn(4)
    yield 'cn4w', odl.cn(4, weighting=2.5)
    yield 'cdiscr5', odl.uniform_discr(0, 2, 5, dtype=complex)


def cfuncs(sp, rng):
    """Real-valued functionals on complex spaces (norms, their balls, and derived forms).  Inner products enter the oracles
    through their real part: a complex Hilbert space is a real one with <x, y>_R = Re <x, y>."""
    g = lambda: rand_el(sp, rng)
    yield 'L1Norm', lambda: S.L1Norm(sp), ('complex',)
    yield 'L2Norm', lambda: S.L2Norm(sp), ('complex',)
    yield 'L2NormSquared', lambda: S.L2NormSquared(sp), ('complex', 'smooth')
    yield 'IndicatorLpUnitBall(2)', lambda: S.IndicatorLpUnitBall(sp, 2), ('complex', 'indicator')
    yield 'IndicatorLpUnitBall(inf)', lambda: S.IndicatorLpUnitBall(sp, np.inf), ('complex', 'indicator')
    yield 'ZeroFunctional', lambda: S.ZeroFunctional(sp), ('complex', 'smooth')
    yield 'IndicatorZero', lambda: S.IndicatorZero(sp), ('complex', 'indicator')
    yield 'translated(L1Norm)', lambda: S.L1Norm(sp).translated(g()), ('complex',)
    yield 'translated(L2NormSquared)', lambda: S.L2NormSquared(sp).translated(g()), ('complex', 'smooth')
    yield 'left-scaled(L1Norm)', lambda: 2.5 * S.L1Norm(sp), ('complex',)
    yield 'right-scaled(L2Norm)', lambda: S.L2Norm(sp) * 0.5, ('complex',)
    yield 'L1Norm.convex_conj', lambda: S.L1Norm(sp).convex_conj, ('complex', 'indicator')
    yield 'L2NormSquared.convex_conj', lambda: S.L2NormSquared(sp).convex_conj, ('complex', 'smooth')
    yield 'L2Norm.convex_conj', lambda: S.L2Norm(sp).convex_conj, ('complex', 'indicator')


def all_functionals(rng, thorough=False, with_complex=False):
    """Yield (fname, sname, space, thunk, tags)."""
    if with_complex:
        for sname, sp in cspaces():
            for fname, thunk, tags in cfuncs(sp, rng):
                yield fname, sname, sp, thunk, tags
    for sname, sp in spaces():
        for fname, thunk, tags in funcs(sp, rng):
            yield fname, sname, sp, thunk, tags
    for sname, sp in pspaces():
        for fname, thunk, tags in pfuncs(sp, rng):
            yield fname, sname, sp, thunk, tags
    for fname, sp, thunk, tags in nuclear(rng):
        yield fname, 'rn3^(2x2)', sp, thunk, tags


def x_classes(sp, rng, tags=()):
    """Deterministic input value classes (seed only varies values inside a class).

    'huge' is 1e3 except for the exponential-type (KL) functionals, where inputs beyond the float64 range of
    exp() are not generated (30): overflow of the documented closed forms is a floating-point range limit, not
    the property."""
    yield 'generic', rand_el(sp, rng, 1.5)
    yield 'zero', sp.zero()
    yield 'tiny', rand_el(sp, rng, 1e-3)
    yield 'huge', rand_el(sp, rng, 30.0 if any(t in tags for t in ('kl', 'klcc', 'exp')) else 1e3)
    yield 'positive', pos_el(sp, rng)
    yield 'with-exact-zeros', _with_zeros(sp, rng)
    yield 'at-threshold', _at_threshold(sp, rng)


def _with_zeros(sp, rng):
    if util.is_pspace(sp):
        return sp.element([_with_zeros(s, rng) for s in sp])
    a = rng.normal(size=sp.shape)
    a[rng.random(sp.shape) < 0.4] = 0.0
    return sp.element(a)


def _at_threshold(sp, rng):
    """Entries exactly at typical kinks / thresholds (0, +-0.3 (Huber gamma), box bounds, sigma)."""
    if util.is_pspace(sp):
        return sp.element([_at_threshold(s, rng) for s in sp])
    vals = np.array([0.0, 0.3, -0.3, -0.5, 0.8, 1.7, -1.7, 1.0])
    return sp.element(rng.choice(vals, size=sp.shape))
