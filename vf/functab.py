"""Functional recipes shared by C07 (proximal), C08 (conjugates), C09 (gradients), C10 (aliasing).

Every recipe is instantiated in the variants the automated campaign showed to matter:
plain, translated / with data term, scaled by lambda not in {0, 1}, (element-valued sigma is chosen by the
workloads for the factories that document it).
"""

import numpy as np
import odl

from . import util

S = odl.solvers


def spaces():
    yield 'rn5', odl.rn(5)
    yield 'rn5w', odl.rn(5, weighting=2.5)
    yield 'rn5aw', odl.rn(5, weighting=np.array([1., 2, .5, 3, 1.5]))
    yield 'discr6', odl.uniform_discr(0, 3, 6)            # cell 0.5
    yield 'discr2d', odl.uniform_discr([0, 0], [1, 2], (3, 4))
    yield 'rn150', odl.rn(150)                            # beyond the 100-entry lincomb switch


def pspaces():
    yield 'rn4^2', odl.rn(4) ** 2
    yield 'discr^2', odl.uniform_discr(0, 2, 5) ** 2
    yield 'discr2d^2', odl.uniform_discr([0, 0], [1, 2], (3, 2)) ** 2


def rand_el(sp, rng, scale=1.0):
    return util.rand_element(sp, rng, scale=scale)


def pos_el(sp, rng, lo=0.3, hi=2.0):
    if util.is_pspace(sp):
        return sp.element([pos_el(s, rng, lo, hi) for s in sp])
    return sp.element(rng.uniform(lo, hi, size=sp.shape))


def funcs(sp, rng):
    """(name, thunk, tags) on a non-product space.  tags: 'kl' (needs positive points for values),
    'smooth' (has gradient everywhere on the probe region), 'indicator'."""
    g = lambda: rand_el(sp, rng)
    gp = lambda: pos_el(sp, rng)
    yield 'L1Norm', lambda: S.L1Norm(sp), ()
    yield 'L2Norm', lambda: S.L2Norm(sp), ()
    yield 'L2NormSquared', lambda: S.L2NormSquared(sp), ('smooth',)
    yield 'LpNorm(inf)', lambda: S.LpNorm(sp, np.inf), ()
    yield 'LpNorm(1)', lambda: S.LpNorm(sp, 1), ()
    yield 'LpNorm(2)', lambda: S.LpNorm(sp, 2), ()
    yield 'IndicatorLpUnitBall(1)', lambda: S.IndicatorLpUnitBall(sp, 1), ('indicator',)
    yield 'IndicatorLpUnitBall(2)', lambda: S.IndicatorLpUnitBall(sp, 2), ('indicator',)
    yield 'IndicatorLpUnitBall(inf)', lambda: S.IndicatorLpUnitBall(sp, np.inf), ('indicator',)
    yield 'IndicatorBox', lambda: S.IndicatorBox(sp, -0.5, 0.8), ('indicator',)
    yield 'IndicatorBox(lower-only)', lambda: S.IndicatorBox(sp, lower=0.1), ('indicator',)
    yield 'IndicatorNonnegativity', lambda: S.IndicatorNonnegativity(sp), ('indicator',)
    yield 'ZeroFunctional', lambda: S.ZeroFunctional(sp), ('smooth',)
    yield 'ConstantFunctional', lambda: S.ConstantFunctional(sp, 2.0), ('smooth',)
    yield 'IndicatorZero', lambda: S.IndicatorZero(sp), ('indicator',)
    yield 'KullbackLeibler(prior)', lambda: S.KullbackLeibler(sp, gp()), ('kl',)
    yield 'KullbackLeibler', lambda: S.KullbackLeibler(sp), ('kl',)
    yield 'KullbackLeibler(prior).convex_conj', lambda: S.KullbackLeibler(sp, gp()).convex_conj, ('klcc',)
    yield 'KullbackLeiblerCrossEntropy(prior)', lambda: S.KullbackLeiblerCrossEntropy(sp, gp()), ('kl',)
    yield 'KullbackLeiblerCrossEntropy', lambda: S.KullbackLeiblerCrossEntropy(sp), ('kl',)
    yield 'KullbackLeiblerCrossEntropy(prior).convex_conj', lambda: S.KullbackLeiblerCrossEntropy(sp, gp()).convex_conj, ('smooth', 'exp')
    yield 'Huber', lambda: S.Huber(sp, 0.3), ('c1',)
    yield 'IndicatorSimplex', lambda: S.IndicatorSimplex(sp, 1.5), ('indicator',)
    yield 'IndicatorSumConstraint', lambda: S.IndicatorSumConstraint(sp, 1.5), ('indicator',)
    yield 'QuadraticForm(vector)', lambda: S.QuadraticForm(vector=g(), constant=0.5), ('smooth',)
    yield 'QuadraticForm(operator)', lambda: S.QuadraticForm(operator=odl.ScalingOperator(sp, 1.5), vector=g(), constant=-1.0), ('smooth',)
    # derived forms
    yield 'translated(L1Norm)', lambda: S.L1Norm(sp).translated(g()), ()
    yield 'translated(L2NormSquared)', lambda: S.L2NormSquared(sp).translated(g()), ('smooth',)
    yield 'translated(IndicatorBox)', lambda: S.IndicatorBox(sp, -0.5, 0.8).translated(g()), ('indicator',)
    yield 'translated(KullbackLeibler)', lambda: S.KullbackLeibler(sp, gp()).translated(-0.3 * sp.one()), ('kl',)
    yield 'left-scaled(L1Norm)', lambda: 2.5 * S.L1Norm(sp), ()
    yield 'left-scaled(L2Norm)', lambda: 0.4 * S.L2Norm(sp), ()
    yield 'left-scaled(L2NormSquared)', lambda: 0.4 * S.L2NormSquared(sp), ('smooth',)
    yield 'left-scaled(Huber)', lambda: 2.5 * S.Huber(sp, 0.3), ('c1',)
    yield 'left-scaled(KullbackLeibler)', lambda: 1.7 * S.KullbackLeibler(sp, gp()), ('kl',)
    yield 'right-scaled(L2Norm)', lambda: S.L2Norm(sp) * 0.5, ()
    yield 'right-scaled(L1Norm)', lambda: S.L1Norm(sp) * (-2.0), ()
    yield 'right-scaled(L2NormSquared)', lambda: S.L2NormSquared(sp) * 3.0, ('smooth',)
    yield 'right-scaled(IndicatorBox)', lambda: S.IndicatorBox(sp, -0.5, 0.8) * 2.0, ('indicator',)
    yield 'scalar-sum(L1Norm)', lambda: S.L1Norm(sp) + 1.25, ()
    yield 'quadratic-perturb(L1Norm)', lambda: S.FunctionalQuadraticPerturb(S.L1Norm(sp), quadratic_coeff=0.7, linear_term=g(), constant=1.0), ()
    yield 'quadratic-perturb(L2Norm,linear-only)', lambda: S.FunctionalQuadraticPerturb(S.L2Norm(sp), quadratic_coeff=0.0, linear_term=g()), ()
    yield 'quadratic-perturb(Huber)', lambda: S.FunctionalQuadraticPerturb(S.Huber(sp, 0.3), quadratic_coeff=0.4), ('c1',)
    yield 'L2NormSquared.convex_conj', lambda: S.L2NormSquared(sp).convex_conj, ('smooth',)
    yield 'L1Norm.convex_conj', lambda: S.L1Norm(sp).convex_conj, ('indicator',)
    yield 'L2Norm.convex_conj', lambda: S.L2Norm(sp).convex_conj, ('indicator',)
    yield 'Huber.convex_conj', lambda: S.Huber(sp, 0.3).convex_conj, ()
    yield 'left-scaled(L1Norm).convex_conj', lambda: (2.5 * S.L1Norm(sp)).convex_conj, ('indicator',)
    yield 'translated(L1Norm).convex_conj', lambda: S.L1Norm(sp).translated(g()).convex_conj, ()
    yield 'default-convex_conj(L2NormSquared+Huber)', lambda: (S.L2NormSquared(sp) + S.Huber(sp, 0.3)).convex_conj, ('novalue',)
    yield 'BregmanDistance(L2NormSquared)', lambda: (lambda p: S.BregmanDistance(S.L2NormSquared(sp), p, S.L2NormSquared(sp).gradient(p)))(g()), ('smooth',)
    yield 'BregmanDistance(L1Norm)', lambda: (lambda p: S.BregmanDistance(S.L1Norm(sp), p, S.L1Norm(sp).gradient(p)))(sp.element(np.where(np.abs(np.asarray(g())) < 0.2, 0.5, np.asarray(g())))), ()
    yield 'MoreauEnvelope(L1Norm)', lambda: S.MoreauEnvelope(S.L1Norm(sp), 0.7), ('c1', 'noprox')
    yield 'InfimalConvolution(L2NormSquared,L1Norm)', lambda: S.InfimalConvolution(S.L2NormSquared(sp), S.L1Norm(sp)), ('novalue', 'noprox')


def pfuncs(sp, rng):
    g = lambda: rand_el(sp, rng)
    yield 'GroupL1Norm', lambda: S.GroupL1Norm(sp), ()
    yield 'GroupL1Norm(1)', lambda: S.GroupL1Norm(sp, 1), ()
    yield 'IndicatorGroupL1UnitBall', lambda: S.IndicatorGroupL1UnitBall(sp), ('indicator',)
    yield 'IndicatorGroupL1UnitBall(inf)', lambda: S.IndicatorGroupL1UnitBall(sp, np.inf), ('indicator',)
    yield 'Huber(pspace)', lambda: S.Huber(sp, 0.3), ('c1',)
    yield 'SeparableSum(L1Norm,L2NormSquared)', lambda: S.SeparableSum(S.L1Norm(sp[0]), S.L2NormSquared(sp[1])), ()
    yield 'SeparableSum(Huber,3.0*L1Norm)', lambda: S.SeparableSum(S.Huber(sp[0], 0.3), 3.0 * S.L1Norm(sp[1])), ()
    yield 'SeparableSum(L1Norm,2)', lambda: S.SeparableSum(S.L1Norm(sp[0]), 2), ()
    yield 'L1Norm(pspace)', lambda: S.L1Norm(sp), ()
    yield 'L2Norm(pspace)', lambda: S.L2Norm(sp), ()
    yield 'L2NormSquared(pspace)', lambda: S.L2NormSquared(sp), ('smooth',)
    yield 'IndicatorBox(pspace)', lambda: S.IndicatorBox(sp, -0.5, 0.8), ('indicator',)
    yield 'translated(GroupL1Norm)', lambda: S.GroupL1Norm(sp).translated(g()), ()
    yield 'left-scaled(GroupL1Norm)', lambda: 2.5 * S.GroupL1Norm(sp), ()
    yield 'GroupL1Norm.convex_conj', lambda: S.GroupL1Norm(sp).convex_conj, ('indicator',)
    yield 'SeparableSum.convex_conj', lambda: S.SeparableSum(S.L1Norm(sp[0]), S.L2NormSquared(sp[1])).convex_conj, ()


def nuclear(rng):
    NN = odl.ProductSpace(odl.ProductSpace(odl.rn(3), 2), 2)
    yield 'NuclearNorm(1,2)', NN, lambda: S.NuclearNorm(NN, outer_exp=1, singular_vector_exp=2), ()
    yield 'NuclearNorm(1,1)', NN, lambda: S.NuclearNorm(NN, outer_exp=1, singular_vector_exp=1), ()
    yield 'NuclearNorm(2,2)', NN, lambda: S.NuclearNorm(NN, outer_exp=2, singular_vector_exp=2), ()
    yield 'NuclearNorm(inf,inf)', NN, lambda: S.NuclearNorm(NN, outer_exp=np.inf, singular_vector_exp=np.inf), ()
    yield 'NuclearNorm(1,inf)', NN, lambda: S.NuclearNorm(NN, outer_exp=1, singular_vector_exp=np.inf), ()
    yield 'NuclearNorm(1,2).convex_conj', NN, lambda: S.NuclearNorm(NN, outer_exp=1, singular_vector_exp=2).convex_conj, ('indicator',)
    yield 'left-scaled(NuclearNorm)', NN, lambda: 2.5 * S.NuclearNorm(NN), ()


def all_functionals(rng, thorough=False):
    """Yield (fname, sname, space, thunk, tags)."""
    for sname, sp in spaces():
        for fname, thunk, tags in funcs(sp, rng):
            yield fname, sname, sp, thunk, tags
    for sname, sp in pspaces():
        for fname, thunk, tags in pfuncs(sp, rng):
            yield fname, sname, sp, thunk, tags
    for fname, sp, thunk, tags in nuclear(rng):
        yield fname, 'rn3^(2x2)', sp, thunk, tags


def x_classes(sp, rng, tags=()):
    """Deterministic input value classes (seed only varies values inside a class).

    'huge' is 1e3 except for the exponential-type (KL) functionals, where inputs beyond the float64 range of
    exp() are not generated (30): overflow of the documented closed forms is a floating-point range limit, not
    the property."""
    yield 'generic', rand_el(sp, rng, 1.5)
    yield 'zero', sp.zero()
    yield 'tiny', rand_el(sp, rng, 1e-3)
    yield 'huge', rand_el(sp, rng, 30.0 if any(t in tags for t in ('kl', 'klcc', 'exp')) else 1e3)
    yield 'positive', pos_el(sp, rng)
    yield 'with-exact-zeros', _with_zeros(sp, rng)
    yield 'at-threshold', _at_threshold(sp, rng)


def _with_zeros(sp, rng):
    if util.is_pspace(sp):
        return sp.element([_with_zeros(s, rng) for s in sp])
    a = rng.normal(size=sp.shape)
    a[rng.random(sp.shape) < 0.4] = 0.0
    return sp.element(a)


def _at_threshold(sp, rng):
    """Entries exactly at typical kinks / thresholds (0, +-0.3 (Huber gamma), box bounds, sigma)."""
    if util.is_pspace(sp):
        return sp.element([_at_threshold(s, rng) for s in sp])
    vals = np.array([0.0, 0.3, -0.3, -0.5, 0.8, 1.7, -1.7, 1.0])
    return sp.element(rng.choice(vals, size=sp.shape))
