"""Core of the harness: context, seeding, sharding, verdicts, evidence, known findings, replay.

Everything a property module needs is on the `Ctx` object handed to its ``run(ctx)``:

    ctx.rng('name', i)           seeded numpy Generator (seed, property, shard and names mixed in)
    ctx.ev('monitor')            count one evaluation of a deciding monitor
    ctx.case(cls, key)           count one explored case; (cls, key) feeds distinct_nontrivial
    ctx.sample(obj)              keep a few actual cases for the evidence file
    ctx.violation(comp, cfg, kind, **detail)
    ctx.require(cls) / ctx.seen(cls)   required classes of the lattice (unseen => inconclusive)
    ctx.mine(i)                  shard filter for deterministic enumerations
    ctx.thorough / ctx.reps(q, t)

Verdicts are three-valued: exit 0 held, exit 1 violated (a line ``VIOLATION property=<id>
replay=<path>`` per unlisted signature), exit 2 inconclusive (monitor never evaluated, required
class not reached, worker died or timed out).  Signatures listed in known_findings.json print
``KNOWN-FINDING: property=<id> <signature>`` and do not change the exit code.
"""

from __future__ import annotations

import argparse
import hashlib
import importlib
import json
import os
import subprocess
import sys
import time
import traceback
import zlib

ROOT = os.path.dirname(os.path.dirname(os.path.abspath(__file__)))
REPO = os.environ.get('VF_REPO', '/repo')
PYTHON = '/venv/bin/python'
LEVEL = 'exploration'

PROPS = ['C%02d' % i for i in range(1, 21)]


def _crc(s):
    return zlib.crc32(str(s).encode()) & 0xffffffff


def jsonable(o, depth=0):
    """Best-effort conversion of arbitrary objects to JSON-compatible data (for replays/samples)."""
    import numpy as np
    if depth > 6:
        return repr(o)[:200]
    if o is None or isinstance(o, (bool, int, str)):
        return o
    if isinstance(o, float):
        return o if o == o and abs(o) != float('inf') else repr(o)
    if isinstance(o, complex):
        return {'re': jsonable(o.real), 'im': jsonable(o.imag)}
    if isinstance(o, (np.bool_,)):
        return bool(o)
    if isinstance(o, np.integer):
        return int(o)
    if isinstance(o, np.floating):
        return jsonable(float(o))
    if isinstance(o, np.complexfloating):
        return jsonable(complex(o))
    if isinstance(o, np.ndarray):
        if o.size > 64:
            return {'ndarray': True, 'shape': list(o.shape), 'dtype': str(o.dtype),
                    'head': jsonable(o.ravel()[:16].tolist(), depth + 1)}
        return {'ndarray': True, 'shape': list(o.shape), 'dtype': str(o.dtype),
                'data': jsonable(o.tolist(), depth + 1)}
    if isinstance(o, dict):
        return {str(k): jsonable(v, depth + 1) for k, v in o.items()}
    if isinstance(o, (list, tuple, set, frozenset)):
        return [jsonable(v, depth + 1) for v in o]
    return repr(o)[:300]


class Budget(Exception):
    pass


class Ctx(object):
    def __init__(self, prop, tier, seed, shard=0, nshards=1, only=None, round=0):
        self.prop = prop
        self.round = int(round)     # thorough tier: independent value draws over the same class lattice
        self.tier = tier
        self.thorough = (tier == 'thorough')
        self.seed = int(seed)
        self.shard = int(shard)
        self.nshards = int(nshards)
        self.only = only            # replay: restrict reporting to this signature
        self.t0 = time.time()
        self.monitors = {}          # monitor name -> evaluations
        self.evaluations = 0
        self.distinct = set()       # hashes of (class, key) for non-trivial cases
        self.classes = {}           # class descriptor -> count
        self.required = set()
        self.samples = []
        self.viol = {}              # signature -> {'count', 'detail'}
        self.notes = {}
        self.inconclusive = []
        self.skipped = {}           # reason -> count (inadmissible / reference overflow ...)

    # ---- randomness -------------------------------------------------------------------------
    def rng(self, *names):
        import numpy as np
        key = [self.seed, _crc(self.prop), self.shard, self.round] + [_crc(n) for n in names]
        return np.random.default_rng(np.random.PCG64(key))

    def crng(self, *names):
        """Generator independent of the shard (for things that must agree between shards)."""
        import numpy as np
        key = [self.seed, _crc(self.prop), 0, self.round] + [_crc(n) for n in names]
        return np.random.default_rng(np.random.PCG64(key))

    # ---- sharding / tier --------------------------------------------------------------------
    def mine(self, i):
        return (int(i) % self.nshards) == self.shard

    def reps(self, quick, thorough):
        return thorough if self.thorough else quick

    def elapsed(self):
        return time.time() - self.t0

    # ---- counting ---------------------------------------------------------------------------
    def ev(self, monitor, n=1):
        self.monitors[monitor] = self.monitors.get(monitor, 0) + n

    def case(self, cls, key=None, nontrivial=True):
        self.evaluations += 1
        cls = str(cls)
        self.classes[cls] = self.classes.get(cls, 0) + 1
        if nontrivial:
            h = hashlib.blake2b(repr((cls, key, self.round)).encode(), digest_size=8).hexdigest()
            self.distinct.add(h)

    def seen(self, cls):
        cls = str(cls)
        self.classes[cls] = self.classes.get(cls, 0) + 1

    def require(self, *classes):
        for c in classes:
            self.required.add(str(c))

    def sample(self, obj, cap=8):
        if len(self.samples) < cap:
            self.samples.append(jsonable(obj))

    def skip(self, reason):
        self.skipped[reason] = self.skipped.get(reason, 0) + 1

    def note(self, key, value):
        self.notes[key] = jsonable(value)

    def note_add(self, key, n=1):
        self.notes[key] = self.notes.get(key, 0) + n

    def note_set(self, key, item, cap=400):
        lst = self.notes.setdefault(key, [])
        item = jsonable(item)
        if item not in lst and len(lst) < cap:
            lst.append(item)

    def inconclusive_because(self, reason):
        if reason not in self.inconclusive:
            self.inconclusive.append(reason)

    # ---- violations -------------------------------------------------------------------------
    def signature(self, component, config, kind):
        return '%s|%s|%s|%s' % (self.prop, component, config, kind)

    def violation(self, component, config, kind, **detail):
        sig = self.signature(component, config, kind)
        if self.only is not None and sig != self.only:
            return sig
        rec = self.viol.get(sig)
        if rec is None:
            stack = ''.join(traceback.format_stack(limit=8)[:-1])
            self.viol[sig] = {'count': 1, 'detail': jsonable(detail), 'stack': stack}
        else:
            rec['count'] += 1
        return sig

    def guarded(self, component, config, fn, *a, **kw):
        """Run fn; an unexpected exception becomes a 'raises:<Exc>' violation. Returns (ok, value)."""
        try:
            return True, fn(*a, **kw)
        except Budget:
            raise
        except Exception as e:  # noqa
            self.violation(component, config, 'raises:' + type(e).__name__,
                           message=str(e)[:300], tb=traceback.format_exc(limit=6)[-1500:])
            return False, None

    # ---- serialisation ----------------------------------------------------------------------
    def dump(self):
        return {
            'prop': self.prop, 'tier': self.tier, 'seed': self.seed, 'shard': self.shard,
            'nshards': self.nshards, 'round': self.round, 'monitors': self.monitors, 'evaluations': self.evaluations,
            'distinct': sorted(self.distinct), 'classes': self.classes,
            'required': sorted(self.required), 'samples': self.samples, 'viol': self.viol,
            'notes': self.notes, 'inconclusive': self.inconclusive, 'skipped': self.skipped,
            'wall_s': self.elapsed(),
        }


# --------------------------------------------------------------------------------------------
# loading the code under test


def import_odl():
    """Import odl from REPO's working tree and nothing else."""
    import warnings
    warnings.filterwarnings('ignore')
    if REPO not in sys.path[:1]:
        sys.path.insert(0, REPO)
    import odl  # noqa
    f = os.path.realpath(odl.__file__)
    if not f.startswith(os.path.realpath(REPO) + os.sep):
        raise RuntimeError('odl imported from %s, not from %s' % (f, REPO))
    return odl


def load_known():
    path = os.path.join(ROOT, 'known_findings.json')
    if not os.path.exists(path):
        return {}, []
    with open(path) as f:
        data = json.load(f)
    known = {}
    for ent in data.get('findings', []):
        known[ent['signature']] = ent.get('what', '')
    return known, data.get('fixed', [])


# --------------------------------------------------------------------------------------------
# worker (one shard, in a fresh process)


def run_worker(prop, tier, seed, shard, nshards, only=None, round=0):
    os.environ['ODL_VERIF'] = '1'
    import_odl()
    mod = importlib.import_module('vf.props.' + prop.lower())
    ctx = Ctx(prop, tier, seed, shard, nshards, only=only, round=round)
    try:
        mod.run(ctx)
    except Budget as e:
        ctx.inconclusive_because('budget: %s' % e)
    except Exception as e:  # harness failure is never a verdict on the code
        ctx.inconclusive_because('harness-exception: %s: %s' % (type(e).__name__, str(e)[:200]))
        ctx.note('harness_traceback', traceback.format_exc()[-3000:])
    return ctx.dump()


# --------------------------------------------------------------------------------------------
# main (spawns workers, merges, writes evidence, prints verdict)

DEFAULT_SHARDS = {'quick': 4, 'thorough': 16}
WORKER_TIMEOUT = {'quick': 900, 'thorough': 5400}


def shards_for(prop, tier):
    try:
        mod = importlib.import_module('vf.props.' + prop.lower())
        return int(getattr(mod, 'SHARDS', DEFAULT_SHARDS)[tier])
    except Exception:
        return DEFAULT_SHARDS[tier]


DEFAULT_ROUNDS = 6


def rounds_for(prop):
    """Thorough tier: number of independent value-draw rounds over the (complete) class lattice."""
    try:
        mod = importlib.import_module('vf.props.' + prop.lower())
        return int(getattr(mod, 'THOROUGH_ROUNDS', DEFAULT_ROUNDS))
    except Exception:
        return DEFAULT_ROUNDS


def merge(dumps):
    out = {'monitors': {}, 'evaluations': 0, 'distinct': set(), 'classes': {}, 'required': set(),
           'samples': [], 'viol': {}, 'notes': {}, 'inconclusive': [], 'skipped': {}}
    for d in dumps:
        for k, v in d['monitors'].items():
            out['monitors'][k] = out['monitors'].get(k, 0) + v
        out['evaluations'] += d['evaluations']
        out['distinct'].update(d['distinct'])
        for k, v in d['classes'].items():
            out['classes'][k] = out['classes'].get(k, 0) + v
        out['required'].update(d['required'])
        for s in d['samples']:
            if len(out['samples']) < 12:
                out['samples'].append(s)
        for sig, rec in d['viol'].items():
            rec = dict(rec)
            rec['shard'] = d['shard']
            rec['nshards'] = d['nshards']
            rec['round'] = d.get('round', 0)
            if sig in out['viol']:
                out['viol'][sig]['count'] += rec['count']
            else:
                out['viol'][sig] = rec
        for k, v in d['notes'].items():
            if isinstance(v, (int, float)) and not isinstance(v, bool) and isinstance(out['notes'].get(k, 0), (int, float)):
                out['notes'][k] = out['notes'].get(k, 0) + v
            elif k == 'unreached_lines' and isinstance(v, list):
                # a line is unreached only if no shard reached it
                if k in out['notes']:
                    out['notes'][k] = [it for it in out['notes'][k] if it in v]
                else:
                    out['notes'][k] = list(v)
            elif isinstance(v, list) and isinstance(out['notes'].get(k, []), list):
                lst = out['notes'].setdefault(k, [])
                for it in v:
                    if it not in lst and len(lst) < 400:
                        lst.append(it)
            elif isinstance(v, dict) and isinstance(out['notes'].get(k, {}), dict):
                dd = out['notes'].setdefault(k, {})
                for kk, vv in v.items():
                    if isinstance(vv, (int, float)) and not isinstance(vv, bool):
                        dd[kk] = dd.get(kk, 0) + vv
                    else:
                        dd.setdefault(kk, vv)
            else:
                out['notes'].setdefault(k, v)
        for r in d['inconclusive']:
            r = 'shard %d/round %d: %s' % (d['shard'], d.get('round', 0), r)
            out['inconclusive'].append(r)
        for k, v in d['skipped'].items():
            out['skipped'][k] = out['skipped'].get(k, 0) + v
    return out


def main(argv=None):
    ap = argparse.ArgumentParser(prog='check')
    ap.add_argument('prop')
    ap.add_argument('--tier', default=os.environ.get('VERIF_TIER', 'quick'), choices=['quick', 'thorough'])
    ap.add_argument('--replay', default=None)
    ap.add_argument('--worker', default=None, help='internal: i/n')
    ap.add_argument('--out', default=None, help='internal: worker result file')
    ap.add_argument('--only', default=None, help='internal: signature filter')
    ap.add_argument('--shards', type=int, default=None)
    ap.add_argument('--round', type=int, default=0, help='internal: value-draw round')
    ap.add_argument('--rounds', type=int, default=None, help='override the number of thorough rounds')
    ap.add_argument('--no-evidence', action='store_true')
    args = ap.parse_args(argv)
    prop = args.prop.upper()
    if prop not in PROPS:
        print('unknown property', prop)
        return 2
    try:
        seed = int(os.environ.get('VERIF_SEED', '0') or 0)
    except ValueError:
        seed = _crc(os.environ['VERIF_SEED'])

    if args.worker:
        i, n = map(int, args.worker.split('/'))
        d = run_worker(prop, args.tier, seed, i, n, only=args.only, round=args.round)
        with open(args.out, 'w') as f:
            json.dump(d, f)
        return 0

    if args.replay:
        with open(args.replay) as f:
            rp = json.load(f)
        os.environ['VERIF_SEED'] = str(rp['seed'])
        d = run_worker(rp['property'], rp['tier'], rp['seed'], rp['shard'], rp['nshards'], only=rp['signature'], round=rp.get('round', 0))
        if rp['signature'] in d['viol']:
            print('REPRODUCED %s' % rp['signature'])
            print(json.dumps(d['viol'][rp['signature']], indent=1)[:4000])
            return 1
        print('not reproduced: %s' % rp['signature'])
        return 0

    t0 = time.time()
    nshards = args.shards or shards_for(prop, args.tier)
    tmpdir = os.path.join(ROOT, '.work', '%s_%s_%d' % (prop, args.tier, os.getpid()))
    os.makedirs(tmpdir, exist_ok=True)
    procs = []
    env = dict(os.environ)
    env['VERIF_SEED'] = str(seed)
    env['ODL_VERIF'] = '1'
    env.setdefault('PYTHONHASHSEED', '0')
    env['OMP_NUM_THREADS'] = env['OPENBLAS_NUM_THREADS'] = env['MKL_NUM_THREADS'] = '1'
    env['PYTHONPATH'] = ROOT + os.pathsep + env.get('PYTHONPATH', '')
    rounds = 1
    if args.tier == 'thorough':
        rounds = args.rounds or rounds_for(prop)
    jobs = [(i, r) for r in range(rounds) for i in range(nshards)]
    maxpar = max(1, min(16, os.cpu_count() or 4))
    dumps = []
    dead = []
    deadline = t0 + WORKER_TIMEOUT[args.tier]
    running = []

    def reap(block):
        for item in list(running):
            i, r, p, outf, logf = item
            try:
                p.wait(timeout=(max(1, deadline - time.time()) if block else 0))
            except subprocess.TimeoutExpired:
                if time.time() < deadline:
                    continue
                p.kill()
                p.wait()
                dead.append('worker %d/round %d: watchdog' % (i, r))
            running.remove(item)
            logf.close()
            if os.path.exists(outf):
                with open(outf) as f:
                    dumps.append(json.load(f))
            elif not any(s_.startswith('worker %d/round %d:' % (i, r)) for s_ in dead):
                tail = open(os.path.join(tmpdir, 'w%d_%d.log' % (i, r))).read()[-600:]
                dead.append('worker %d/round %d: exit %s without result: %s' % (i, r, p.returncode, tail))
            if block:
                return

    for i, r in jobs:
        while len(running) >= maxpar:
            reap(True)
        outf = os.path.join(tmpdir, 'w%d_%d.json' % (i, r))
        logf = open(os.path.join(tmpdir, 'w%d_%d.log' % (i, r)), 'w')
        p = subprocess.Popen([PYTHON, '-m', 'vf.core', prop, '--tier', args.tier, '--worker', '%d/%d' % (i, nshards),
                              '--round', str(r), '--out', outf], cwd=ROOT, env=env, stdout=logf, stderr=subprocess.STDOUT)
        running.append((i, r, p, outf, logf))
    while running:
        reap(True)
    m = merge(dumps)
    m['inconclusive'].extend(dead)

    # deciding monitors must have been evaluated; required classes must have been seen
    if not m['monitors'] or any(v == 0 for v in m['monitors'].values()):
        m['inconclusive'].append('a deciding monitor recorded zero evaluations: %r' % m['monitors'])
    missing = sorted(c for c in m['required'] if c not in m['classes'])
    if missing:
        m['inconclusive'].append('required classes not observed: %s' % missing[:20])

    known, _fixed = load_known()
    new, listed = [], []
    for sig in sorted(m['viol']):
        (listed if sig in known else new).append(sig)

    rdir = os.path.join(ROOT, 'replays', prop)
    lines = []
    for sig in listed:
        lines.append('KNOWN-FINDING: property=%s %s (x%d) -- %s' % (prop, sig, m['viol'][sig]['count'], known[sig]))
    for sig in new:
        os.makedirs(rdir, exist_ok=True)
        rec = m['viol'][sig]
        path = os.path.join(rdir, hashlib.blake2b(sig.encode(), digest_size=6).hexdigest() + '.json')
        with open(path, 'w') as f:
            json.dump({'property': prop, 'signature': sig, 'seed': seed, 'tier': args.tier,
                       'shard': rec.get('shard', 0), 'nshards': rec.get('nshards', nshards), 'round': rec.get('round', 0),
                       'count': rec['count'], 'detail': rec['detail'], 'stack': rec.get('stack', '')}, f, indent=1)
        lines.append('VIOLATION property=%s replay=%s signature=%s (x%d)' % (prop, os.path.relpath(path, ROOT), sig, rec['count']))
    for r in m['inconclusive']:
        lines.append('INCONCLUSIVE property=%s reason=%s' % (prop, r))
    for g in m['notes'].get('unreached_lines', [])[:40]:
        # reporting only: statement lines of the anchored bodies that no generated configuration executed
        lines.append('COVERAGE-GAP property=%s %s' % (prop, g))

    wall = time.time() - t0
    distinct = len(m['distinct'])
    rule = m['notes'].pop('rule', 'see DESIGN.md section 3, %s' % prop)
    evidence = {
        'property_id': prop, 'tier': args.tier, 'seed': seed, 'level': LEVEL,
        'coverage': {
            'evaluations': int(m['evaluations']),
            'distinct_nontrivial': int(distinct),
            'rule': rule,
            'samples': m['samples'] or ['<none>'],
            'monitor_evaluations': m['monitors'],
            'classes_observed': len(m['classes']),
            'classes_required': len(m['required']),
            'class_counts': dict(sorted(m['classes'].items())[:300]),
            'skipped_inadmissible': m['skipped'],
            'known_finding_hits': {s: m['viol'][s]['count'] for s in listed},
            'new_violation_signatures': new,
            'inconclusive': m['inconclusive'],
            'shards': nshards,
            'rounds': rounds,
            'notes': m['notes'],
            'exhaustive': bool(m['notes'].get('exhaustive', False)),
        },
        'assumptions': m['notes'].get('assumptions', [
            'NumPy/SciPy reference computations are trusted',
            'harness wrappers are transparent (they call the original with unchanged arguments)']),
        'wall_s': round(wall, 2),
        'violations': len(new),
    }
    if not args.no_evidence:
        edir = os.path.join(ROOT, 'evidence')
        os.makedirs(edir, exist_ok=True)
        with open(os.path.join(edir, prop + '.json'), 'w') as f:
            json.dump(evidence, f, indent=1, sort_keys=False)
    for ln in lines:
        print(ln)
    verdict = 'violated' if new else ('inconclusive' if m['inconclusive'] else 'held')
    print('%s %s tier=%s seed=%d shards=%dx%d evaluations=%d distinct=%d monitors=%s known=%d new=%d wall=%.1fs'
          % (prop, verdict.upper(), args.tier, seed, nshards, rounds, m['evaluations'], distinct,
             json.dumps(m['monitors']), len(listed), len(new), wall))
    # clean work dir
    try:
        import shutil
        shutil.rmtree(tmpdir, ignore_errors=True)
    except Exception:
        pass
    if new:
        return 1
    if m['inconclusive']:
        return 2
    return 0


if __name__ == '__main__':
    sys.exit(main())
