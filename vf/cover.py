"""Branch-reach audit with sys.monitoring local LINE events (+DISABLE): which statement lines of
the anchored bodies were never executed by a workload.  Reporting only, never a verdict."""

import inspect
import linecache
import sys
import types

TOOL = 3
_mon = getattr(sys, 'monitoring', None)


class Cover(object):
    def __init__(self):
        self.codes = {}      # code -> label
        self.hit = set()     # (code, line)
        self.armed = False

    def _all_codes(self, code):
        yield code
        for c in code.co_consts:
            if isinstance(c, types.CodeType):
                yield from self._all_codes(c)

    def add(self, obj, label=None):
        """Register a function / method / property / class (all its function bodies)."""
        if obj is None or _mon is None:
            return
        if isinstance(obj, property):
            for f in (obj.fget, obj.fset):
                if f is not None:
                    self.add(f, label)
            return
        if isinstance(obj, (staticmethod, classmethod)):
            obj = obj.__func__
        if inspect.isclass(obj):
            for name, member in vars(obj).items():
                self.add(member, '%s.%s' % (obj.__name__, name))
            return
        obj = getattr(obj, '__wrapped__', obj)
        code = getattr(obj, '__code__', None)
        if code is None:
            return
        label = label or getattr(obj, '__qualname__', code.co_name)
        for c in self._all_codes(code):
            if c not in self.codes:
                self.codes[c] = label if c is code else '%s.<%s>' % (label, c.co_name)
                if self.armed:
                    try:
                        _mon.set_local_events(TOOL, c, _mon.events.LINE)
                    except Exception:
                        pass

    def arm(self):
        if _mon is None or self.armed:
            return
        try:
            _mon.use_tool_id(TOOL, 'vf-cover')
        except ValueError:
            pass

        def on_line(code, line):
            self.hit.add((code, line))
            return _mon.DISABLE
        _mon.register_callback(TOOL, _mon.events.LINE, on_line)
        for c in self.codes:
            try:
                _mon.set_local_events(TOOL, c, _mon.events.LINE)
            except Exception:
                pass
        self.armed = True

    def disarm(self):
        if _mon is None or not self.armed:
            return
        for c in self.codes:
            try:
                _mon.set_local_events(TOOL, c, 0)
            except Exception:
                pass
        _mon.register_callback(TOOL, _mon.events.LINE, None)
        try:
            _mon.free_tool_id(TOOL)
        except Exception:
            pass
        self.armed = False

    def report(self):
        """Return (n_executable, n_hit, unreached[list of 'label: source line'])."""
        unreached = []
        n_exec = n_hit = 0
        for code, label in self.codes.items():
            lines = set(ln for (_s, _e, ln) in code.co_lines() if ln)
            lines.discard(code.co_firstlineno)
            for ln in sorted(lines):
                src = linecache.getline(code.co_filename, ln).strip()
                if not src or src.startswith(('def ', '@', '"""', "'''", 'class ')):
                    continue
                n_exec += 1
                if (code, ln) in self.hit:
                    n_hit += 1
                else:
                    if src.startswith('raise ') or src.startswith(('except', 'pass', 'else:')):
                        continue
                    unreached.append('%s: %s' % (label, src[:110]))
        return n_exec, n_hit, unreached


def functional_cover(members):
    """Branch-reach audit over the functional library: the named members (e.g. 'convex_conj', 'gradient', '_call') of every
    class in odl.solvers.functional.{default_functionals, functional}."""
    import inspect
    from odl.solvers.functional import default_functionals as DF, functional as FN
    cov = Cover()
    for mod in (DF, FN):
        for cname, c in vars(mod).items():
            if inspect.isclass(c) and c.__module__ == mod.__name__:
                for m in members:
                    if m in vars(c):
                        cov.add(vars(c)[m], '%s.%s' % (cname, m))
    return cov


def report_to(ctx, cov):
    cov.disarm()
    n_exec, n_hit, unreached = cov.report()
    ctx.note('line_coverage', {'executable': n_exec, 'hit': n_hit})
    for u in unreached:
        ctx.note_set('unreached_lines', u)


def module_cover(modules):
    """Branch-reach audit over every function and class body defined in the given modules."""
    import inspect
    cov = Cover()
    for mod in modules:
        for name, obj in vars(mod).items():
            if getattr(obj, '__module__', None) != mod.__name__:
                continue
            if inspect.isfunction(obj) or inspect.isclass(obj):
                cov.add(obj, name)
    return cov
