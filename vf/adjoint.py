"""Adjoint identity decided through full Gram matrices (DESIGN.md C05, Appendix C)."""

import numpy as np
import odl

from . import util


def inner_nofrac(sp, a, b):
    """Inner product of `sp` without boundary-cell fractions (tensor-space level weighting only)."""
    if util.is_field(sp):
        return a * np.conj(b)
    if util.is_pspace(sp):
        w = sp.weighting
        name = type(w).__name__
        if 'Const' in name:
            ws = [w.const] * len(sp)
        elif 'Array' in name:
            ws = list(w.array)
        else:
            return sp.inner(a, b)
        return sum(wi * inner_nofrac(si, ai, bi) for wi, si, ai, bi in zip(ws, sp, a.parts, b.parts))
    if isinstance(sp, odl.DiscretizedSpace):
        return sp.tspace.inner(a.tensor, b.tensor)
    return sp.inner(a, b)


def inner_plain(sp, a, b):
    va = util.to_cvec(sp, a).astype(complex)
    vb = util.to_cvec(sp, b).astype(complex)
    return np.sum(va * np.conj(vb))


def gram_report(A, At, tol=1e-10):
    """Evaluate A on a real-linear basis of its domain and At on one of its range.

    Returns dict: relerr (spaces' own inner products), relerr_nofrac, relerr_plain, n_dom, n_ran,
    AX (images) for reuse.
    """
    dom, ran = A.domain, A.range
    X = util.basis(dom)
    Y = util.basis(ran)
    AX = [A(x) for x in X]
    AtY = [At(y) for y in Y]

    def mats(inner_d, inner_r):
        M1 = np.array([[np.real(inner_r(ran, ax, y)) for ax in AX] for y in Y], dtype=float).reshape(len(Y), len(X))
        M2 = np.array([[np.real(inner_d(dom, x, aty)) for x in X] for aty in AtY], dtype=float).reshape(len(Y), len(X))
        sc = max(1e-300, np.abs(M1).max() if M1.size else 0, np.abs(M2).max() if M2.size else 0)
        err = float(np.abs(M1 - M2).max() / sc) if M1.size else 0.0
        if not np.isfinite(err):
            err = float('inf')
        return err

    rep = {'n_dom': len(X), 'n_ran': len(Y), 'AX': AX, 'X': X}
    rep['relerr'] = mats(util.sp_inner, util.sp_inner)
    if rep['relerr'] > tol:
        try:
            rep['relerr_nofrac'] = mats(inner_nofrac, inner_nofrac)
        except Exception:
            rep['relerr_nofrac'] = float('inf')
        try:
            rep['relerr_plain'] = mats(inner_plain, inner_plain)
        except Exception:
            rep['relerr_plain'] = float('inf')
    return rep


def adjoint_is_inverse(A, At, tol=1e-9):
    """True if the adjoint offered acts like A.inverse on a basis of the range (Fourier-type operators)."""
    try:
        inv = A.inverse
        ran, dom = A.range, A.domain
        d = 0.0
        sc = 1e-300
        for y in util.basis(ran):
            a = util.to_cvec(dom, At(y))
            b = util.to_cvec(dom, inv(y))
            d = max(d, float(np.abs(a - b).max()))
            sc = max(sc, float(np.abs(b).max()))
        return d <= tol * sc
    except Exception:
        return False


def failure_kind(rep, tol=1e-10):
    """Mechanism class of a failed identity."""
    if rep.get('relerr_plain', 1) <= tol:
        return 'identity-fails/plain-transpose-holds'
    if rep.get('relerr_nofrac', 1) <= tol:
        return 'identity-fails/holds-without-boundary-fractions'
    return 'identity-fails/not-a-transpose'


def weights_relation(dom, ran):
    """Value-free description of how domain and range are weighted (for signatures)."""
    fd = 'c' if util.space_complex(dom) else 'r'
    fr = 'c' if util.space_complex(ran) else 'r'
    return 'dom[%s;%s]->ran[%s;%s]' % (fd, util.weighting_tag(dom), fr, util.weighting_tag(ran))
