"""Callback recorder for solver runs and offline checkers over the recorded traces."""

import numpy as np


def flat(x):
    if hasattr(x, 'parts'):
        ps = [flat(p) for p in x.parts]
        return np.concatenate(ps) if ps else np.zeros(0)
    return np.asarray(x).ravel().copy()


class Recorder(object):
    """Solver callback that copies every iterate it is shown (one event per call)."""

    def __init__(self):
        self.iterates = []

    def __call__(self, x):
        self.iterates.append(flat(x))

    def __len__(self):
        return len(self.iterates)


def first_mismatch(a, b, tol=1e-9):
    """Index of the first position where two traces differ (relative to max(1, |.|_inf)), or None."""
    for k, (u, v) in enumerate(zip(a, b)):
        if u.shape != v.shape:
            return k, float('inf')
        sc = max(1.0, float(np.abs(u).max()) if u.size else 1.0, float(np.abs(v).max()) if v.size else 1.0)
        d = float(np.abs(u - v).max()) if u.size else 0.0
        if not d <= tol * sc:
            return k, d / sc
    return None


def nonincreasing(values, slack=1e-9):
    """Index of the first increase beyond relative slack, or None."""
    for k in range(1, len(values)):
        if values[k] > values[k - 1] * (1 + slack) + slack * 1e-3 * max(1.0, abs(values[0])):
            return k
    return None
