"""Central-difference convergence oracle shared by C06 (operators) and C09 (functional values)."""

import numpy as np

from . import util

HS = (1e-1, 1e-2, 1e-3, 1e-4, 1e-5, 1e-6)


def _norm(sp, v):
    if util.is_field(sp):
        return abs(v)
    return float(np.linalg.norm(util.to_cvec(sp, v)))


def _sub(sp, a, b):
    return a - b


def fd_errors(f, sp_ran, x, d, Dd, hs=HS, Dfun=None, floor=0.0, tiny=1e-12):
    """Relative errors of (f(x+hd) - f(x-hd))/(2h) against Dd for each h.

    The rounding noise of the difference quotient, ~ eps * |f(x)| / h, is subtracted from the discrepancy, so
    that expressions with cancellation ((A + v) - A) or badly scaled values do not produce spurious errors.
    ``floor`` is an absolute rounding floor of the derivative value itself (see ``term_scale``)."""
    errs = []
    del fds[:]
    try:
        with np.errstate(all='ignore'):
            fx = _norm(sp_ran, f(x))
    except Exception:
        fx = 0.0
    eps = np.finfo(float).eps
    for h in hs:
        with np.errstate(all='ignore'):
            fp, fm = f(x + h * d), f(x - h * d)
            fd = (fp - fm) / (2 * h)
        noise = 64 * eps * max(fx, _norm(sp_ran, fp), _norm(sp_ran, fm)) / h
        sc = max(tiny, _norm(sp_ran, Dd), _norm(sp_ran, fd))
        diff = max(0.0, _norm(sp_ran, _sub(sp_ran, fd, Dd)) - noise - floor)
        e = diff / sc
        errs.append(e if np.isfinite(e) else float('inf'))
        fds.append((fd, noise, sc))
    if verdict(errs) is not None:
        # The model noise eps*|f|/h only knows the magnitude of the final value; an expression that cancels internally
        # ((A + B) - B with |B| >> |A|) is noisier than that.  Measure the noise instead: the quotient at steps
        # h(1 +- 2^-20) differs from the quotient at h by O(2^-20 h^2) analytically, anything beyond that is rounding.
        errs = []
        del fds[:]
        # ... and the same for the derivative under test: a tree that is identically zero (((A + B) - B) - A) has a
        # derivative value that is pure rounding residue of its terms; D(x(1 +- 2^-30))(d) differs from D(x)(d) by
        # O(2^-30 |D^2 F| |x| |d|) analytically (far below every threshold here), anything beyond that is rounding.
        noise_d = 0.0
        if Dfun is not None:
            try:
                with np.errstate(all='ignore'):
                    noise_d = 4 * max(_norm(sp_ran, _sub(sp_ran, Dfun(x * (1 + dl)), Dd)) for dl in (2.0 ** -30, -2.0 ** -31))
                if not np.isfinite(noise_d):
                    noise_d = 0.0
            except Exception:
                noise_d = 0.0
        for h in hs:
            with np.errstate(all='ignore'):
                q = []
                for hh in (h, h * (1 + 2.0 ** -20), h * (1 - 2.0 ** -21), h * (1 + 2.0 ** -19)):
                    fp, fm = f(x + hh * d), f(x - hh * d)
                    q.append((fp - fm) / (2 * hh))
                fd = q[0]
                noise = 64 * eps * max(fx, _norm(sp_ran, fp), _norm(sp_ran, fm)) / h
                try:
                    noise = max(noise, 4 * max(_norm(sp_ran, _sub(sp_ran, qq, fd)) for qq in q[1:]))
                except Exception:
                    pass
                noise = noise + noise_d + floor
            sc = max(tiny, _norm(sp_ran, Dd), _norm(sp_ran, fd))
            diff = max(0.0, _norm(sp_ran, _sub(sp_ran, fd, Dd)) - noise)
            e = diff / sc
            errs.append(e if np.isfinite(e) else float('inf'))
            fds.append((fd, noise, sc))
    return errs


fds = []


def quotient_sequence_converged(sp_ran, tol=1e-4):
    """True if the last difference quotients of the most recent fd_errors() call agree with each other (the
    quotient sequence itself is Cauchy).  If not - overflowing or violently oscillating expression trees - the
    oracle has no reference value and the case is inconclusive, not a violation."""
    last = fds[-3:]
    if len(last) < 3:
        return False
    for (a, na, sa), (b, nb, sb) in zip(last, last[1:]):
        try:
            d = max(0.0, _norm(sp_ran, _sub(sp_ran, a, b)) - na - nb)
        except Exception:
            return False
        if not np.isfinite(d) or d > tol * max(sa, sb):
            return False
    return True


def resolvable(sp_ran, tol=1e-6):
    """True if the difference quotients of the most recent fd_errors() call pin the directional derivative down to
    ``tol`` (relative) for at least one step: two consecutive quotients (steps h and h/10) agree to tol/2 including their
    rounding noise.  If no step does - the truncation error at the large steps and the rounding noise at the small ones
    leave no window, as for x -> (x - sin x) composed three times - the oracle cannot decide at that tolerance."""
    best = float('inf')
    for (a, na, sa), (b, nb, sb) in zip(fds, fds[1:]):
        try:
            u = (_norm(sp_ran, _sub(sp_ran, a, b)) + na + nb) / max(sa, sb)
        except Exception:
            continue
        if np.isfinite(u):
            best = min(best, u)
    return best <= tol / 2


def verdict(errs):
    """None if the derivative is consistent with central differences, else a reason string.

    Held iff min error < 1e-6 AND while err > 1e-5 one decade in h reduces it by >= 20x
    (second-order central differences give 100x; an O(h) discrepancy gives 10x and plateaus)."""
    m = min(errs)
    if not m < 1e-6:
        return 'fd-mismatch'
    # pairs of consecutive step sizes that are both above the rounding floor
    pairs = [(e1, e2) for e1, e2 in zip(errs, errs[1:]) if e1 > 1e-5 and e2 > 1e-7 and np.isfinite(e1)]
    # a fast oscillation (sin(106 v x): steps 1e-1 and 1e-2 span several periods) reaches the asymptotic regime only one decade
    # later - the pair just below the thresholds above still lies well over the rounding floor and shows the second-order rate
    late = [(e1, e2) for e1, e2 in zip(errs, errs[1:]) if 1e-6 < e1 <= 1e-5 and e2 > 5e-8]
    if len(pairs) >= 2 and not any(e2 <= e1 / 20 for e1, e2 in pairs + late):
        # never better than ~10x per decade: first-order discrepancy (e.g. derivative taken at a wrong point);
        # a pre-asymptotic plateau followed by 100x steps (oscillatory operators) is fine
        return 'fd-rate'
    return None


def term_scale(op, x, d, depth=0):
    """Sum of the magnitudes of the terms of D(op)(x)(d) over the additive structure of ``op`` (sums, differences,
    scalar multiples, negations).  ``64 * eps * term_scale`` is the size of the rounding residue an expression like
    ((A + B) - B) - A leaves in its derivative value: discrepancies below it are not observable."""
    import odl
    from odl.operator import operator as oo
    try:
        if depth < 40:
            if isinstance(op, oo.OperatorSum):
                return term_scale(op.left, x, d, depth + 1) + term_scale(op.right, x, d, depth + 1)
            if isinstance(op, oo.OperatorLeftScalarMult):
                return abs(op.scalar) * term_scale(op.operator, x, d, depth + 1)
            if isinstance(op, oo.OperatorRightScalarMult):
                return term_scale(op.operator, op.scalar * x, op.scalar * d, depth + 1)
        with np.errstate(all='ignore'):
            v = _norm(op.range, op.derivative(x)(d))
        return v if np.isfinite(v) else 0.0
    except Exception:
        return 0.0
