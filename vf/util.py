"""Helpers shared by the property modules: element generation, snapshots, flattening, class tags."""

import hashlib

import numpy as np
import odl
from odl.set.sets import Field
from odl.set.space import LinearSpaceElement


def is_field(sp):
    return isinstance(sp, Field)


def is_pspace(sp):
    return isinstance(sp, odl.ProductSpace)


def leaves(sp, path=()):
    """(path, leaf space) for every non-product leaf of a possibly nested product space."""
    if is_pspace(sp):
        for i, si in enumerate(sp):
            yield from leaves(si, path + (i,))
    else:
        yield path, sp


def space_complex(sp):
    if is_field(sp):
        return isinstance(sp, odl.ComplexNumbers)
    if is_pspace(sp):
        return any(space_complex(s) for s in sp)
    return bool(getattr(sp, 'is_complex', False))


def rand_element(sp, rng, scale=1.0, kind='normal', positive=False):
    """Random element of a tensor / discretized / product space or field."""
    if is_field(sp):
        if isinstance(sp, odl.ComplexNumbers):
            return complex(rng.normal(), rng.normal()) * scale
        v = float(rng.normal()) * scale
        return abs(v) + 0.1 if positive else v
    if is_pspace(sp):
        return sp.element([rand_element(s, rng, scale, kind, positive) for s in sp])
    shape = sp.shape
    dt = np.dtype(sp.dtype)
    if dt.kind in 'iu':
        a = rng.integers(-9, 10, size=shape)
        if positive:
            a = np.abs(a) + 1
        return sp.element(a.astype(dt))
    if dt.kind == 'b':
        return sp.element(rng.integers(0, 2, size=shape).astype(bool))
    a = rng.normal(size=shape) * scale
    if positive:
        a = np.abs(a) + 0.1
    if dt.kind == 'c':
        a = a + 1j * rng.normal(size=shape) * scale
    return sp.element(a.astype(dt))


def snap(x):
    """Byte-level snapshot (hash) of an element / scalar, recursing through product parts."""
    if isinstance(x, LinearSpaceElement):
        if hasattr(x, 'parts'):
            return tuple(snap(p) for p in x.parts)
        a = np.asarray(x)
        return hashlib.blake2b(np.ascontiguousarray(a).tobytes(), digest_size=8).hexdigest()
    if isinstance(x, np.ndarray):
        return hashlib.blake2b(np.ascontiguousarray(x).tobytes(), digest_size=8).hexdigest()
    if isinstance(x, (int, float, complex, np.number)):
        return repr(complex(x))
    return None


def fill(el, kind, rng=None):
    """Overwrite an element with hostile contents: 'nan' (or a sentinel for integers) or 'rnd'."""
    if hasattr(el, 'parts'):
        for p in el.parts:
            fill(p, kind, rng)
        return el
    a = np.asarray(el)
    k = a.dtype.kind
    if k == 'c':
        # both parts hostile (a NaN assigned to a complex array only poisons the real part)
        if kind == 'nan':
            el[...] = complex(np.nan, np.nan)
        else:
            el[...] = 1e3 * ((rng.normal(size=a.shape) + 1j * rng.normal(size=a.shape)) if rng is not None else (1 + 1j) * np.ones(a.shape))
    elif k == 'f':
        if kind == 'nan':
            el[...] = np.nan
        else:
            el[...] = 1e3 * (rng.normal(size=a.shape) if rng is not None else np.ones(a.shape))
    elif k in 'iu':
        el[...] = 77 if kind == 'nan' else 13
    elif k == 'b':
        el[...] = True if kind == 'nan' else False
    return el


def to_vec(sp, e):
    """Flatten an element (or field scalar) to a real vector of real-linear coordinates."""
    if is_field(sp):
        if isinstance(sp, odl.ComplexNumbers):
            e = complex(e)
            return np.array([e.real, e.imag])
        return np.array([float(np.real(e))])

    def rec(x):
        if hasattr(x, 'parts'):
            ps = [rec(p) for p in x.parts]
            return np.concatenate(ps) if ps else np.zeros(0)
        a = np.asarray(x).ravel()
        if np.iscomplexobj(a):
            return np.stack([a.real, a.imag], axis=1).ravel().astype(float)
        return a.astype(float)
    return rec(e)


def to_cvec(sp, e):
    """Flatten to a (possibly complex) vector of entries."""
    if is_field(sp):
        return np.array([e])

    def rec(x):
        if hasattr(x, 'parts'):
            ps = [rec(p) for p in x.parts]
            return np.concatenate(ps) if ps else np.zeros(0)
        return np.asarray(x).ravel()
    return rec(e)


def close(a, b, rtol=1e-10, atol=1e-12):
    if hasattr(a, 'parts') and hasattr(b, 'parts'):
        return len(a.parts) == len(b.parts) and all(close(p, q, rtol, atol) for p, q in zip(a.parts, b.parts))
    a = np.asarray(a)
    b = np.asarray(b)
    if a.shape != b.shape:
        return False
    if a.dtype.kind in 'fc' or b.dtype.kind in 'fc':
        if a.dtype in (np.float32, np.complex64):
            rtol, atol = max(rtol, 1e-5), max(atol, 1e-6)
        sc = max(1.0, float(np.nanmax(np.abs(b))) if b.size and np.isfinite(b).any() else 1.0)
        return bool(np.allclose(a, b, rtol=rtol, atol=atol * sc, equal_nan=True))
    return bool(np.array_equal(a, b))


def maxdiff(a, b):
    if hasattr(a, 'parts'):
        return max([maxdiff(p, q) for p, q in zip(a.parts, b.parts)] + [0.0])
    a = np.asarray(a)
    b = np.asarray(b)
    if a.size == 0:
        return 0.0
    with np.errstate(all='ignore'):
        d = np.abs(a.astype(complex) - b.astype(complex))
    d = np.where(np.isnan(a) & np.isnan(b), 0, d)
    return float(np.nanmax(d)) if np.isfinite(d).all() else float('inf')


def basis(sp):
    """Real-linear basis of a small space: e_j and (complex) i*e_j; fields {1} / {1, i}."""
    if is_field(sp):
        return [1.0] + ([1j] if isinstance(sp, odl.ComplexNumbers) else [])
    out = []
    for path, leaf in leaves(sp):
        idxs = list(np.ndindex(*leaf.shape)) if leaf.shape else [()]
        for j in idxs:
            for unit in ((1.0, 1j) if leaf.is_complex else (1.0,)):
                x = sp.zero()
                t = x
                for i in path:
                    t = t[i]
                t[j] = unit
                out.append(x)
    return out


def sp_inner(sp, a, b):
    if is_field(sp):
        return a * np.conj(b)
    return sp.inner(a, b)


def real_dim(sp):
    if is_field(sp):
        return 2 if isinstance(sp, odl.ComplexNumbers) else 1
    n = 0
    for _, leaf in leaves(sp):
        n += int(np.prod(leaf.shape, dtype=int)) * (2 if leaf.is_complex else 1)
    return n


def weighting_tag(sp):
    """Coarse, value-free description of the weighting of a space (for signatures)."""
    if is_field(sp):
        return 'field'
    if is_pspace(sp):
        w = type(sp.weighting).__name__.replace('ProductSpace', 'P').replace('Weighting', '')
        if 'Const' in w and getattr(sp.weighting, 'const', 1.0) == 1.0:
            w = 'PNone'
        inner = sorted(set(weighting_tag(s) for s in sp)) if len(sp) else []
        return 'pspace[%s;%s]' % (w, ','.join(inner))
    if isinstance(sp, odl.DiscretizedSpace):
        part = sp.partition
        bdry = any(any(t) for t in part.nodes_on_bdry_byaxis) if hasattr(part, 'nodes_on_bdry_byaxis') else False
        t = weighting_tag(sp.tspace)
        cv1 = (float(sp.cell_volume) == 1.0)
        return 'discr[%s%s%s]' % (t, ',bdry' if bdry else '', ',cv1' if cv1 else '')
    w = getattr(sp, 'weighting', None)
    if w is None:
        return 'none'
    name = type(w).__name__
    if 'Const' in name:
        return 'none' if getattr(w, 'const', 1.0) == 1.0 else 'const'
    if 'Array' in name:
        return 'array'
    if 'Custom' in name or 'Inner' in name or 'Norm' in name or 'Dist' in name:
        return 'custom'
    return name


def space_tag(sp):
    """Coarse, value-free tag of a space: kind, field, weighting."""
    if is_field(sp):
        return 'C' if isinstance(sp, odl.ComplexNumbers) else 'R'
    if is_pspace(sp):
        nested = any(is_pspace(s) for s in sp)
        return '%s,%s,%s' % ('npspace' if nested else 'pspace', 'c' if space_complex(sp) else 'r', weighting_tag(sp))
    kind = 'discr' if isinstance(sp, odl.DiscretizedSpace) else 'tensor'
    dk = np.dtype(sp.dtype).kind if sp.dtype is not None else '?'
    return '%s,%s,%s' % (kind, dk, weighting_tag(sp))


def size_regime(n):
    return '<100' if n < 100 else ('<50000' if n < 50000 else '>=50000')


def scalar_class(a):
    if isinstance(a, complex) or isinstance(a, np.complexfloating):
        if a.imag != 0:
            return 'complex'
        a = a.real
    if a == 0:
        return '0'
    if a == 1:
        return '1'
    if a == -1:
        return '-1'
    return 'other'


def exc_name(e):
    return type(e).__name__


def srepr(o, n=200):
    """repr that never raises (DiscretizedSpace.__repr__ raises for array weightings)."""
    try:
        return repr(o)[:n]
    except Exception as e:
        return '<%s; repr raises %s>' % (type(o).__name__, type(e).__name__)
