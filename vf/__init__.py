"""vf -- runtime-monitoring harness for the ODL properties C01..C20 (see /verif/DESIGN.md)."""
