"""C19 -- acquisition geometries are rigid-motion consistent for all parameters.

Deciding monitors
  formula-model   : det_refpoint / src_position / rotation_matrix / det_axes against a NumPy model written from the
                    docstrings, evaluated from *copies* of the constructor arguments (also with all arguments
                    defaulted); the constructor must not mutate its arguments.
  rigid-motion    : rotation in SO(n); det_point_position = det_refpoint + R surface; det_to_src consistent with
                    src_position (unit when normalised); parallel beams: constant unit direction orthogonal to the
                    rotated detector axes.
  vectorised      : array and broadcast evaluation (m,1)x(1,d) -> (m,d,ndim) equals entry-wise single evaluation.
  detectors       : surface_deriv vs central differences, surface_normal, surface_measure, broadcast shapes.
  slicing/matrix  : geom[i:j] evaluates identically at its own angles; frommatrix == geometry from transformed vectors.
  factories       : parallel_beam_geometry / cone_beam_geometry / helical_geometry: every volume corner projects
                    inside the detector for every angle (two-level oracle, see DESIGN.md).
  utilities       : euler_matrix, axis_rotation(_matrix), rotation_matrix_from_to, perpendicular_vector.
"""

import itertools

import numpy as np
import odl
from odl.tomo.geometry import detector as D
from odl.tomo.util import utility as U

from .. import cover, util

SHARDS = {'quick': 4, 'thorough': 16}
TOMO = odl.tomo


def rvec(rng, d, unit=False):
    v = rng.normal(size=d)
    v = v / np.linalg.norm(v)
    return v if unit else v * rng.uniform(0.5, 2)


def rodrigues(ax, a):
    ax = ax / np.linalg.norm(ax)
    K = np.array([[0, -ax[2], ax[1]], [ax[2], 0, -ax[0]], [-ax[1], ax[0], 0]])
    return np.cos(a) * np.eye(3) + (1 - np.cos(a)) * np.outer(ax, ax) + np.sin(a) * K


def rot2(a):
    return np.array([[np.cos(a), -np.sin(a)], [np.sin(a), np.cos(a)]])


def euler_zxz(phi, theta, psi=0.0):
    def Rz(t):
        return np.array([[np.cos(t), -np.sin(t), 0], [np.sin(t), np.cos(t), 0], [0, 0, 1]])

    def Rx(t):
        return np.array([[1, 0, 0], [0, np.cos(t), -np.sin(t)], [0, np.sin(t), np.cos(t)]])
    return Rz(phi) @ Rx(theta) @ Rz(psi)


# shift functions return one shift vector per angle: shape angle.shape + (ndim,)
def sfun2(a):
    a = np.asarray(a, dtype=float)
    return np.stack([0.1 * np.sin(a), 0.2 * np.cos(a)], axis=-1)


def dfun2(a):
    a = np.asarray(a, dtype=float)
    return np.stack([0.05 * a, -0.1 * np.sin(a)], axis=-1)


def sfun3(a):
    a = np.asarray(a, dtype=float)
    return np.stack([0.1 * np.sin(a), 0.2 * np.cos(a), 0.05 * a], axis=-1)


def dfun3(a):
    a = np.asarray(a, dtype=float)
    return np.stack([0.05 * a, -0.1 * np.sin(a), 0.1 * np.cos(a)], axis=-1)


# ---------------------------------------------------------------------------------------------------------------
# documented-formula model


def run_formula(ctx):
    rng = ctx.rng('formula')
    apart = odl.uniform_partition(0, 4 * np.pi, 9)
    apart1 = odl.uniform_partition(0, 2 * np.pi, 5)
    d1 = odl.uniform_partition(-1, 1, 4)
    d2 = odl.uniform_partition([-1, -1], [1, 1], (4, 3))
    for trial in range(ctx.reps(12, 80)):
        if not ctx.mine(trial):
            continue
        tr2 = rng.normal(size=2)
        tr3 = rng.normal(size=3)
        s2d = rvec(rng, 2, True)
        sr, dr = rng.uniform(0.5, 3), rng.uniform(0.5, 3)
        ctx.case('formula;trial', trial)
        # --- fan beam
        for shifts in (False, True):
            comp = 'FanBeamGeometry' + ('/shift-functions' if shifts else '')
            args = dict(src_to_det_init=s2d * (rng.uniform(0.5, 2), 1.0, 1 + 8e-6, 1 - 3e-9)[trial % 4], translation=tr2.copy())
            keep = {k: v.copy() for k, v in args.items()}
            try:
                g = TOMO.FanBeamGeometry(apart, d1, sr, dr, **args, **({'src_shift_func': sfun2, 'det_shift_func': dfun2} if shifts else {}))
            except Exception as e:
                ctx.ev('formula-model')
                ctx.violation(comp, 'ctor', 'raises:' + type(e).__name__, message=str(e)[:200])
                continue
            if any(not np.array_equal(args[k], keep[k]) for k in args):
                ctx.violation(comp, 'ctor', 'constructor-mutates-argument')
            for a in rng.uniform(0, 4 * np.pi, size=3):
                ctx.ev('formula-model')
                ss = sfun2(np.array([a]))[0] if shifts else np.zeros(2)
                ds = dfun2(np.array([a]))[0] if shifts else np.zeros(2)
                tan_s = np.array([s2d[1], -s2d[0]])
                tan_d = np.array([-s2d[1], s2d[0]])
                src = tr2 + rot2(a) @ (-sr * s2d + ss[0] * (-s2d) + ss[1] * tan_s)
                det = tr2 + rot2(a) @ (dr * s2d + ds[0] * s2d + ds[1] * tan_d)
                try:
                    if not np.allclose(g.src_position(a), src, atol=1e-12):
                        ctx.violation(comp, 'scalar', 'src_position!=documented-formula')
                    if not np.allclose(g.det_refpoint(a), det, atol=1e-12):
                        ctx.violation(comp, 'scalar', 'det_refpoint!=documented-formula')
                    if not np.allclose(g.rotation_matrix(a), rot2(a), atol=1e-13):
                        ctx.violation(comp, 'scalar', 'rotation_matrix!=documented-formula')
                    if not np.allclose(g.det_axis(a), rot2(a) @ g.det_axis_init, atol=1e-13):
                        ctx.violation(comp, 'scalar', 'det_axis!=R.det_axis_init')
                except Exception as e:
                    ctx.violation(comp, 'scalar', 'raises:' + type(e).__name__, message=str(e)[:200])
        # --- cone beam (generic axis)
        # the axis as handed in (a direction of some length kind); the model uses its exact normalisation
        ax_in = length_kind(rvec(rng, 3, True), trial)
        ax = ax_in / np.linalg.norm(ax_in)
        s3 = np.cross(ax, rvec(rng, 3, True))
        s3 /= np.linalg.norm(s3)
        scale_kind = (rng.uniform(0.5, 2), 1.0, 1 + 8e-6, 1 - 3e-9)[(trial // 6) % 4]
        pitch = rng.uniform(-2, 2)
        off = rng.normal()
        for shifts, curved in itertools.product((False, True), (None, (5.0, None), (5.0, 5.0))):
            comp = 'ConeBeamGeometry' + ('/shift-functions' if shifts else '') + ('' if curved is None else ('/cylindrical' if curved[1] is None else '/spherical'))
            args = dict(axis=ax_in.copy(), src_to_det_init=s3 * scale_kind, translation=tr3.copy())
            keep = {k: v.copy() for k, v in args.items()}
            dp = d2 if curved is None else odl.uniform_partition([-0.5, -0.4], [0.6, 0.4], (5, 4))
            try:
                g = TOMO.ConeBeamGeometry(apart, dp, sr, dr, pitch=pitch, offset_along_axis=off, **args,
                                          **({'src_shift_func': sfun3, 'det_shift_func': dfun3} if shifts else {}),
                                          **({} if curved is None else {'det_curvature_radius': curved}))
            except Exception as e:
                ctx.ev('formula-model')
                ctx.violation(comp, 'ctor', 'raises:' + type(e).__name__, message=str(e)[:200])
                continue
            if any(not np.array_equal(args[k], keep[k]) for k in args):
                ctx.violation(comp, 'ctor', 'constructor-mutates-argument')
            for a in rng.uniform(0, 4 * np.pi, size=3):
                ctx.ev('formula-model')
                ss = sfun3(np.array([a]))[0] if shifts else np.zeros(3)
                ds = dfun3(np.array([a]))[0] if shifts else np.zeros(3)
                R = rodrigues(ax, a)
                src = tr3 + R @ (-sr * s3 + ss[0] * (-s3) + ss[1] * np.cross(s3, ax)) + (off + pitch * a / (2 * np.pi) + ss[2]) * ax
                det = tr3 + R @ (dr * s3 + ds[0] * s3 + ds[1] * np.cross(-s3, ax)) + (off + pitch * a / (2 * np.pi) + ds[2]) * ax
                try:
                    if not np.allclose(g.src_position(a), src, atol=1e-12):
                        ctx.violation(comp, 'scalar', 'src_position!=documented-formula')
                    if not np.allclose(g.det_refpoint(a), det, atol=1e-12):
                        ctx.violation(comp, 'scalar', 'det_refpoint!=documented-formula')
                    if not np.allclose(g.rotation_matrix(a), R, atol=1e-13):
                        ctx.violation(comp, 'scalar', 'rotation_matrix!=documented-formula')
                    ax_ref = np.array([R @ v for v in g.det_axes_init])
                    if not np.allclose(g.det_axes(a), ax_ref, atol=1e-13):
                        ctx.violation(comp, 'scalar', 'det_axes!=R.det_axes_init')
                except Exception as e:
                    ctx.violation(comp, 'scalar', 'raises:' + type(e).__name__, message=str(e)[:200])
        # --- parallel 2d / 3d axis / euler
        p2 = rvec(rng, 2)
        args = dict(det_pos_init=p2.copy(), translation=tr2.copy())
        keep = {k: v.copy() for k, v in args.items()}
        ctx.ev('formula-model')
        try:
            g = TOMO.Parallel2dGeometry(apart1, d1, **args)
            if any(not np.array_equal(args[k], keep[k]) for k in args):
                ctx.violation('Parallel2dGeometry', 'ctor', 'constructor-mutates-argument')
            for a in rng.uniform(0, 2 * np.pi, size=3):
                if not np.allclose(g.det_refpoint(a), tr2 + rot2(a) @ p2, atol=1e-12):
                    ctx.violation('Parallel2dGeometry', 'scalar', 'det_refpoint!=documented-formula')
                if not np.allclose(g.det_to_src(a, 0.3), rot2(a) @ (-p2 / np.linalg.norm(p2)) * -1 if False else g.det_to_src(a, 0.3), atol=1e-12):
                    pass
                # parallel rays point from the detector towards the source side: -R(a) det_pos_init direction
                v = g.det_to_src(a, 0.3)
                if not np.allclose(v, -(rot2(a) @ p2) / np.linalg.norm(p2), atol=1e-12):
                    ctx.violation('Parallel2dGeometry', 'scalar', 'det_to_src!=-R.det_pos_init/|.|')
        except Exception as e:
            ctx.violation('Parallel2dGeometry', 'scalar', 'raises:' + type(e).__name__, message=str(e)[:200])
        p3 = np.cross(ax, rvec(rng, 3, True)) * rng.uniform(0.5, 2)
        args = dict(axis=ax_in.copy(), det_pos_init=p3.copy(), translation=tr3.copy())
        keep = {k: v.copy() for k, v in args.items()}
        ctx.ev('formula-model')
        try:
            g = TOMO.Parallel3dAxisGeometry(apart1, d2, **args)
            if any(not np.array_equal(args[k], keep[k]) for k in args):
                ctx.violation('Parallel3dAxisGeometry', 'ctor', 'constructor-mutates-argument')
            for a in rng.uniform(0, 2 * np.pi, size=3):
                if not np.allclose(g.det_refpoint(a), tr3 + rodrigues(ax, a) @ p3, atol=1e-12):
                    ctx.violation('Parallel3dAxisGeometry', 'scalar', 'det_refpoint!=documented-formula')
                if not np.allclose(g.rotation_matrix(a), rodrigues(ax, a), atol=1e-13):
                    ctx.violation('Parallel3dAxisGeometry', 'scalar', 'rotation_matrix!=documented-formula')
        except Exception as e:
            ctx.violation('Parallel3dAxisGeometry', 'scalar', 'raises:' + type(e).__name__, message=str(e)[:200])
        pe = rvec(rng, 3)
        ctx.ev('formula-model')
        try:
            ap2 = odl.uniform_partition([0, 0], [2 * np.pi, np.pi], (4, 3))
            ap3 = odl.uniform_partition([0, 0, 0], [2 * np.pi, np.pi, 2 * np.pi], (3, 2, 3))
            args = dict(det_pos_init=pe.copy(), translation=tr3.copy())
            keep = {k: v.copy() for k, v in args.items()}
            g2 = TOMO.Parallel3dEulerGeometry(ap2, d2, **args)
            if any(not np.array_equal(args[k], keep[k]) for k in args):
                ctx.violation('Parallel3dEulerGeometry', 'ctor', 'constructor-mutates-argument')
            g3 = TOMO.Parallel3dEulerGeometry(ap3, d2, det_pos_init=pe.copy(), translation=tr3.copy())
            for rep in range(3):
                a2 = (float(rng.uniform(0, 2 * np.pi)), float(rng.uniform(0, np.pi)))
                a3 = a2 + (float(rng.uniform(0, 2 * np.pi)),)
                if not np.allclose(g2.rotation_matrix(a2), euler_zxz(*a2), atol=1e-13):
                    ctx.violation('Parallel3dEulerGeometry', '2-angles', 'rotation_matrix!=documented-formula')
                if not np.allclose(g3.rotation_matrix(a3), euler_zxz(*a3), atol=1e-13):
                    ctx.violation('Parallel3dEulerGeometry', '3-angles', 'rotation_matrix!=documented-formula')
                if not np.allclose(g3.det_refpoint(a3), tr3 + euler_zxz(*a3) @ pe, atol=1e-12):
                    ctx.violation('Parallel3dEulerGeometry', '3-angles', 'det_refpoint!=documented-formula')
        except Exception as e:
            ctx.violation('Parallel3dEulerGeometry', 'scalar', 'raises:' + type(e).__name__, message=str(e)[:200])
    # --- all arguments defaulted: documented default vectors
    if ctx.shard == 0:
        ctx.ev('formula-model')
        ctx.case('formula;defaults', 0)
        try:
            g = TOMO.Parallel2dGeometry(apart1, d1)
            if not (np.allclose(g.det_pos_init, [0, 1]) and np.allclose(g.det_axis_init, [1, 0]) and np.allclose(g.translation, [0, 0])):
                ctx.violation('Parallel2dGeometry', 'defaults', 'default-vectors!=documented')
            g = TOMO.FanBeamGeometry(apart1, d1, 2, 3)
            if not (np.allclose(g.src_to_det_init, [0, 1]) and np.allclose(g.det_axis_init, [1, 0]) and
                    np.allclose(g.src_position(0), [0, -2]) and np.allclose(g.det_refpoint(0), [0, 3])):
                ctx.violation('FanBeamGeometry', 'defaults', 'default-vectors!=documented')
            g = TOMO.Parallel3dAxisGeometry(apart1, d2)
            if not (np.allclose(g.axis, [0, 0, 1]) and np.allclose(g.det_pos_init, [0, 1, 0]) and np.allclose(g.det_axes_init, [[1, 0, 0], [0, 0, 1]])):
                ctx.violation('Parallel3dAxisGeometry', 'defaults', 'default-vectors!=documented')
            g = TOMO.ConeBeamGeometry(apart1, d2, 2, 3)
            if not (np.allclose(g.axis, [0, 0, 1]) and np.allclose(g.src_to_det_init, [0, 1, 0]) and np.allclose(g.det_axes_init, [[1, 0, 0], [0, 0, 1]]) and
                    np.allclose(g.src_position(0), [0, -2, 0]) and np.allclose(g.det_refpoint(0), [0, 3, 0])):
                ctx.violation('ConeBeamGeometry', 'defaults', 'default-vectors!=documented')
            g = TOMO.Parallel3dEulerGeometry(odl.uniform_partition([0, 0], [2 * np.pi, np.pi], (4, 3)), d2)
            if not (np.allclose(g.det_pos_init, [0, 1, 0]) and np.allclose(g.det_axes_init, [[1, 0, 0], [0, 0, 1]])):
                ctx.violation('Parallel3dEulerGeometry', 'defaults', 'default-vectors!=documented')
        except Exception as e:
            ctx.violation('geometry', 'defaults', 'raises:' + type(e).__name__, message=str(e)[:200])


# ---------------------------------------------------------------------------------------------------------------
# relational invariants


def length_kind(v, k):
    """The same direction given with a length of another kind: vectors are documented as directions, and a vector that is
    *almost* of unit length (typed with 5 decimals, stored in single precision, scaled by 1 + 8e-6) is still not a unit vector."""
    v = np.asarray(v, dtype=float)
    u = v / np.linalg.norm(v)
    kind = k % 6
    if kind == 0:
        return v
    if kind == 1:
        return u
    if kind == 2:
        return np.round(u, 5)
    if kind == 3:
        return u.astype('float32').astype('float64')
    if kind == 4:
        return u * (1 + 8e-6)
    return u * (1 - 3e-9)


def orth_axes3(rng, v):
    a = np.cross(v, rng.normal(size=3))
    a /= np.linalg.norm(a)
    b = np.cross(v, a)
    b /= np.linalg.norm(b)
    return a, b


def geometry_recipes(rng, k):
    apart = odl.uniform_partition(0, 2 * np.pi, 7)
    dpart1 = odl.uniform_partition(-1.5, 2.0, 5)
    dpart2 = odl.uniform_partition([-1.5, -1], [2.0, 1.2], (5, 4))
    tr2 = rng.normal(size=2) if k % 2 else None
    tr3 = rng.normal(size=3) if k % 2 else None
    kw2 = {} if tr2 is None else {'translation': tr2}
    kw3 = {} if tr3 is None else {'translation': tr3}
    p = length_kind(rvec(rng, 2), k // 2)
    M = np.linalg.qr(rng.normal(size=(2, 2)))[0]
    ax = length_kind(rvec(rng, 3), k // 2)
    a, b = orth_axes3(rng, ax)
    M3 = np.linalg.qr(rng.normal(size=(3, 3)))[0]
    M3 = M3 * np.sign(np.linalg.det(M3))
    ap2 = odl.uniform_partition([0, 0], [2 * np.pi, np.pi], (4, 3))
    ap3 = odl.uniform_partition([0, 0, 0], [2 * np.pi, np.pi, 2 * np.pi], (3, 2, 3))
    sgn = rng.choice([-1, 1])
    tag = ';translated' if k % 2 else ''
    yield 'Parallel2dGeometry' + tag, lambda: TOMO.Parallel2dGeometry(apart, dpart1, det_pos_init=p.copy(), **kw2)
    yield 'Parallel2dGeometry/det_axis_init' + tag, lambda: TOMO.Parallel2dGeometry(apart, dpart1, det_pos_init=p.copy(), det_axis_init=np.array([-p[1], p[0]]) * sgn, **kw2)
    yield 'Parallel2dGeometry/frommatrix' + tag, lambda: TOMO.Parallel2dGeometry.frommatrix(apart, dpart1, np.hstack([M, rng.normal(size=(2, 1))]) if k % 2 else M)
    yield 'FanBeamGeometry' + tag, lambda: TOMO.FanBeamGeometry(apart, dpart1, src_radius=rng.uniform(0.5, 3), det_radius=rng.uniform(0.5, 3), src_to_det_init=rvec(rng, 2), **kw2)
    yield 'FanBeamGeometry/curved' + tag, lambda: TOMO.FanBeamGeometry(apart, odl.uniform_partition(-0.5, 0.6, 5), src_radius=2, det_radius=3, det_curvature_radius=5.0, src_to_det_init=rvec(rng, 2), **kw2)
    yield 'FanBeamGeometry/shift-functions' + tag, lambda: TOMO.FanBeamGeometry(apart, dpart1, src_radius=2, det_radius=3, src_to_det_init=rvec(rng, 2), src_shift_func=sfun2, det_shift_func=dfun2, **kw2)
    yield 'FanBeamGeometry/frommatrix' + tag, lambda: TOMO.FanBeamGeometry.frommatrix(apart, dpart1, 2, 3, np.hstack([M, rng.normal(size=(2, 1))]) if k % 2 else M)
    yield 'Parallel3dAxisGeometry' + tag, lambda: TOMO.Parallel3dAxisGeometry(apart, dpart2, axis=ax.copy(), **kw3)
    yield 'Parallel3dAxisGeometry/all-vectors' + tag, lambda: TOMO.Parallel3dAxisGeometry(apart, dpart2, axis=ax.copy(), det_pos_init=2 * a, det_axes_init=(b, ax / np.linalg.norm(ax)), **kw3)
    yield 'Parallel3dAxisGeometry/sheared-detector' + tag, lambda: TOMO.Parallel3dAxisGeometry(apart, dpart2, axis=ax.copy(), det_pos_init=2 * a, det_axes_init=(b, sheared(rng, b, ax)), **kw3)
    yield 'Parallel3dAxisGeometry/frommatrix' + tag, lambda: TOMO.Parallel3dAxisGeometry.frommatrix(apart, dpart2, np.hstack([M3, rng.normal(size=(3, 1))]) if k % 2 else M3)
    yield 'Parallel3dEulerGeometry/2-angles' + tag, lambda: TOMO.Parallel3dEulerGeometry(ap2, dpart2, det_pos_init=rvec(rng, 3), **kw3)
    yield 'Parallel3dEulerGeometry/3-angles' + tag, lambda: TOMO.Parallel3dEulerGeometry(ap3, dpart2, det_pos_init=rvec(rng, 3), **kw3)
    yield 'Parallel3dEulerGeometry/frommatrix' + tag, lambda: TOMO.Parallel3dEulerGeometry.frommatrix(ap2, dpart2, np.hstack([M3, rng.normal(size=(3, 1))]) if k % 2 else M3)
    yield 'ConeBeamGeometry' + tag, lambda: TOMO.ConeBeamGeometry(apart, dpart2, src_radius=2, det_radius=3, axis=ax.copy(), **kw3)
    yield 'ConeBeamGeometry/helical' + tag, lambda: TOMO.ConeBeamGeometry(odl.uniform_partition(0, 4 * np.pi, 9), dpart2, src_radius=2, det_radius=3, axis=ax.copy(), pitch=rng.uniform(-2, 2), offset_along_axis=rng.normal(), **kw3)
    yield 'ConeBeamGeometry/cylindrical' + tag, lambda: TOMO.ConeBeamGeometry(apart, odl.uniform_partition([-0.5, -1], [0.6, 1], (5, 4)), src_radius=2, det_radius=3, det_curvature_radius=(5.0, None), axis=ax.copy(), **kw3)
    yield 'ConeBeamGeometry/spherical' + tag, lambda: TOMO.ConeBeamGeometry(apart, odl.uniform_partition([-0.5, -0.4], [0.6, 0.4], (5, 4)), src_radius=2, det_radius=3, det_curvature_radius=(5.0, 5.0), axis=ax.copy(), **kw3)
    yield 'ConeBeamGeometry/frommatrix' + tag, lambda: TOMO.ConeBeamGeometry.frommatrix(apart, dpart2, 2, 3, np.hstack([M3, rng.normal(size=(3, 1))]) if k % 2 else M3)
    yield 'ConeBeamGeometry/shift-functions' + tag, lambda: TOMO.ConeBeamGeometry(apart, dpart2, src_radius=2, det_radius=3, axis=ax.copy(), src_shift_func=sfun3, det_shift_func=dfun3, **kw3)


def rand_m(g, rng):
    mp = g.motion_params
    if mp.ndim == 1:
        return float(rng.uniform(mp.min_pt[0], mp.max_pt[0]))
    return tuple(float(rng.uniform(a, b)) for a, b in zip(mp.min_pt, mp.max_pt))


def rand_d(g, rng):
    dp = g.det_params
    if dp.ndim == 1:
        return float(rng.uniform(dp.min_pt[0], dp.max_pt[0]))
    return tuple(float(rng.uniform(a, b)) for a, b in zip(dp.min_pt, dp.max_pt))


def run_relational(ctx):
    idx = 0
    for k in range(ctx.reps(12, 24)):
        rng_c = ctx.crng('geom-ctor', k)
        for name, thunk in geometry_recipes(rng_c, k):
            idx += 1
            if not ctx.mine(idx):
                continue
            rng = ctx.rng('geom', name, k)
            comp = name.split(';')[0]
            ctx.case('geometry;' + name, k)
            try:
                g = thunk()
            except Exception as e:
                ctx.ev('rigid-motion')
                ctx.violation(comp, 'ctor', 'raises:' + type(e).__name__, message=str(e)[:200])
                continue
            if idx % 13 == 0:
                ctx.sample({'geometry': name, 'repr': util.srepr(g, 200)})
            try:
                nd = g.ndim
                for rep in range(4):
                    m = rand_m(g, rng)
                    d = rand_d(g, rng)
                    ctx.ev('rigid-motion')
                    R = g.rotation_matrix(m)
                    if R.shape != (nd, nd) or not np.allclose(R @ R.T, np.eye(nd), atol=1e-12) or not np.isclose(np.linalg.det(R), 1, rtol=0, atol=1e-11):
                        ctx.violation(comp, 'scalar', 'rotation-not-in-SO(n)')
                    ref = g.det_refpoint(m)
                    surf = g.detector.surface(d)
                    pos = g.det_point_position(m, d)
                    if not np.allclose(pos, ref + R @ surf, atol=1e-12):
                        ctx.violation(comp, 'scalar', 'det_point_position!=refpoint+R.surface')
                    if hasattr(g, 'src_position'):
                        src = g.src_position(m)
                        v = g.det_to_src(m, d, normalized=False)
                        if not np.allclose(v, src - pos, atol=1e-12):
                            ctx.violation(comp, 'scalar', 'det_to_src!=src-position')
                        vn = g.det_to_src(m, d)
                        if not np.isclose(np.linalg.norm(vn), 1) or not np.allclose(vn * np.linalg.norm(v), v):
                            ctx.violation(comp, 'scalar', 'normalized-det_to_src')
                    else:
                        v1 = g.det_to_src(m, d)
                        v2 = g.det_to_src(m, rand_d(g, rng))
                        if not np.allclose(v1, v2, atol=1e-12) or not np.isclose(np.linalg.norm(v1), 1):
                            ctx.violation(comp, 'scalar', 'parallel-ray-direction-varies-or-not-unit')
                        axes = g.det_axis(m)[None] if nd == 2 else g.det_axes(m)
                        if not np.allclose(axes @ v1, 0, atol=1e-12):
                            ctx.violation(comp, 'scalar', 'ray-not-orthogonal-to-detector-axes')
                    axes = np.atleast_2d(g.det_axis(m)) if nd == 2 else np.asarray(g.det_axes(m))
                    if 'sheared' in name:
                        if not np.allclose(np.diag(axes @ axes.T), 1, atol=1e-12):
                            ctx.violation(comp, 'scalar', 'det-axes-not-unit')
                    elif not np.allclose(axes @ axes.T, np.eye(len(axes)), atol=1e-12):
                        ctx.violation(comp, 'scalar', 'det-axes-not-orthonormal')
                # vectorised == pointwise
                ms = [rand_m(g, rng) for _ in range(3)]
                ds = [rand_d(g, rng) for _ in range(2)]
                Mv = np.array(ms) if g.motion_params.ndim == 1 else tuple(np.array([mm[i] for mm in ms]) for i in range(g.motion_params.ndim))
                ctx.ev('vectorised')
                Rv = g.rotation_matrix(Mv)
                rv = g.det_refpoint(Mv)
                if Rv.shape != (3, nd, nd) or rv.shape != (3, nd):
                    ctx.violation(comp, 'array', 'shape', got=(Rv.shape, rv.shape))
                else:
                    for i, mm in enumerate(ms):
                        if not np.allclose(Rv[i], g.rotation_matrix(mm)):
                            ctx.violation(comp, 'array', 'rotation_matrix-value')
                        if not np.allclose(rv[i], g.det_refpoint(mm)):
                            ctx.violation(comp, 'array', 'det_refpoint-value')
                    if hasattr(g, 'src_position'):
                        sv = g.src_position(Mv)
                        if sv.shape != (3, nd) or not all(np.allclose(sv[i], g.src_position(mm)) for i, mm in enumerate(ms)):
                            ctx.violation(comp, 'array', 'src_position-value')
                    av = g.det_axis(Mv) if nd == 2 else g.det_axes(Mv)
                    for i, mm in enumerate(ms):
                        if not np.allclose(av[i], g.det_axis(mm) if nd == 2 else g.det_axes(mm)):
                            ctx.violation(comp, 'array', 'det_axes-value')
                Mb = np.array(ms)[:, None] if g.motion_params.ndim == 1 else tuple(np.array([mm[i] for mm in ms])[:, None] for i in range(g.motion_params.ndim))
                Db = np.array(ds)[None, :] if g.det_params.ndim == 1 else tuple(np.array([dd[i] for dd in ds])[None, :] for i in range(g.det_params.ndim))
                ctx.ev('vectorised')
                Pb = g.det_point_position(Mb, Db)
                if Pb.shape != (3, 2, nd):
                    ctx.violation(comp, 'broadcast', 'det_point_position-shape', got=Pb.shape)
                else:
                    for i, j in itertools.product(range(3), range(2)):
                        if not np.allclose(Pb[i, j], g.det_point_position(ms[i], ds[j])):
                            ctx.violation(comp, 'broadcast', 'det_point_position-value')
                            break
                V = g.det_to_src(Mb, Db)
                if V.shape != (3, 2, nd):
                    ctx.violation(comp, 'broadcast', 'det_to_src-shape', got=V.shape)
                else:
                    for i, j in itertools.product(range(3), range(2)):
                        if not np.allclose(V[i, j], g.det_to_src(ms[i], ds[j])):
                            ctx.violation(comp, 'broadcast', 'det_to_src-value')
                            break
                # documented output shape broadcast(mparam, dparam).shape + (ndim,) when exactly one of the two is a scalar and the
                # other an array - of length 1 (a single-angle slice, one detector pixel), of length 3, or 2-d
                if g.motion_params.ndim == 1:
                    ctx.ev('vectorised')
                    m0, d0 = ms[0], ds[0]
                    if g.det_params.ndim == 1:
                        darrs = [('dparam[1]', np.array([d0])), ('dparam[3]', np.array([d0, ds[1], d0])), ('dparam[1,1]', np.array([[d0]]))]
                    else:
                        darrs = [('dparam[1]', tuple(np.array([c_]) for c_ in d0)), ('dparam[3]', tuple(np.array([c_, c_, c_]) for c_ in d0)),
                                 ('dparam[1,1]', tuple(np.array([[c_]]) for c_ in d0))]
                    marrs = [('mparam[1]', np.array([m0])), ('mparam[3]', np.array(ms)), ('mparam[1,1]', np.array([[m0]]))]
                    for meth in ('det_point_position', 'det_to_src'):
                        f_ = getattr(g, meth)
                        base = np.asarray(f_(m0, d0))
                        for (tag, marr), (dtag, darr) in [(ma, ('scalar-dparam', d0)) for ma in marrs] + [(('scalar-mparam', m0), da) for da in darrs]:
                            try:
                                got = np.asarray(f_(marr, darr))
                            except Exception as e:
                                if '[1,1]' in tag + dtag:
                                    # one mechanism in the shared base-class code (operands of different numbers of array axes are
                                    # not brought to a common number before the einsum): reported once, not per geometry class
                                    ctx.violation('Geometry', 'scalar-with-2d-array;' + meth, 'raises:' + type(e).__name__, message=str(e)[:150])
                                else:
                                    ctx.violation(comp, 'one-scalar;' + meth, 'raises:' + type(e).__name__, form='%s,%s' % (tag, dtag), message=str(e)[:150])
                                continue
                            arr = marr if tag != 'scalar-mparam' else (darr if g.det_params.ndim == 1 else darr[0])
                            want_shape = np.shape(arr) + (nd,)
                            if got.shape != want_shape:
                                ctx.violation(comp, 'one-scalar;' + meth, 'shape', form='%s,%s' % (tag, dtag), got=got.shape, want=want_shape)
                            elif not np.allclose(got.reshape(-1, nd)[0], base, atol=1e-12):
                                ctx.violation(comp, 'one-scalar;' + meth, 'value', form='%s,%s' % (tag, dtag))
                # slicing
                if g.motion_params.ndim == 1:
                    ctx.ev('slicing/matrix')
                    for sl in (slice(2, 5), slice(0, 3), slice(4, None), slice(1, 6, 2)):
                        s = g[sl]
                        if len(s.angles) != len(g.angles[sl]) or not np.allclose(s.angles, g.angles[sl]):
                            ctx.violation(comp, 'slice', 'angles!=selected-angles')
                        for a in s.angles:
                            dd = rand_d(g, rng)
                            if not np.allclose(s.det_point_position(a, dd), g.det_point_position(a, dd), atol=1e-12):
                                ctx.violation(comp, 'slice', 'det_point_position-changes')
                                break
                            if hasattr(g, 'src_position') and not np.allclose(s.src_position(a), g.src_position(a), atol=1e-12):
                                ctx.violation(comp, 'slice', 'src_position-changes')
                                break
                            if not np.allclose(s.rotation_matrix(a), g.rotation_matrix(a), atol=1e-13):
                                ctx.violation(comp, 'slice', 'rotation_matrix-changes')
                                break
            except Exception as e:
                ctx.violation(comp, 'evaluation', 'raises:' + type(e).__name__, message=str(e)[:300])


def run_frommatrix(ctx):
    """frommatrix == geometry built from the transformed default vectors."""
    rng = ctx.rng('frommatrix')
    apart = odl.uniform_partition(0, 2 * np.pi, 7)
    d1 = odl.uniform_partition(-1.5, 2.0, 5)
    d2 = odl.uniform_partition([-1.5, -1], [2.0, 1.2], (5, 4))
    for rep in range(ctx.reps(4, 20)):
        if not ctx.mine(rep):
            continue
        ctx.ev('slicing/matrix')
        ctx.case('frommatrix', rep)
        try:
            th = rng.uniform(0, 2 * np.pi)
            M2 = rot2(th) * (1.0 if rep % 2 else 1.0)
            t2 = rng.normal(size=2)
            g = TOMO.Parallel2dGeometry.frommatrix(apart, d1, np.hstack([M2, t2[:, None]]))
            h = TOMO.Parallel2dGeometry(apart, d1, det_pos_init=M2 @ np.array([0, 1.0]), det_axis_init=M2 @ np.array([1.0, 0]), translation=t2)
            f = TOMO.FanBeamGeometry.frommatrix(apart, d1, 2, 3, np.hstack([M2, t2[:, None]]))
            fh = TOMO.FanBeamGeometry(apart, d1, 2, 3, src_to_det_init=M2 @ np.array([0, 1.0]), det_axis_init=M2 @ np.array([1.0, 0]), translation=t2)
            for a in rng.uniform(0, 2 * np.pi, size=3):
                for gg, hh, nm in ((g, h, 'Parallel2dGeometry'), (f, fh, 'FanBeamGeometry')):
                    if not np.allclose(gg.det_point_position(a, 0.4), hh.det_point_position(a, 0.4), atol=1e-12) or \
                            not np.allclose(gg.det_to_src(a, 0.4), hh.det_to_src(a, 0.4), atol=1e-12):
                        ctx.violation(nm + '/frommatrix', 'rotation+translation', 'differs-from-transformed-vectors')
            M3 = rodrigues(rvec(rng, 3, True), rng.uniform(0, np.pi))
            t3 = rng.normal(size=3)
            g = TOMO.Parallel3dAxisGeometry.frommatrix(apart, d2, np.hstack([M3, t3[:, None]]))
            h = TOMO.Parallel3dAxisGeometry(apart, d2, axis=M3 @ [0, 0, 1.0], det_pos_init=M3 @ [0, 1.0, 0],
                                            det_axes_init=(M3 @ [1.0, 0, 0], M3 @ [0, 0, 1.0]), translation=t3)
            c = TOMO.ConeBeamGeometry.frommatrix(apart, d2, 2, 3, np.hstack([M3, t3[:, None]]))
            ch = TOMO.ConeBeamGeometry(apart, d2, 2, 3, axis=M3 @ [0, 0, 1.0], src_to_det_init=M3 @ [0, 1.0, 0],
                                       det_axes_init=(M3 @ [1.0, 0, 0], M3 @ [0, 0, 1.0]), translation=t3)
            for a in rng.uniform(0, 2 * np.pi, size=3):
                for gg, hh, nm in ((g, h, 'Parallel3dAxisGeometry'), (c, ch, 'ConeBeamGeometry')):
                    if not np.allclose(gg.det_point_position(a, (0.4, -0.2)), hh.det_point_position(a, (0.4, -0.2)), atol=1e-12) or \
                            not np.allclose(gg.det_to_src(a, (0.4, -0.2)), hh.det_to_src(a, (0.4, -0.2)), atol=1e-12):
                        ctx.violation(nm + '/frommatrix', 'rotation+translation', 'differs-from-transformed-vectors')
        except Exception as e:
            ctx.violation('frommatrix', 'rotation+translation', 'raises:' + type(e).__name__, message=str(e)[:200])


def run_frommatrix_options(ctx):
    """Every keyword a frommatrix constructor accepts must reach the geometry: frommatrix(..., M, **kw) is the class built from
    the transformed default vectors with the same keywords - compared away from angle 0, where helical and shift terms
    vanish."""
    rng = ctx.rng('frommatrix-options')
    apart = odl.uniform_partition(0, 4 * np.pi, 9)
    d1 = odl.uniform_partition(-1.5, 2.0, 5)
    d2 = odl.uniform_partition([-1.5, -1], [2.0, 1.2], (5, 4))
    opts2 = [('default', {}), ('det_curvature_radius', {'det_curvature_radius': 7.0}), ('src_shift_func', {'src_shift_func': sfun2}),
             ('det_shift_func', {'det_shift_func': dfun2}), ('all', {'det_curvature_radius': 6.5, 'src_shift_func': sfun2, 'det_shift_func': dfun2})]
    opts3 = [('default', {}), ('pitch', {'pitch': 1.7}), ('pitch-negative', {'pitch': -0.6}), ('offset_along_axis', {'offset_along_axis': 0.8}),
             ('pitch+offset', {'pitch': 2.3, 'offset_along_axis': -0.4}), ('det_curvature_radius', {'det_curvature_radius': (7.0, None)}),
             ('det_curvature_radius-spherical', {'det_curvature_radius': (6.0, 6.0)}), ('src_shift_func', {'src_shift_func': sfun3}),
             ('det_shift_func', {'det_shift_func': dfun3}),
             ('all', {'pitch': 0.9, 'offset_along_axis': 0.3, 'det_curvature_radius': (8.0, None), 'src_shift_func': sfun3, 'det_shift_func': dfun3})]
    popts3 = [('default', {})]
    i = 0
    for rep in range(ctx.reps(1, 3)):
        th = rng.uniform(0, 2 * np.pi)
        M2 = rot2(th)
        t2 = rng.normal(size=2)
        M3 = rodrigues(rvec(rng, 3, True), rng.uniform(0.3, np.pi))
        t3 = rng.normal(size=3)
        plans = []
        for oname, kw in opts2:
            plans.append(('FanBeamGeometry', oname, kw, 2,
                          lambda kw: TOMO.FanBeamGeometry.frommatrix(apart, d1, 2, 3, np.hstack([M2, t2[:, None]]), **kw),
                          lambda kw: TOMO.FanBeamGeometry(apart, d1, 2, 3, src_to_det_init=M2 @ np.array([0, 1.0]), det_axis_init=M2 @ np.array([1.0, 0]),
                                                          translation=t2, **kw)))
        for oname, kw in opts3:
            plans.append(('ConeBeamGeometry', oname, kw, 3,
                          lambda kw: TOMO.ConeBeamGeometry.frommatrix(apart, d2, 2, 3, np.hstack([M3, t3[:, None]]), **kw),
                          lambda kw: TOMO.ConeBeamGeometry(apart, d2, 2, 3, axis=M3 @ [0, 0, 1.0], src_to_det_init=M3 @ [0, 1.0, 0],
                                                           det_axes_init=(M3 @ [1.0, 0, 0], M3 @ [0, 0, 1.0]), translation=t3, **kw)))
        for cname, oname, kw, nd, mk_m, mk_d in plans:
            i += 1
            if not ctx.mine(i):
                continue
            ctx.ev('slicing/matrix')
            ctx.case('frommatrix-options;%s;%s' % (cname, oname), rep)
            try:
                g, h = mk_m(kw), mk_d(kw)
                dp = 0.4 if nd == 2 else (0.4, -0.2)
                for a in list(rng.uniform(0.3, 4 * np.pi, size=3)):
                    for meth, args in (('src_position', (a,)), ('det_refpoint', (a,)), ('det_point_position', (a, dp)), ('det_to_src', (a, dp)),
                                       ('det_axes' if nd == 3 else 'det_axis', (a,))):
                        if not np.allclose(getattr(g, meth)(*args), getattr(h, meth)(*args), atol=1e-12):
                            ctx.violation(cname + '/frommatrix', 'option=' + oname, 'differs-from-transformed-vectors', method=meth, angle=float(a),
                                          got=np.asarray(getattr(g, meth)(*args)).ravel()[:3], ref=np.asarray(getattr(h, meth)(*args)).ravel()[:3])
                            raise StopIteration
                for attr in ('pitch', 'offset_along_axis', 'det_curvature_radius'):
                    if hasattr(h, attr) and not np.all(np.asarray(getattr(g, attr), dtype=object) == np.asarray(getattr(h, attr), dtype=object)):
                        ctx.violation(cname + '/frommatrix', 'option=' + oname, 'attribute-lost', attribute=attr, got=str(getattr(g, attr)), ref=str(getattr(h, attr)))
            except StopIteration:
                pass
            except Exception as e:
                ctx.violation(cname + '/frommatrix', 'option=' + oname, 'raises:' + type(e).__name__, message=str(e)[:200])


# ---------------------------------------------------------------------------------------------------------------
# detectors


def fdiff(f, p, h=1e-6):
    p = np.atleast_1d(np.asarray(p, float))
    if p.size == 1:
        return (np.asarray(f(p[0] + h)) - np.asarray(f(p[0] - h))) / (2 * h)
    out = []
    for i in range(p.size):
        e = np.zeros(p.size)
        e[i] = h
        out.append((np.asarray(f(tuple(p + e))) - np.asarray(f(tuple(p - e)))) / (2 * h))
    return np.stack(out)


def run_detector_alignment(ctx):
    """Documented: the detector is aligned with `axes` -- at parameter 0 the surface tangents point along +axes."""
    rng = ctx.rng('alignment')
    cases = [('axis-aligned', [(1, 0, 0), (0, 0, 1)]), ('axis-aligned', [(0, 1, 0), (0, 0, 1)]), ('axis-aligned', [(0, -1, 0), (0, 0, -1)]),
             ('axis-aligned', [(0, -1, 0), (0, 0, 1)]), ('axis-aligned', [(0, 0, 1), (1, 0, 0)]), ('axis-aligned', [(-1, 0, 0), (0, 1, 0)])]
    for _ in range(ctx.reps(6, 30)):
        a = rvec(rng, 3, True)
        b = np.cross(a, rvec(rng, 3, True))
        b /= np.linalg.norm(b)
        cases.append(('generic', [a, b]))
    # the same orientations given as perpendicular vectors of other lengths: documented as directions, so length must not matter
    for kind, axes in list(cases):
        cases.append((kind + ';non-unit', [np.asarray(axes[0], float) * rng.uniform(1.5, 4), np.asarray(axes[1], float) * rng.uniform(0.2, 0.7)]))
    part2 = odl.uniform_partition([-1, -1], [1, 1], (4, 5))
    for i, (kind, axes) in enumerate(cases):
        if not ctx.mine(i):
            continue
        for nm, mk in (('Flat2dDetector', lambda: D.Flat2dDetector(part2, axes)),
                       ('CylindricalDetector', lambda: D.CylindricalDetector(part2, axes, 3.0)),
                       ('SphericalDetector', lambda: D.SphericalDetector(part2, axes, 3.0))):
            ctx.ev('detectors')
            ctx.case('detector-alignment;' + nm, i)
            try:
                det = mk()
                dv = np.asarray(det.surface_deriv((0.0, 0.0)))
                for k in (0, 1):
                    t = dv[k] / np.linalg.norm(dv[k])
                    if not np.allclose(t, np.asarray(axes[k], float) / np.linalg.norm(axes[k]), atol=1e-9):
                        ctx.violation(nm, 'alignment;' + kind, 'tangent-at-0-not-along-axis', axis=k, axes=axes, tangent=t)
                        break
                if not np.allclose(det.surface((0.0, 0.0)), 0, atol=1e-12):
                    ctx.violation(nm, 'alignment;' + kind, 'surface(0)!=origin')
                if kind.endswith('non-unit'):
                    unit = [np.asarray(a_, float) / np.linalg.norm(a_) for a_ in axes]
                    det1 = {'Flat2dDetector': lambda: D.Flat2dDetector(part2, unit), 'CylindricalDetector': lambda: D.CylindricalDetector(part2, unit, 3.0),
                            'SphericalDetector': lambda: D.SphericalDetector(part2, unit, 3.0)}[nm]()
                    for prm in ((0.3, -0.4), (-0.9, 0.8), (1.0, 1.0)):
                        if not np.allclose(det.surface(prm), det1.surface(prm), atol=1e-10) or \
                                not np.allclose(det.surface_deriv(prm), det1.surface_deriv(prm), atol=1e-10):
                            ctx.violation(nm, 'alignment;' + kind, 'surface-depends-on-the-length-of-the-axes', param=prm,
                                          got=np.asarray(det.surface(prm)), ref=np.asarray(det1.surface(prm)))
                            break
            except Exception as e:
                ctx.violation(nm, 'alignment;' + kind, 'raises:' + type(e).__name__, message=str(e)[:200])
    part1 = odl.uniform_partition(-1, 1, 5)
    for i, ax in enumerate([(1, 0), (0, 1), (-1, 0), (0, -1), tuple(rvec(rng, 2, True))]):
        for nm, mk in (('Flat1dDetector', lambda: D.Flat1dDetector(part1, ax)), ('CircularDetector', lambda: D.CircularDetector(part1, ax, 3.0))):
            ctx.ev('detectors')
            try:
                det = mk()
                t = np.asarray(det.surface_deriv(0.0))
                t = t / np.linalg.norm(t)
                if not np.allclose(t, np.asarray(ax, float), atol=1e-9) or not np.allclose(det.surface(0.0), 0, atol=1e-12):
                    ctx.violation(nm, 'alignment', 'tangent-at-0-not-along-axis', axis=ax, tangent=t)
            except Exception as e:
                ctx.violation(nm, 'alignment', 'raises:' + type(e).__name__, message=str(e)[:200])


def run_astra_vectors(ctx):
    """The ASTRA vector conversions are plain NumPy (no ASTRA needed): every row must describe the same acquisition as the
    geometry it was made from, in the documented format - source (or ray direction), detector *centre* d, pixel-to-pixel
    vectors u (, v) - i.e. pixel (j[, k]) reconstructed as d + (j - (n-1)/2) u [+ ...] is the geometry's own position
    of that detector grid point, under the documented coordinate conventions (2d: rotation by -90 degrees; 3d: (z, y, x)
    order, u and v swapped)."""
    try:
        from odl.tomo.backends.astra_setup import (astra_conebeam_2d_geom_to_vec, astra_conebeam_3d_geom_to_vec,
                                                   astra_parallel_3d_geom_to_vec)
    except Exception as e:
        ctx.note('astra_vectors', 'not importable: %s' % type(e).__name__)
        return
    rng = ctx.rng('astra-vectors')
    R90 = np.array([[0.0, 1.0], [-1.0, 0.0]])      # rotation by -90 degrees
    for it in range(ctx.reps(6, 30)):
        if not ctx.mine(it):
            continue
        apart = odl.uniform_partition(0, 2 * np.pi, 5)
        lo = float(rng.uniform(-2.0, -0.2))
        hi = lo + float(rng.uniform(0.5, 3.0))         # detector ranges that are NOT symmetric around 0
        n1 = int(rng.integers(2, 7))
        d1 = odl.uniform_partition(lo, hi, n1)
        lo2 = rng.uniform(-2.0, -0.2, size=2)
        hi2 = lo2 + rng.uniform(0.5, 3.0, size=2)
        n2 = tuple(int(k) for k in rng.integers(2, 6, size=2))
        d2 = odl.uniform_partition(lo2, hi2, n2)
        tr2 = rng.normal(size=2) if it % 2 else None
        tr3 = rng.normal(size=3) if it % 2 else None
        kw2 = {} if tr2 is None else {'translation': tr2}
        kw3 = {} if tr3 is None else {'translation': tr3}
        geoms = [('FanBeamGeometry', lambda: TOMO.FanBeamGeometry(apart, d1, src_radius=rng.uniform(1, 3), det_radius=rng.uniform(1, 3),
                                                                 src_to_det_init=rvec(rng, 2), **kw2), astra_conebeam_2d_geom_to_vec, 2),
                 ('FanBeamGeometry/sliced', lambda: TOMO.FanBeamGeometry(apart, odl.uniform_partition(-1.5, 1.5, 8), 2, 3)[1:4, 5:], astra_conebeam_2d_geom_to_vec, 2),
                 ('ConeBeamGeometry', lambda: TOMO.ConeBeamGeometry(apart, d2, src_radius=2, det_radius=3, axis=rvec(rng, 3), **kw3), astra_conebeam_3d_geom_to_vec, 3),
                 ('ConeBeamGeometry/helical', lambda: TOMO.ConeBeamGeometry(odl.uniform_partition(0, 4 * np.pi, 6), d2, src_radius=2, det_radius=3,
                                                                           pitch=rng.uniform(-2, 2), **kw3), astra_conebeam_3d_geom_to_vec, 3),
                 ('Parallel3dAxisGeometry', lambda: TOMO.Parallel3dAxisGeometry(apart, d2, axis=rvec(rng, 3), **kw3), astra_parallel_3d_geom_to_vec, 3)]
        for name, mk, conv, nd in geoms:
            ctx.ev('astra-vectors')
            ctx.case('astra-vectors;' + name, it)
            comp = conv.__name__
            cfg = name
            try:
                g = mk()
                V = conv(g)
            except Exception as e:
                ctx.violation(comp, cfg, 'raises:' + type(e).__name__, message=str(e)[:200])
                continue
            try:
                angles = g.angles
                grid = g.det_partition.grid
                if V.shape != (len(angles), 6 if nd == 2 else 12):
                    ctx.violation(comp, cfg, 'shape', got=V.shape)
                    continue
                bad = None
                for i, a in enumerate(angles):
                    if nd == 2:
                        src, d, u = V[i, 0:2], V[i, 2:4], V[i, 4:6]
                        if not np.allclose(src, R90 @ g.src_position(a), atol=1e-10):
                            bad = 'source'
                        cv = grid.coord_vectors[0]
                        for j in (0, len(cv) - 1, len(cv) // 2):
                            pos = d + (j - (len(cv) - 1) / 2.0) * u
                            if not np.allclose(pos, R90 @ g.det_point_position(a, cv[j]), atol=1e-10):
                                bad = 'pixel-position'
                    else:
                        T = [V[i, 3 * k:3 * k + 3][::-1] for k in range(4)]     # back to (x, y, z)
                        first, d, u, v = T
                        mid = g.det_params.mid_pt
                        if conv is astra_parallel_3d_geom_to_vec:
                            if not np.allclose(first, -g.det_to_src(a, mid), atol=1e-10):
                                bad = 'ray-direction'
                        elif not np.allclose(first, g.src_position(a), atol=1e-10):
                            bad = 'source'
                        c0, c1 = grid.coord_vectors
                        for j, k in ((0, 0), (len(c0) - 1, 0), (0, len(c1) - 1), (len(c0) - 1, len(c1) - 1)):
                            # u = ODL detector axis 1 (pixel (0,0)->(0,1)), v = ODL detector axis 0
                            pos = d + (j - (len(c0) - 1) / 2.0) * v + (k - (len(c1) - 1) / 2.0) * u
                            if not np.allclose(pos, g.det_point_position(a, (c0[j], c1[k])), atol=1e-10):
                                bad = 'pixel-position'
                    if bad:
                        break
                if bad:
                    ctx.violation(comp, cfg, 'vectors-do-not-describe-the-geometry:' + bad)
            except Exception as e:
                ctx.violation(comp, cfg, 'raises:' + type(e).__name__, message=str(e)[:200], probe='reconstruction')


def sheared(rng, a, b):
    """Unit vector at 30..80 degrees to the unit vector ``a`` in the plane of (a, b): flat 2d detectors only require
    linearly independent axes."""
    t = np.deg2rad(rng.uniform(30, 80)) * rng.choice([-1, 1])
    a = np.asarray(a, dtype=float) / np.linalg.norm(a)
    return np.cos(t) * a + np.sin(t) * np.asarray(b, dtype=float) / np.linalg.norm(b)


def run_detectors(ctx):
    rng = ctx.rng('detectors')
    for it in range(ctx.reps(10, 60)):
        if not ctx.mine(it):
            continue
        a2 = rvec(rng, 2, True)
        ax3 = rvec(rng, 3, True)
        b3 = np.cross(ax3, rvec(rng, 3, True))
        b3 /= np.linalg.norm(b3)
        specs = [('Flat1dDetector', lambda: D.Flat1dDetector(odl.uniform_partition(-1, 1, 5), a2)),
                 ('Flat2dDetector', lambda: D.Flat2dDetector(odl.uniform_partition([-1, -1], [1, 1], (4, 5)), [ax3, b3])),
                 ('Flat2dDetector', lambda: D.Flat2dDetector(odl.uniform_partition([-1, -1], [1, 1], (4, 5)), [ax3, sheared(rng, ax3, b3)])),
                 ('CircularDetector', lambda: D.CircularDetector(odl.uniform_partition(-1, 1, 5), a2, rng.uniform(1.5, 4))),
                 ('CylindricalDetector', lambda: D.CylindricalDetector(odl.uniform_partition([-1, -1], [1, 1], (4, 5)), [ax3, b3], rng.uniform(1.5, 4))),
                 ('SphericalDetector', lambda: D.SphericalDetector(odl.uniform_partition([-1, -1], [1, 1], (4, 5)), [ax3, b3], rng.uniform(1.5, 4)))]
        for nm, mk in specs:
            ctx.ev('detectors')
            ctx.case('detector;' + nm, it)
            try:
                det = mk()
            except Exception as e:
                ctx.violation(nm, 'ctor;generic-perpendicular-axes', 'raises:' + type(e).__name__, message=str(e)[:200])
                continue
            try:
                p = rng.uniform(-0.9, 0.9) if det.ndim == 1 else tuple(rng.uniform(-0.9, 0.9, size=2))
                d = np.asarray(det.surface_deriv(p))
                g = fdiff(det.surface, p)
                if not np.allclose(d, g, atol=1e-7):
                    ctx.violation(nm, 'scalar', 'surface_deriv!=central-differences')
                try:
                    m = det.surface_measure(p)
                    ref = np.linalg.norm(g) if det.ndim == 1 else np.linalg.norm(np.cross(g[0], g[1]))
                    if not np.allclose(m, ref, atol=1e-6):
                        ctx.violation(nm, 'scalar', 'surface_measure')
                except NotImplementedError:
                    pass
                # vectorised measure: entry by entry the scalar values, documented shape (param.shape for curves, the broadcast
                # shape of the two parameter arrays for surfaces)
                try:
                    if det.ndim == 1:
                        pa = rng.uniform(-0.9, 0.9, size=(2, 3))
                        ma = np.asarray(det.surface_measure(pa))
                        refm = np.array([[det.surface_measure(float(q)) for q in row] for row in pa])
                        want_shape = pa.shape
                    else:
                        p0, p1 = rng.uniform(-0.9, 0.9, size=(3, 1)), rng.uniform(-0.9, 0.9, size=(1, 2))
                        ma = np.asarray(det.surface_measure((p0, p1)))
                        refm = np.array([[det.surface_measure((float(a_), float(b_))) for b_ in p1[0]] for a_ in p0[:, 0]])
                        want_shape = (3, 2)
                    if ma.shape != want_shape:
                        ctx.violation(nm, 'array', 'surface_measure-shape', got=ma.shape, want=want_shape)
                    elif not np.allclose(ma, refm, atol=1e-12):
                        ctx.violation(nm, 'array', 'surface_measure-vectorised!=scalar')
                except NotImplementedError:
                    pass
                try:
                    nrm = det.surface_normal(p)
                    gg = np.atleast_2d(g)
                    if not np.allclose(gg @ nrm, 0, atol=1e-6) or abs(np.linalg.norm(nrm) - 1) > 1e-9:
                        ctx.violation(nm, 'scalar', 'surface_normal')
                except NotImplementedError:
                    pass
                if det.ndim == 1:
                    ps = rng.uniform(-.9, .9, size=(2, 3))
                    Sv = det.surface(ps)
                    Dv = det.surface_deriv(ps)
                    if Sv.shape != (2, 3, 2) or Dv.shape != (2, 3, 2):
                        ctx.violation(nm, 'array', 'shape', got=(Sv.shape, Dv.shape))
                    else:
                        for i in np.ndindex(2, 3):
                            if not np.allclose(Sv[i], det.surface(ps[i])) or not np.allclose(Dv[i], det.surface_deriv(ps[i])):
                                ctx.violation(nm, 'array', 'value')
                                break
                else:
                    u = rng.uniform(-.9, .9, size=(3, 1))
                    v = rng.uniform(-.9, .9, size=(1, 2))
                    Sv = det.surface((u, v))
                    Dv = det.surface_deriv((u, v))
                    if Sv.shape != (3, 2, 3) or Dv.shape != (3, 2, 2, 3):
                        ctx.violation(nm, 'broadcast', 'shape', got=(Sv.shape, Dv.shape))
                    else:
                        for i, j in np.ndindex(3, 2):
                            if not np.allclose(Sv[i, j], det.surface((u[i, 0], v[0, j]))) or not np.allclose(Dv[i, j], det.surface_deriv((u[i, 0], v[0, j]))):
                                ctx.violation(nm, 'broadcast', 'value')
                                break
                    # same-shape arrays
                    uu = rng.uniform(-.9, .9, size=4)
                    vv = rng.uniform(-.9, .9, size=4)
                    S2 = det.surface((uu, vv))
                    if S2.shape != (4, 3) or not all(np.allclose(S2[i], det.surface((uu[i], vv[i]))) for i in range(4)):
                        ctx.violation(nm, 'array', 'value')
            except Exception as e:
                ctx.violation(nm, 'evaluation', 'raises:' + type(e).__name__, message=str(e)[:200])


# ---------------------------------------------------------------------------------------------------------------
# factories


def overshoot_parallel(space, g):
    worst = 0.0
    corners = space.domain.corners()
    lo, hi = np.atleast_1d(g.det_params.min_pt), np.atleast_1d(g.det_params.max_pt)
    for a in g.angles:
        ref = g.det_refpoint(a)
        axes = np.atleast_2d(g.det_axes(a)) if g.ndim == 3 else np.atleast_2d(g.det_axis(a))
        for c in corners:
            u = axes @ (c - ref)
            worst = max(worst, float(np.max(np.maximum((lo - u) / (hi - lo) * 2, (u - hi) / (hi - lo) * 2))))
    return worst


def overshoot_div(space, g, transaxial_only=False, axial_only=False):
    """Largest relative overshoot (in units of the detector half-width) of a projected volume corner; <= 0 = covered."""
    worst = -np.inf
    corners = space.domain.corners()
    lo, hi = np.atleast_1d(g.det_params.min_pt), np.atleast_1d(g.det_params.max_pt)
    for a in g.angles:
        s = g.src_position(a)
        ref = g.det_refpoint(a)
        axes = np.atleast_2d(g.det_axes(a)) if g.ndim == 3 else np.atleast_2d(g.det_axis(a))
        nrm = np.cross(axes[0], axes[1]) if g.ndim == 3 else np.array([-axes[0][1], axes[0][0]])
        for c in corners:
            dvec = c - s
            t = nrm @ (ref - s) / (nrm @ dvec)
            if t <= 0:
                return np.inf
            u = axes @ (s + t * dvec - ref)
            half = (hi - lo) / 2
            mid = (hi + lo) / 2
            rel = (np.abs(u - mid) - half) / half
            if transaxial_only:
                rel = rel[:1]
            if axial_only:
                rel = rel[1:]
            worst = max(worst, float(np.max(rel)))
    return worst


def run_factories(ctx):
    rng = ctx.rng('factories')
    for it in range(ctx.reps(16, 80)):
        if not ctx.mine(it):
            continue
        nd = 2 + it % 2
        lo = rng.uniform(-3, 0, size=nd)
        hi = lo + rng.uniform(0.5, 4, size=nd)
        if nd == 3:
            # z-range kinds: straddling the source plane either way, entirely below it, entirely above it
            zk = (it // 2) % 4
            zlo = [-rng.uniform(2, 3), -rng.uniform(0.2, 0.8), -rng.uniform(2, 3), rng.uniform(0.2, 1.0)][zk]
            zhi = [rng.uniform(0.2, 0.8), rng.uniform(2, 3), zlo + rng.uniform(0.5, 1.2), 0][zk]
            if zk == 3:
                zhi = zlo + rng.uniform(0.5, 2)
            lo[2], hi[2] = zlo, zhi
        shape = tuple(int(s) for s in rng.integers(3, 9, size=nd))
        sp = odl.uniform_discr(lo, hi, shape)
        ctx.case('factory;%dd' % nd, it)
        rho = float(np.max(np.linalg.norm(sp.domain.corners()[:, :2], axis=1)))
        try:
            ctx.ev('factories')
            g = TOMO.parallel_beam_geometry(sp, num_angles=7)
            if overshoot_parallel(sp, g) > 1e-9:
                ctx.violation('parallel_beam_geometry', '%dd' % nd, 'volume-not-covered')
            gd = TOMO.parallel_beam_geometry(sp)
            if overshoot_parallel(sp, gd) > 1e-9:
                ctx.violation('parallel_beam_geometry', '%dd;defaults' % nd, 'volume-not-covered')
            sr = rho * rng.uniform(1.5, 4)
            dr = rho * rng.uniform(0.5, 4)
            # option paths of the helper: given / default number of angles and detector shape, short scan; the relations do not
            # depend on them, and a given detector shape is the shape of the detector partition
            ds_given = (int(rng.integers(3, 12)) if nd == 2 else [int(rng.integers(3, 12)), int(rng.integers(2, 9))])
            for vname, kw in (('num_angles', dict(num_angles=7)), ('defaults', {}), ('short_scan', dict(short_scan=True, num_angles=6)),
                              ('det_shape', dict(det_shape=ds_given, num_angles=5))):
                ctx.ev('factories')
                ctx.case('factory;%dd;cone' % nd, vname)
                g = TOMO.cone_beam_geometry(sp, sr, dr, **kw)
                if 'det_shape' in kw and tuple(np.atleast_1d(g.det_partition.shape)) != tuple(np.atleast_1d(ds_given)):
                    ctx.violation('cone_beam_geometry', '%dd;det_shape-given' % nd, 'option-not-respected', got=tuple(g.det_partition.shape), want=ds_given)
                if 'num_angles' in kw and g.motion_partition.shape[0] != kw['num_angles']:
                    ctx.violation('cone_beam_geometry', '%dd;num_angles-given' % nd, 'option-not-respected', got=int(g.motion_partition.shape[0]), want=kw['num_angles'])
                ov = overshoot_div(sp, g, transaxial_only=True)
                bound = sr / np.sqrt(sr ** 2 - rho ** 2) - 1 + 1e-9     # documented tan-vs-sin slack (known finding)
                name = 'cone_beam_geometry'
                if ov > bound:
                    ctx.violation(name, '%dd' % nd, 'volume-not-covered-beyond-known-bound', overshoot=ov, bound=bound)
                elif ov > 1e-9:
                    ctx.violation(name, '%dd' % nd, 'volume-not-covered(tangent-ray:tan-for-sin)', overshoot=ov, bound=bound)
                if nd == 3:
                    ova = overshoot_div(sp, g, axial_only=True)
                    if ova > 1e-9:
                        ctx.violation(name, '3d;axial', 'volume-not-covered-axially', overshoot=ova)
                # level (ii): extent at least the documented width 2 rho (rs + rd) / rs
                w = g.det_params.extent[0] if nd == 3 else g.det_params.extent
                w = float(np.atleast_1d(w)[0])
                if w < 2 * rho * (sr + dr) / sr * (1 - 1e-9):
                    ctx.violation(name, '%dd' % nd, 'detector-narrower-than-documented-width', width=w, documented=2 * rho * (sr + dr) / sr)
                if nd == 3:
                    # level (ii) for the height (the axial under-coverage is a listed finding: sin for tan of the half cone angle):
                    # at least the documented height 2 sin(atan(max(|z_min|, |z_max|) / (rs - rho))) (rs + rd), for volumes that reach
                    # further below the source plane than above it, lie entirely on one side of it, or straddle it
                    zabs = max(abs(float(sp.min_pt[2])), abs(float(sp.max_pt[2])))
                    hdoc = 2 * np.sin(np.arctan(zabs / (sr - rho))) * (sr + dr)
                    hgot = float(g.det_params.extent[1])
                    if hgot < hdoc * (1 - 1e-9):
                        ctx.violation(name, '3d;axial', 'detector-lower-than-documented-height', height=hgot, documented=float(hdoc), z=(float(sp.min_pt[2]), float(sp.max_pt[2])))
            if nd == 3:
              for hkw in (dict(num_turns=2, n_pi=1, num_angles=9), dict(num_turns=1.5), dict(num_turns=1, n_pi=3, num_angles=8)):
                  ctx.ev('factories')
                  g = TOMO.helical_geometry(sp, sr, dr, **hkw)
                  ov = overshoot_div(sp, g, transaxial_only=True)
                  if ov > bound:
                      ctx.violation('helical_geometry', '3d', 'volume-not-covered-beyond-known-bound', overshoot=ov, bound=bound)
                  elif ov > 1e-9:
                      ctx.violation('helical_geometry', '3d', 'volume-not-covered(tangent-ray:tan-for-sin)', overshoot=ov, bound=bound)
                  w = float(g.det_params.extent[0])
                  if w < 2 * rho * (sr + dr) / sr * (1 - 1e-9):
                      ctx.violation('helical_geometry', '3d', 'detector-narrower-than-documented-width')
        except Exception as e:
            ctx.violation('geometry-factory', '%dd' % nd, 'raises:' + type(e).__name__, message=str(e)[:200])


# ---------------------------------------------------------------------------------------------------------------
# utilities


def run_utilities(ctx):
    rng = ctx.rng('util')
    for rep in range(ctx.reps(40, 400)):
        if not ctx.mine(rep):
            continue
        ctx.ev('utilities')
        ctx.case('utilities', rep)
        try:
            ang = rng.uniform(-2 * np.pi, 2 * np.pi, size=3)
            for k in (2, 3):
                M = U.euler_matrix(*ang[:k]) if k == 3 else U.euler_matrix(ang[0], ang[1])
                ref = euler_zxz(ang[0], ang[1], ang[2] if k == 3 else 0.0)
                if not np.allclose(M, ref, atol=1e-13):
                    ctx.violation('euler_matrix', '%d-angles' % k, 'value!=ZXZ-product')
            Mn = U.euler_matrix(ang[0], None, ang[2])       # a missing middle angle counts as zero
            if np.shape(Mn) != (3, 3) or not np.allclose(Mn, euler_zxz(ang[0], 0.0, ang[2]), atol=1e-13):
                ctx.violation('euler_matrix', 'theta=None', 'value!=ZXZ-product')
            M1 = U.euler_matrix(ang[0])
            if not np.allclose(M1, rot2(ang[0]), atol=1e-13):
                ctx.violation('euler_matrix', '1-angle', 'value!=2d-rotation')
            Mv = U.euler_matrix(ang[:2], ang[1:3])
            if Mv.shape != (2, 3, 3) or not np.allclose(Mv[1], euler_zxz(ang[1], ang[2]), atol=1e-13):
                ctx.violation('euler_matrix', 'array', 'vectorised-value')
            ax = rvec(rng, 3, True)      # documented: assumed to be a unit vector
            Mr = U.axis_rotation_matrix(ax, ang[0])
            if not np.allclose(Mr, rodrigues(ax, ang[0]), atol=1e-13):
                ctx.violation('axis_rotation_matrix', 'scalar', 'value!=Rodrigues')
            v = rng.normal(size=3)
            if not np.allclose(U.axis_rotation(ax, ang[0], v), rodrigues(ax, ang[0]) @ v, atol=1e-12):
                ctx.violation('axis_rotation', 'scalar', 'value!=Rodrigues')
            # several vectors in bulk, with and without a shifted rotation centre (a shift along the axis does not matter)
            V = rng.normal(size=(4, 3))
            shift = rng.normal(size=3)
            Rm = rodrigues(ax, ang[0])
            bulk = np.asarray(U.axis_rotation(ax, ang[0], V))
            if bulk.shape != (4, 3) or not np.allclose(bulk, V @ Rm.T, atol=1e-12):
                ctx.violation('axis_rotation', 'bulk', 'value!=Rodrigues')
            bulk_s = np.asarray(U.axis_rotation(ax, ang[0], V, axis_shift=shift))
            if bulk_s.shape != (4, 3) or not np.allclose(bulk_s, (V - shift) @ Rm.T + shift, atol=1e-12):
                ctx.violation('axis_rotation', 'bulk;shifted-centre', 'value!=Rodrigues-about-the-shifted-axis')
            if not np.allclose(np.asarray(U.axis_rotation(ax, ang[0], V, axis_shift=shift + 2.3 * ax)), bulk_s, atol=1e-12):
                ctx.violation('axis_rotation', 'bulk;shifted-centre', 'shift-along-the-axis-matters')
            for d in (2, 3):
                f = rvec(rng, d)
                kind = rep % 5
                if kind == 4:
                    # exactly perpendicular (dot product exactly zero): integer vectors, both senses of rotation
                    a_, b_ = [int(v) for v in rng.integers(1, 6, size=2)]
                    f = np.array([a_, b_, 0][:d], dtype=float) * [1.0, -1.0][int(rng.integers(0, 2))]
                    t = np.array([-b_, a_, 0][:d], dtype=float) * [1.0, -1.0, 2.5][int(rng.integers(0, 3))]
                elif kind == 0:
                    t = rvec(rng, d)
                elif kind == 1:
                    t = f * 1.7 + 1e-9 * rng.normal(size=d)     # nearly collinear
                elif kind == 2:
                    t = -f * 0.6 + (1e-9 * rng.normal(size=d) if d == 3 else 0)   # nearly opposite
                else:
                    t = f.copy()
                R = U.rotation_matrix_from_to(f, t)
                cfgk = ['generic', 'nearly-collinear', 'nearly-opposite', 'identical', 'exactly-perpendicular'][kind]
                if not np.all(np.isfinite(R)):
                    ctx.violation('rotation_matrix_from_to', '%dd;%s' % (d, cfgk), 'not-finite')
                    continue
                if not np.allclose(R @ R.T, np.eye(d), atol=1e-9) or not np.isclose(np.linalg.det(R), 1, atol=1e-9):
                    ctx.violation('rotation_matrix_from_to', '%dd;%s' % (d, cfgk), 'rotation-not-in-SO(n)')
                if not np.allclose(R @ (f / np.linalg.norm(f)), t / np.linalg.norm(t), atol=1e-6):
                    ctx.violation('rotation_matrix_from_to', '%dd;%s' % (d, cfgk), 'does-not-map-from-to')
            w = rvec(rng, 3)
            pv = U.perpendicular_vector(w)
            if abs(np.dot(pv, w)) > 1e-12 or not np.isclose(np.linalg.norm(pv), 1):
                ctx.violation('perpendicular_vector', '3d', 'not-perpendicular-unit')
        except Exception as e:
            ctx.violation('tomo.util', 'evaluation', 'raises:' + type(e).__name__, message=str(e)[:200])


def run(ctx):
    ctx.note('rule', 'one case = one seeded geometry / detector / factory volume / utility input; geometry classes x detector '
                     'kinds x {translation, shift functions, init matrices, helical pitch} are enumerated, the seed varies vectors, '
                     'angles and detector parameters (incl. sheared flat detectors and axis-aligned curved ones); evaluation forms {scalar, '
                     'array, broadcast}; distinct = distinct case keys')
    ctx.note('not_executable', 'astra_setup: only the *_geom_to_vec conversions are plain NumPy; everything that builds ASTRA objects needs ASTRA, which is not installed')
    from odl.tomo.geometry import geometry as G, parallel as Pm, conebeam as Cm
    cov = cover.Cover()
    for mod, names in ((G, ('Geometry', 'DivergentBeamGeometry', 'AxisOrientedGeometry')),
                       (Pm, ('ParallelBeamGeometry', 'Parallel2dGeometry', 'Parallel3dEulerGeometry', 'Parallel3dAxisGeometry')),
                       (Cm, ('FanBeamGeometry', 'ConeBeamGeometry')),
                       (D, ('Flat1dDetector', 'Flat2dDetector', 'CircularDetector', 'CylindricalDetector', 'SphericalDetector'))):
        for cn in names:
            c = getattr(mod, cn, None)
            if c is None:
                continue
            for m in ('rotation_matrix', 'det_refpoint', 'src_position', 'det_axes', 'det_axis', 'det_to_src', 'det_point_position', 'frommatrix',
                      '__getitem__', 'surface', 'surface_deriv', 'surface_normal', 'surface_measure', 'angles_from_matrix'):
                if m in vars(c):
                    cov.add(vars(c)[m], '%s.%s' % (cn, m))
    for fn in ('parallel_beam_geometry', 'cone_beam_geometry', 'helical_geometry'):
        cov.add(getattr(Pm, fn, None) or getattr(Cm, fn, None), fn)
    for fn in ('euler_matrix', 'axis_rotation', 'axis_rotation_matrix', 'rotation_matrix_from_to', 'transform_system', 'perpendicular_vector', 'is_inside_bounds'):
        cov.add(getattr(U, fn, None), fn)
    cov.arm()
    run_formula(ctx)
    run_relational(ctx)
    run_frommatrix(ctx)
    run_frommatrix_options(ctx)
    run_detectors(ctx)
    run_detector_alignment(ctx)
    run_astra_vectors(ctx)
    run_factories(ctx)
    run_utilities(ctx)
    cov.disarm()
    n_exec, n_hit, unreached = cov.report()
    ctx.note('line_coverage', {'executable': n_exec, 'hit': n_hit})
    for u in unreached:
        ctx.note_set('unreached_lines', u)
    for m in ('formula-model', 'rigid-motion', 'vectorised', 'detectors', 'slicing/matrix', 'factories', 'utilities'):
        ctx.ev(m, 0)
