"""C01 -- vector arithmetic is element-wise exact under every aliasing pattern.

Deciding monitors
  lincomb-contract   : wrapper on LinearSpace.lincomb / multiply / divide (public, type-checked
                       entry points that every operator overload goes through): reference value
                       from copies taken before the call (long double), operands untouched,
                       returned object is out.  Fires for *every* call any workload makes.
  api-differential   : workload-level comparison of +,-,*,/,**, in-place forms, scalar
                       broadcasting, zero/one/copy/assign/set_zero against NumPy on flat copies.
Sanitizers: S-poison (uninitialised elements are NaN), NaN prefill of non-operand outputs.
"""

import functools
import itertools

import numpy as np
import odl
from odl.set.space import LinearSpace

from .. import cover, sanitize, util

SHARDS = {'quick': 4, 'thorough': 16}
THOROUGH_ROUNDS = 3


def _flat(sp, x):
    return util.to_cvec(sp, x)


def _hi(dtype_kind):
    return np.clongdouble if dtype_kind == 'c' else np.longdouble


def _leaf_kind(sp):
    """dtype kind of the leaves ('f','c','i' ...) and their element dtype (first leaf)."""
    for _p, leaf in util.leaves(sp):
        return np.dtype(leaf.dtype).kind, np.dtype(leaf.dtype)
    return 'f', np.dtype(float)


def _tol_ok(got, ref, mag, dt, ulps=8):
    """|got-ref| <= ulps*eps*mag entry-wise (floats); exact for integers."""
    if dt.kind in 'iub':
        return bool(np.array_equal(got, ref))
    eps = np.finfo(dt).eps
    hi = _hi(dt.kind)
    with np.errstate(all='ignore'):
        d = np.abs(got.astype(hi) - ref)
        bound = ulps * eps * mag + np.finfo(dt).tiny
        ok = (d <= bound) | (np.isnan(got) & np.isnan(ref.astype(complex if dt.kind == 'c' else float)))
    return bool(np.all(ok))


def _overlaps(x, res):
    """True if an operand is (in part) the output: it holds part objects / memory of ``res`` (p[::-1] of the output p).  Such an
    operand changes with the output by construction; "operands that are not the output" does not apply to it."""
    try:
        for _p, a in _leaf_arrays(x):
            for _q, b in _leaf_arrays(res):
                if a.size and b.size and np.shares_memory(a, b):
                    return True
    except Exception:
        return False
    return False


class Contract(object):
    """Record-only contract on LinearSpace.lincomb / multiply / divide."""

    def __init__(self, ctx):
        self.ctx = ctx
        self.orig = {}
        self.depth = 0
        self.cfg = 'ambient'     # set by the workload to the current class descriptor

    def _valid(self, sp, a, x1, b, x2, out):
        try:
            if x1 not in sp or (x2 is not None and x2 not in sp) or (out is not None and out not in sp):
                return False
            if sp.field is None:
                return False
            if a not in sp.field or (b is not None and b not in sp.field):
                return False
            return True
        except Exception:
            return False

    def install(self):
        c = self
        ctx = self.ctx
        o_lin = LinearSpace.lincomb
        o_mul = LinearSpace.multiply
        o_div = LinearSpace.divide
        self.orig = {'lincomb': o_lin, 'multiply': o_mul, 'divide': o_div}

        @functools.wraps(o_lin)
        def lincomb(self, a, x1, b=None, x2=None, out=None):
            if not sanitize.is_library_class(type(self)) or not c._valid(self, a, x1, b, x2, out):
                return o_lin(self, a, x1, b, x2, out)
            kind, dt = _leaf_kind(self)
            if kind not in 'fciu':
                return o_lin(self, a, x1, b, x2, out)
            pat = c.pattern(x1, x2, out)
            try:
                A1 = _flat(self, x1).copy()
                A2 = _flat(self, x2).copy() if x2 is not None else None
            except Exception:
                return o_lin(self, a, x1, b, x2, out)
            comp = type(self).__name__ + '.lincomb'
            cfg = '%s;%s;%s;a=%s,b=%s' % (util.space_tag(self), util.size_regime(A1.size), pat,
                                         util.scalar_class(a), util.scalar_class(b) if b is not None else 'None')
            try:
                res = o_lin(self, a, x1, b, x2, out)
            except Exception as e:
                ctx.ev('lincomb-contract')
                ctx.violation(comp, cfg, 'raises:' + type(e).__name__, message=str(e)[:200])
                raise
            try:
                ctx.ev('lincomb-contract')
                if out is not None and res is not out:
                    ctx.violation(comp, cfg, 'not-out')
                got = _flat(self, res)
                finite_ops = np.isfinite(A1).all() and (A2 is None or np.isfinite(A2).all())
                if kind in 'fc':
                    hi = _hi(kind)
                    with np.errstate(all='ignore'):
                        if A2 is None or b is None:
                            ref = a * A1.astype(hi)
                            mag = abs(a) * np.abs(A1.astype(hi))
                        else:
                            ref = a * A1.astype(hi) + b * A2.astype(hi)
                            mag = abs(a) * np.abs(A1.astype(hi)) + abs(b) * np.abs(A2.astype(hi))
                    zero_zero = (a == 0 and (b is None or b == 0))
                    if zero_zero:
                        if not np.all(got == 0):
                            ctx.violation(comp, cfg, 'wrong-value', note='a=b=0 must give exactly zero',
                                          got=got[:8])
                    elif finite_ops and np.isfinite(ref.astype(complex)).all():
                        if not _tol_ok(got, ref, mag, dt):
                            ctx.violation(comp, cfg, 'wrong-value', got=got[:8], ref=ref[:8].astype(complex),
                                          a=a, b=b)
                else:
                    if A2 is None or b is None:
                        ref = a * A1
                    else:
                        ref = a * A1 + b * A2
                    if np.asarray(ref).dtype.kind == 'f':
                        # real scalars on an integer space: the exact entry is not representable; a conversion of it is one
                        # of the neighbouring integers (NumPy assignment truncates, a composed evaluation may floor)
                        okv = bool(np.all(np.abs(got.astype(float) - ref) < 1.0))
                    else:
                        okv = bool(np.array_equal(got, ref.astype(got.dtype)))
                    if not okv:
                        ctx.violation(comp, cfg, 'wrong-value', got=got[:8], ref=ref[:8], a=a, b=b)
                if x1 is not res and not _overlaps(x1, res) and not np.array_equal(_flat(self, x1), A1, equal_nan=True):
                    ctx.violation(comp, cfg, 'operand-modified', which='x1')
                if x2 is not None and x2 is not res and not _overlaps(x2, res) and not np.array_equal(_flat(self, x2), A2, equal_nan=True):
                    ctx.violation(comp, cfg, 'operand-modified', which='x2')
            except Exception as e:
                ctx.note_add('monitor-exception:' + type(e).__name__)
            return res

        def make_md(name, orig, npfun):
            @functools.wraps(orig)
            def md(self, x1, x2, out=None):
                try:
                    valid = (sanitize.is_library_class(type(self)) and x1 in self and x2 in self
                             and (out is None or out in self))
                except Exception:
                    valid = False
                kind, dt = _leaf_kind(self)
                if not valid or kind not in 'fciu':
                    return orig(self, x1, x2, out)
                A1 = _flat(self, x1).copy()
                A2 = _flat(self, x2).copy()
                comp = type(self).__name__ + '.' + name
                cfg = '%s;%s;%s' % (util.space_tag(self), util.size_regime(A1.size), c.pattern(x1, x2, out))
                try:
                    res = orig(self, x1, x2, out)
                except Exception as e:
                    ctx.ev('lincomb-contract')
                    if kind in 'fc':
                        ctx.violation(comp, cfg, 'raises:' + type(e).__name__, message=str(e)[:200])
                    raise
                try:
                    ctx.ev('lincomb-contract')
                    if out is not None and res is not out:
                        ctx.violation(comp, cfg, 'not-out')
                    got = _flat(self, res)
                    with np.errstate(all='ignore'):
                        if kind in 'fc':
                            hi = _hi(kind)
                            ref = npfun(A1.astype(hi), A2.astype(hi))
                            okfin = np.isfinite(ref.astype(complex)).all()
                            if okfin and not _tol_ok(got, ref, np.abs(ref), dt, ulps=4):
                                ctx.violation(comp, cfg, 'wrong-value', got=got[:8], ref=ref[:8].astype(complex))
                        elif name == 'multiply':
                            ref = npfun(A1, A2)
                            if not np.array_equal(got, ref):
                                ctx.violation(comp, cfg, 'wrong-value', got=got[:8], ref=ref[:8])
                    if x1 is not res and not _overlaps(x1, res) and not np.array_equal(_flat(self, x1), A1, equal_nan=True):
                        ctx.violation(comp, cfg, 'operand-modified', which='x1')
                    if x2 is not res and not _overlaps(x2, res) and not np.array_equal(_flat(self, x2), A2, equal_nan=True):
                        ctx.violation(comp, cfg, 'operand-modified', which='x2')
                except Exception as e:
                    ctx.note_add('monitor-exception:' + type(e).__name__)
                return res
            return md

        LinearSpace.lincomb = lincomb
        LinearSpace.multiply = make_md('multiply', o_mul, np.multiply)
        LinearSpace.divide = make_md('divide', o_div, np.divide)

    @staticmethod
    def pattern(x1, x2, out):
        if out is None:
            return 'x1=x2,out=None' if x1 is x2 else 'out=None'
        if x1 is x2 and out is x1:
            return 'all'
        if x1 is x2:
            return 'x1=x2'
        if out is x1:
            return 'out=x1'
        if out is x2:
            return 'out=x2'
        return 'none'


# --------------------------------------------------------------------------------------------

SHAPES_SMALL = [(0,), (1,), (3,), (99,), (100,), (101,), (9, 11), (10, 10), (2, 3, 4)]
SHAPES_BIG = [(49999,), (50000,), (50001,), (250, 200), (223, 225), (37, 27, 51)]
DTYPES = ['float64', 'float32', 'complex128', 'complex64', 'int64', 'int32']
# dtypes outside the BLAS set (extended and half precision, short integers): same decision tree, other leaves
DTYPES_EXTRA = [d for d in ('longdouble', 'clongdouble', 'float16', 'int16') if np.dtype(d).itemsize != np.dtype({'longdouble': 'float64', 'clongdouble': 'complex128'}.get(d, 'bool')).itemsize or d in ('float16', 'int16')]
# 'V': the three operands are interleaved, non-overlapping views of ONE buffer (columns of a matrix, real / imaginary parts):
# distinct elements whose memory ranges overlap although no entry is shared
LAYOUTS = [('C', 'C', 'C'), ('F', 'F', 'F'), ('S', 'C', 'F'), ('C', 'S', 'S'), ('F', 'C', 'S'), ('V', 'V', 'V')]
PATTERNS = ['none', 'x1=x2', 'out=x1', 'out=x2', 'all']
SCAL = [('0', 0), ('1', 1), ('-1', -1), ('gen', 2.5), ('gen2', -0.75), ('cplx', 1.5 - 0.5j)]
# integer spaces: integer scalars, and real (dyadic, so exactly representable) scalars - the field of an integer tensor
# space is the reals; the entry-wise result is a*x1 + b*x2 converted to the integer type the way NumPy assignment does
SCAL_INT = [('0', 0), ('1', 1), ('-1', -1), ('gen', 10), ('gen2', -3), ('half', 0.5), ('frac', -1.25)]


def mk_array(dt, layout, vals):
    a = vals.astype(dt)
    if layout == 'C' or a.ndim == 0:
        return np.ascontiguousarray(a)
    if layout == 'F':
        return np.asfortranarray(a)
    big = np.zeros(tuple(2 * k for k in a.shape), dtype=dt)
    arr = big[tuple(slice(None, None, 2) for _ in a.shape)]
    arr[...] = a
    return arr


def rand_vals(rng, shape, kind):
    v = rng.integers(-9, 10, size=shape).astype(float)
    if kind == 'c':
        v = v + 1j * rng.integers(-9, 10, size=shape)
    if kind in 'fc':
        v = v * 0.37 + (rng.random(size=shape) - 0.5) * 1e-3
    return v


def scalar_for(kind, name, val):
    if kind in 'iu':
        if isinstance(val, complex):
            return None
        if isinstance(val, float):
            return int(val * 4)
        return val
    if kind == 'f' and isinstance(val, complex):
        return None
    return val


def run_lincomb_lattice(ctx, con):
    """space.lincomb over sizes x dtypes x layouts x aliasing x scalar classes, NaN-prefilled out."""
    rng = ctx.rng('lattice')
    idx = 0
    shapes = SHAPES_SMALL + SHAPES_BIG
    for shape, dt in itertools.product(shapes, DTYPES + DTYPES_EXTRA):
        kind = np.dtype(dt).kind
        big = int(np.prod(shape)) > 1000
        extra = dt in DTYPES_EXTRA
        sp = odl.tensor_space(shape, dtype=dt)
        for layout3 in LAYOUTS:
            if len(shape) == 1 and layout3[0] == 'F' and layout3 != ('F', 'F', 'F'):
                continue
            for pat in PATTERNS:
                for (an, a0), (bn, b0) in itertools.product(SCAL_INT if kind in 'iu' else SCAL, repeat=2):
                    a = scalar_for(kind, an, a0) if kind not in 'iu' else a0
                    b = scalar_for(kind, bn, b0) if kind not in 'iu' else b0
                    if a is None or b is None:
                        continue
                    idx += 1
                    if not ctx.mine(idx):
                        continue
                    if extra and not ctx.thorough and (idx // ctx.nshards) % 3 != 0:
                        continue
                    # big regime: every mechanism class once per (dtype kind) in quick; all in thorough
                    if big and not ctx.thorough:
                        if layout3 not in (('C', 'C', 'C'), ('S', 'C', 'F')) and (idx // ctx.nshards) % 7 != 0:
                            continue
                        if shape not in ((50000,), (223, 225)) and (idx // ctx.nshards) % 5 != 0:
                            continue
                    v1 = rand_vals(rng, shape, kind)
                    v2 = rand_vals(rng, shape, kind)
                    poison = np.full(shape, complex(np.nan, np.nan)) if kind == 'c' else (np.full(shape, np.nan) if kind == 'f' else np.full(shape, 12345))
                    if layout3[0] == 'V':
                        buf = np.zeros(shape + (3,), dtype=dt)
                        buf[..., 0], buf[..., 1], buf[..., 2] = v1.astype(dt), v2.astype(dt), poison.astype(dt)
                        x1, x2, out = sp.element(buf[..., 0]), sp.element(buf[..., 1]), sp.element(buf[..., 2])
                    else:
                        x1 = sp.element(mk_array(dt, layout3[0], v1))
                        x2 = sp.element(mk_array(dt, layout3[1], v2))
                        out = sp.element(mk_array(dt, layout3[2], poison))
                    if pat == 'x1=x2':
                        x2 = x1
                    elif pat == 'out=x1':
                        out = x1
                    elif pat == 'out=x2':
                        out = x2
                    elif pat == 'all':
                        x2 = x1
                        out = x1
                    cls = 'lincomb;%s;%s;%s;%s' % (dt, util.size_regime(int(np.prod(shape))), pat,
                                                 'mixed' if len(set(layout3)) > 1 else layout3[0])
                    ctx.case(cls, (shape, layout3, an, bn), nontrivial=int(np.prod(shape)) > 0)
                    if idx % 997 == 0:
                        ctx.sample({'call': 'space.lincomb(a, x1, b, x2, out)', 'space': repr(sp), 'layouts': layout3,
                                    'aliasing': pat, 'a': a, 'b': b})
                    try:
                        sp.lincomb(a, x1, b, x2, out)   # decided by the contract
                    except Exception:
                        pass  # recorded by the contract as raises:<Exc>
    ctx.note('lincomb_lattice_index_space', idx)


def spaces_for_api(ctx):
    """(tag, space) over the space kinds of the property."""
    yield 'rn3', odl.rn(3)
    yield 'rn150', odl.rn(150)
    yield 'rn(7,9)F', odl.rn((7, 9))
    yield 'rn60000', odl.rn(60000)
    yield 'cn5', odl.cn(5)
    yield 'cn120', odl.cn(120)
    yield 'f32_101', odl.rn(101, dtype='float32')
    yield 'c64_40', odl.cn(40, dtype='complex64')
    yield 'int5', odl.tensor_space(5, dtype='int64')
    yield 'int130', odl.tensor_space(130, dtype='int64')
    yield 'int32_(10,12)', odl.tensor_space((10, 12), dtype='int32')
    yield 'rn6w', odl.rn(6, weighting=2.5)
    yield 'rn110aw', odl.rn(110, weighting=np.linspace(1, 2, 110))
    yield 'discr7', odl.uniform_discr(0, 1, 7)
    yield 'discr(12,11)', odl.uniform_discr([0, 0], [1, 2], (12, 11))
    yield 'discr_c9', odl.uniform_discr(0, 1, 9, dtype=complex)
    yield 'discr_f32_(3,4,5)', odl.uniform_discr([0, 0, 0], [1, 1, 1], (3, 4, 5), dtype='float32')
    yield 'discr_bdry105', odl.uniform_discr(0, 1, 105, nodes_on_bdry=True)
    yield 'pspace(r3,r120)', odl.ProductSpace(odl.rn(3), odl.rn(120))
    yield 'power(r4,3)', odl.rn(4) ** 3
    yield 'power(discr(5,6),2)', odl.uniform_discr([0, 0], [1, 1], (5, 6)) ** 2
    yield 'nested', odl.ProductSpace(odl.rn(2) ** 2, odl.ProductSpace(odl.rn(101), odl.rn(1)))
    yield 'power2d', odl.rn(3) ** (2, 2)
    yield 'pspace_c', odl.ProductSpace(odl.cn(3), odl.cn(104))
    yield 'pspace_w', odl.ProductSpace(odl.rn(3), odl.rn(4), weighting=[1.0, 3.0])
    yield 'pspace_int', odl.ProductSpace(odl.tensor_space(3, dtype='int64'), odl.tensor_space(107, dtype='int64'))


def rel(sp, rng, nozero=False):
    """Random element with small-integer-based values (float noise for inexact kinds)."""
    if util.is_pspace(sp):
        return sp.element([rel(s, rng, nozero) for s in sp])
    kind = np.dtype(sp.dtype).kind
    v = rand_vals(rng, sp.shape, kind)
    if nozero:
        if kind in 'iu':
            v = np.where(v == 0, 3, v)
        else:
            v = np.where(np.abs(v) < 0.2, 1.3, v)
    order = ['C', 'F'][int(rng.integers(0, 2))]
    arr = mk_array(sp.dtype, order, v)
    return sp.element(arr)


def api_forms(kind):
    """(name, fn(sp, x, y, s) -> result, ref(X, Y, s) -> array, flags) -- x, y fresh elements."""
    F = []

    def add(name, fn, ref, **fl):
        F.append((name, fn, ref, fl))
    add('x+y', lambda sp, x, y, s: x + y, lambda X, Y, s: X + Y)
    add('x-y', lambda sp, x, y, s: x - y, lambda X, Y, s: X - Y)
    add('x*y', lambda sp, x, y, s: x * y, lambda X, Y, s: X * Y)
    add('x+x', lambda sp, x, y, s: x + x, lambda X, Y, s: X + X)
    add('x-x', lambda sp, x, y, s: x - x, lambda X, Y, s: X - X)
    add('x*x', lambda sp, x, y, s: x * x, lambda X, Y, s: X * X)
    add('s*x', lambda sp, x, y, s: s * x, lambda X, Y, s: s * X)
    add('x*s', lambda sp, x, y, s: x * s, lambda X, Y, s: X * s)
    add('-x', lambda sp, x, y, s: -x, lambda X, Y, s: -X)
    add('+x', lambda sp, x, y, s: +x, lambda X, Y, s: X)
    add('x+s', lambda sp, x, y, s: x + s, lambda X, Y, s: X + s)
    add('s+x', lambda sp, x, y, s: s + x, lambda X, Y, s: s + X)
    add('x-s', lambda sp, x, y, s: x - s, lambda X, Y, s: X - s)
    add('s-x', lambda sp, x, y, s: s - x, lambda X, Y, s: s - X)

    def iadd(sp, x, y, s):
        x += y
        return x

    def isub(sp, x, y, s):
        x -= y
        return x

    def imul(sp, x, y, s):
        x *= y
        return x

    def imuls(sp, x, y, s):
        x *= s
        return x

    def iadds(sp, x, y, s):
        x += s
        return x

    def isubs(sp, x, y, s):
        x -= s
        return x

    def iaddx(sp, x, y, s):
        x += x
        return x

    def isubx(sp, x, y, s):
        x -= x
        return x

    def imulx(sp, x, y, s):
        x *= x
        return x
    add('x+=y', iadd, lambda X, Y, s: X + Y, inplace=True)
    add('x-=y', isub, lambda X, Y, s: X - Y, inplace=True)
    add('x*=y', imul, lambda X, Y, s: X * Y, inplace=True)
    add('x*=s', imuls, lambda X, Y, s: X * s, inplace=True)
    add('x+=s', iadds, lambda X, Y, s: X + s, inplace=True)
    add('x-=s', isubs, lambda X, Y, s: X - s, inplace=True)
    add('x+=x', iaddx, lambda X, Y, s: X + X, inplace=True)
    add('x-=x', isubx, lambda X, Y, s: X - X, inplace=True)
    add('x*=x', imulx, lambda X, Y, s: X * X, inplace=True)
    if kind in 'fc':
        def idiv(sp, x, y, s):
            x /= y
            return x

        def idivs(sp, x, y, s):
            x /= s
            return x

        def idivx(sp, x, y, s):
            x /= x
            return x
        add('x/y', lambda sp, x, y, s: x / y, lambda X, Y, s: X / Y, div=True)
        add('x/s', lambda sp, x, y, s: x / s, lambda X, Y, s: X / s, sdiv=True)
        add('s/x', lambda sp, x, y, s: s / x, lambda X, Y, s: s / X, div=True)
        add('x/x', lambda sp, x, y, s: x / x, lambda X, Y, s: X / X, div=True)
        add('x/=y', idiv, lambda X, Y, s: X / Y, inplace=True, div=True)
        add('x/=s', idivs, lambda X, Y, s: X / s, inplace=True, sdiv=True)
        add('x/=x', idivx, lambda X, Y, s: X / X, inplace=True, div=True)
    for n in (0, 1, 2, 3, 4, 5) + ((-1, -2) if kind in 'fc' else ()):
        def p(sp, x, y, s, n=n):
            return x ** n

        def ip(sp, x, y, s, n=n):
            x **= n
            return x
        add('x**%d' % n, p, lambda X, Y, s, n=n: X.astype(_hi(kind) if kind in 'fc' else X.dtype) ** n, div=(n < 0), pow=True)
        add('x**=%d' % n, ip, lambda X, Y, s, n=n: X.astype(_hi(kind) if kind in 'fc' else X.dtype) ** n, inplace=True, div=(n < 0), pow=True)
    add('zero', lambda sp, x, y, s: sp.zero(), lambda X, Y, s: 0 * X)
    add('one', lambda sp, x, y, s: sp.one(), lambda X, Y, s: 0 * X + 1)
    add('copy', lambda sp, x, y, s: x.copy(), lambda X, Y, s: X, fresh=True)

    def assign(sp, x, y, s):
        x.assign(y)
        return x

    def set_zero(sp, x, y, s):
        x.set_zero()
        return x

    def set_zero_nan(sp, x, y, s):
        util.fill(x, 'nan')
        x.set_zero()
        return x

    def el_lincomb(sp, x, y, s):
        out = sp.element()
        out.lincomb(s, x, -s, y)
        return out

    def el_lincomb1(sp, x, y, s):
        out = sp.element()
        out.lincomb(s, x)
        return out

    def sp_lincomb_none(sp, x, y, s):
        return sp.lincomb(s, x, 1, y)

    def mul_out(sp, x, y, s):
        out = util.fill(sp.element(), 'nan')
        return sp.multiply(x, y, out=out)

    def mul_alias1(sp, x, y, s):
        return sp.multiply(x, y, out=x)

    def mul_alias2(sp, x, y, s):
        return sp.multiply(x, y, out=y)

    def mul_all(sp, x, y, s):
        return sp.multiply(x, x, out=x)

    def el_mul(sp, x, y, s):
        return x.multiply(y)
    add('x.assign(y)', assign, lambda X, Y, s: Y, inplace=True)
    add('x.set_zero()', set_zero, lambda X, Y, s: 0 * X, inplace=True)
    add('nan.set_zero()', set_zero_nan, lambda X, Y, s: 0 * X, inplace=True, exactzero=True)
    add('out.lincomb(s,x,-s,y)', el_lincomb, lambda X, Y, s: s * X + (-s) * Y)
    add('out.lincomb(s,x)', el_lincomb1, lambda X, Y, s: s * X)
    add('space.lincomb(s,x,1,y)', sp_lincomb_none, lambda X, Y, s: s * X + Y)
    add('multiply(x,y,out)', mul_out, lambda X, Y, s: X * Y)
    add('multiply(x,y,out=x)', mul_alias1, lambda X, Y, s: X * Y, inplace=True)
    add('multiply(x,y,out=y)', mul_alias2, lambda X, Y, s: X * Y, inplace_y=True)
    add('multiply(x,x,out=x)', mul_all, lambda X, Y, s: X * X, inplace=True)
    add('x.multiply(y)', el_mul, lambda X, Y, s: X * Y)
    if kind in 'fc':
        def div_out(sp, x, y, s):
            out = util.fill(sp.element(), 'nan')
            return sp.divide(x, y, out=out)

        def div_alias1(sp, x, y, s):
            return sp.divide(x, y, out=x)

        def div_alias2(sp, x, y, s):
            return sp.divide(x, y, out=y)

        def div_all(sp, x, y, s):
            return sp.divide(x, x, out=x)
        add('divide(x,y,out)', div_out, lambda X, Y, s: X / Y, div=True)
        add('divide(x,y,out=x)', div_alias1, lambda X, Y, s: X / Y, div=True, inplace=True)
        add('divide(x,y,out=y)', div_alias2, lambda X, Y, s: X / Y, div=True, inplace_y=True)
        add('divide(x,x,out=x)', div_all, lambda X, Y, s: X / X, div=True, inplace=True)
    return F


def run_api(ctx, con):
    rng = ctx.rng('api')
    idx = 0
    for tag, sp in spaces_for_api(ctx):
        kind, dt = _leaf_kind(sp)
        forms = api_forms(kind)
        scalars = [('0', 0), ('1', 1), ('-1', -1), ('gen', 2.5 if kind in 'fc' else 3), ('np', np.float64(-0.75) if kind in 'fc' else np.int64(-2))]
        if kind == 'c':
            scalars.append(('cplx', 1.5 - 0.5j))
        if kind in 'iu':
            scalars.append(('half', 0.5))
        n = sum(int(np.prod(l.shape)) for _p, l in util.leaves(sp))
        for (name, fn, ref, fl), (sn, s) in itertools.product(forms, scalars):
            if 's' not in name.replace('space', '').replace('set_zero', '').replace('assign', '') and sn != 'gen':
                continue   # scalar-free forms once
            if fl.get('sdiv') and s == 0:
                continue
            idx += 1
            if not ctx.mine(idx):
                continue
            for rep in range(ctx.reps(1, 4)):
                x = rel(sp, rng, nozero=fl.get('div', False))
                y = rel(sp, rng, nozero=fl.get('div', False))
                X = _flat(sp, x).copy()
                Y = _flat(sp, y).copy()
                comp = 'api:' + name
                cfg = '%s;%s;s=%s' % (util.space_tag(sp), util.size_regime(n), util.scalar_class(s))
                ctx.case('api;%s;%s' % (name, tag), (sn, rep))
                if idx % 211 == 0:
                    ctx.sample({'form': name, 'space': repr(sp)[:120], 'scalar': s})
                try:
                    r = fn(sp, x, y, s)
                except Exception as e:
                    ctx.ev('api-differential')
                    ctx.violation(comp, cfg, 'raises:' + type(e).__name__, message=str(e)[:200])
                    continue
                ctx.ev('api-differential')
                try:
                    got = _flat(sp, r)
                    with np.errstate(all='ignore'):
                        if kind in 'fc':
                            hi = _hi(kind)
                            R = ref(X.astype(hi), Y.astype(hi), s)
                            R = np.asarray(R)
                            if fl.get('exactzero'):
                                ok = bool(np.all(got == 0))
                            elif not np.isfinite(R.astype(complex)).all():
                                ctx.skip('reference not finite')
                                continue
                            else:
                                ul = 64 if fl.get('pow') else 8
                                mag = np.abs(R) + (np.abs(X.astype(hi)) + np.abs(Y.astype(hi)) + abs(s)) * (0 if fl.get('pow') or fl.get('div') else 1)
                                ok = _tol_ok(got, R, mag, dt, ulps=ul)
                        else:
                            R = np.asarray(ref(X, Y, s))
                            if isinstance(s, float) and not float(s).is_integer():
                                # a real scalar on an integer space: the exact entry is not representable and the library
                                # composes several integer-valued steps; any neighbouring integer is a conversion of it
                                ok = bool(np.all(np.abs(got.astype(float) - R.astype(float)) < 1.0))
                            else:
                                ok = bool(np.array_equal(got, R.astype(got.dtype)))
                    if r not in sp:
                        ctx.violation(comp, cfg, 'result-not-in-space')
                    if not ok:
                        ctx.violation(comp, cfg, 'wrong-value', got=got[:6], ref=np.asarray(R)[:6].astype(complex if kind == 'c' else float))
                    if not fl.get('inplace') and not np.array_equal(_flat(sp, x), X, equal_nan=True):
                        ctx.violation(comp, cfg, 'operand-modified', which='x')
                    if not fl.get('inplace_y') and not np.array_equal(_flat(sp, y), Y, equal_nan=True):
                        ctx.violation(comp, cfg, 'operand-modified', which='y')
                    if fl.get('fresh') and r is x:
                        ctx.violation(comp, cfg, 'copy-is-same-object')
                    if fl.get('fresh') and n > 0:
                        # a copy must not share memory with the original
                        for (_p, lx), (_q, lr) in zip(_leaf_arrays(x), _leaf_arrays(r)):
                            if np.shares_memory(lx, lr):
                                ctx.violation(comp, cfg, 'copy-shares-memory')
                    if not fl.get('inplace') and not fl.get('inplace_y') and not fl.get('fresh') and n > 0 and hasattr(r, 'space'):
                        # the result of an out-of-place form is a new element: a later in-place operation on it must not
                        # reach an operand (x, which is not the output, would be modified)
                        hit = r is x or r is y
                        for _q, lr in _leaf_arrays(r):
                            for op_ in (x, y):
                                for _p, lo in _leaf_arrays(op_):
                                    if lr.size and lo.size and np.shares_memory(lr, lo):
                                        hit = True
                        if hit:
                            ctx.violation(comp, cfg, 'result-aliases-operand')
                except Exception as e:
                    ctx.note_add('monitor-exception:' + type(e).__name__)
        # power-space broadcasting: x (op) base-element, base-element (op) x, in-place forms; the base element may be a
        # fresh one or - by identity - one of the parts of x itself (first, middle, last)
        if util.is_pspace(sp) and sp.is_power_space and len(sp) >= 2 and not util.is_pspace(sp[0]):
            base = sp[0]
            bkind = np.dtype(base.dtype).kind
            ops_b = [('+', lambda u, v: u + v, np.add, False), ('-', lambda u, v: u - v, np.subtract, False), ('*', lambda u, v: u * v, np.multiply, False),
                     ('r+', lambda u, v: v + u, lambda A, B: B + A, False), ('r-', lambda u, v: v - u, lambda A, B: B - A, False),
                     ('r*', lambda u, v: v * u, lambda A, B: B * A, False),
                     ('+=', lambda u, v: u.__iadd__(v), np.add, True), ('-=', lambda u, v: u.__isub__(v), np.subtract, True),
                     ('*=', lambda u, v: u.__imul__(v), np.multiply, True)]
            if bkind in 'fc':
                ops_b += [('/', lambda u, v: u / v, np.divide, False), ('r/', lambda u, v: v / u, lambda A, B: B / A, False),
                          ('/=', lambda u, v: u.__itruediv__(v), np.divide, True)]
            for (opn, pyop, npop, inplace), which in itertools.product(ops_b, ('fresh', 'part0', 'part-middle', 'part-last')):
                idx += 1
                if not ctx.mine(idx):
                    continue
                x = rel(sp, rng, nozero='/' in opn)
                if which == 'fresh':
                    yb = rel(base, rng, nozero='/' in opn)
                else:
                    yb = x[{'part0': 0, 'part-middle': len(sp) // 2, 'part-last': len(sp) - 1}[which]]
                Xp = [np.asarray(p).copy() for p in x.parts]
                Yb = np.asarray(yb).copy()
                comp = 'api:broadcast' + opn
                cfg = '%s;operand=%s' % (util.space_tag(sp), 'fresh' if which == 'fresh' else 'a-part-of-x')
                ctx.case('api;broadcast%s;%s' % (opn, tag), which)
                try:
                    r = pyop(x, yb)
                except Exception as e:
                    ctx.ev('api-differential')
                    ctx.violation(comp, cfg, 'raises:' + type(e).__name__, message=str(e)[:200], operand=which)
                    continue
                ctx.ev('api-differential')
                try:
                    with np.errstate(all='ignore'):
                        refs = [npop(Xp[i], Yb) for i in range(len(Xp))]
                    if not hasattr(r, 'parts') or len(r.parts) != len(refs):
                        ctx.violation(comp, cfg, 'result-not-in-space', operand=which)
                        continue
                    for i, pr in enumerate(r.parts):
                        tolr = 1e-12 if np.dtype(base.dtype).itemsize >= 8 else 1e-5
                        if not np.allclose(np.asarray(pr), refs[i], rtol=tolr, atol=0, equal_nan=True):
                            ctx.violation(comp, cfg, 'wrong-value', operand=which, part=i)
                            break
                    if which == 'fresh' and not np.array_equal(np.asarray(yb), Yb):
                        ctx.violation(comp, cfg, 'operand-modified', which='y')
                    if not inplace and not all(np.array_equal(np.asarray(p), Xp[i]) for i, p in enumerate(x.parts)):
                        ctx.violation(comp, cfg, 'operand-modified', which='x')
                except Exception as e:
                    ctx.note_add('monitor-exception:' + type(e).__name__)


def _raw_of(sp, y, variant):
    """The value of element ``y`` as a raw (non-element) operand: ndarrays with exactly the leaf dtype and shape
    (``element()`` wraps those without copying), ndarrays of another dtype, or nested lists."""
    if util.is_pspace(sp):
        return [_raw_of(s, p, variant) for s, p in zip(sp, y.parts)]
    a = np.array(np.asarray(y), copy=True, order='C')
    if variant == 'same':
        return a
    if variant == 'otherdtype':
        k = a.dtype.kind
        return a.astype({'f': 'float32' if a.dtype == np.float64 else 'float64', 'c': 'complex64' if a.dtype == np.complex128 else 'complex128',
                         'i': 'int16', 'u': 'uint8'}.get(k, a.dtype))
    return a.tolist()


def _raw_arrays(raw):
    if isinstance(raw, np.ndarray):
        yield raw
    elif isinstance(raw, list):
        for r in raw:
            for a in _raw_arrays(r):
                yield a


def _raw_snapshot(raw):
    import copy
    return copy.deepcopy(raw)


def _raw_equal(a, b):
    if isinstance(a, np.ndarray):
        return isinstance(b, np.ndarray) and a.dtype == b.dtype and np.array_equal(a, b, equal_nan=True)
    if isinstance(a, list):
        return isinstance(b, list) and len(a) == len(b) and all(_raw_equal(u, v) for u, v in zip(a, b))
    return a == b


RAW_OPS = [('x+raw', lambda x, r: x + r, lambda X, Y: X + Y, {}),
           ('x-raw', lambda x, r: x - r, lambda X, Y: X - Y, {}),
           ('x*raw', lambda x, r: x * r, lambda X, Y: X * Y, {}),
           ('x/raw', lambda x, r: x / r, lambda X, Y: X / Y, {'div': True}),
           ('raw+x', lambda x, r: r + x, lambda X, Y: Y + X, {}),
           ('raw-x', lambda x, r: r - x, lambda X, Y: Y - X, {}),
           ('raw*x', lambda x, r: r * x, lambda X, Y: Y * X, {}),
           ('raw/x', lambda x, r: r / x, lambda X, Y: Y / X, {'div': True}),
           ('x+=raw', lambda x, r: x.__iadd__(r), lambda X, Y: X + Y, {'inplace': True}),
           ('x-=raw', lambda x, r: x.__isub__(r), lambda X, Y: X - Y, {'inplace': True}),
           ('x*=raw', lambda x, r: x.__imul__(r), lambda X, Y: X * Y, {'inplace': True}),
           ('x/=raw', lambda x, r: x.__itruediv__(r), lambda X, Y: X / Y, {'inplace': True, 'div': True}),
           ('x.assign(element(raw))', lambda x, r: (x.assign(x.space.element(r)), x)[1], lambda X, Y: Y, {'inplace': True}),
           ('lincomb(2,x,3,element(raw))', lambda x, r: x.space.lincomb(2, x, 3, x.space.element(r)), lambda X, Y: 2 * X + 3 * Y, {}),
           ('multiply(x,element(raw))', lambda x, r: x.space.multiply(x, x.space.element(r)), lambda X, Y: X * Y, {})]


def run_raw_operands(ctx):
    """Arithmetic whose other operand is a raw array / list (converted by ``space.element``, which wraps without copying
    when dtype and shape already match): the value is right, the caller's array is never written to and the result does
    not share memory with it."""
    rng = ctx.rng('raw')
    idx = 0
    for tag, sp in spaces_for_api(ctx):
        kind, dt = _leaf_kind(sp)
        n = sum(int(np.prod(l.shape)) for _p, l in util.leaves(sp))
        for (name, fn, ref, fl), variant in itertools.product(RAW_OPS, ['same', 'otherdtype', 'list']):
            if fl.get('div') and kind not in 'fc':
                continue
            if n >= 50000 and variant == 'list':
                continue
            idx += 1
            if not ctx.mine(idx):
                continue
            x = rel(sp, rng, nozero=fl.get('div', False))
            y = rel(sp, rng, nozero=fl.get('div', False))
            raw = _raw_of(sp, y, variant)
            if variant == 'otherdtype' and kind in 'iu':
                # values are small integers: representable in the narrower type
                pass
            X = _flat(sp, x).copy()
            Y = _flat(sp, sp.element(_raw_snapshot(raw))).copy()
            before = _raw_snapshot(raw)
            comp = 'api:' + name
            cfg = '%s;%s;raw=%s' % (util.space_tag(sp), util.size_regime(n), variant)
            ctx.case('raw;%s;%s' % (name, tag), variant)
            try:
                r = fn(x, raw)
            except TypeError as e:
                # an overload may legitimately not accept a raw operand (Python then raises TypeError): nothing to compare
                ctx.ev('raw-operand')
                ctx.skip('raw operand not accepted by this overload')
                ctx.note_add('raw-not-accepted:%s:%s' % (name, 'pspace' if util.is_pspace(sp) else 'leaf'))
                if not _raw_equal(raw, before):
                    ctx.violation(comp, cfg, 'operand-modified', which='raw')
                continue
            except Exception as e:
                ctx.ev('raw-operand')
                ctx.violation(comp, cfg, 'raises:' + type(e).__name__, message=str(e)[:200])
                continue
            ctx.ev('raw-operand')
            try:
                if not _raw_equal(raw, before):
                    ctx.violation(comp, cfg, 'operand-modified', which='raw')
                if not fl.get('inplace') and not np.array_equal(_flat(sp, x), X, equal_nan=True):
                    ctx.violation(comp, cfg, 'operand-modified', which='x')
                try:
                    got = _flat(sp, r if r in sp else sp.element(r))
                except Exception:
                    ctx.violation(comp, cfg, 'result-not-in-space')
                    continue
                with np.errstate(all='ignore'):
                    if kind in 'fc':
                        hi = _hi(kind)
                        R = np.asarray(ref(X.astype(hi), Y.astype(hi)))
                        if not np.isfinite(R.astype(complex)).all():
                            ctx.skip('reference not finite')
                            continue
                        mag = np.abs(R) + (np.abs(X.astype(hi)) + np.abs(Y.astype(hi))) * (0 if fl.get('div') else 1)
                        ok = _tol_ok(got, R, mag, dt, ulps=8)
                    else:
                        R = np.asarray(ref(X, Y))
                        ok = bool(np.array_equal(got, R.astype(got.dtype)))
                if not ok:
                    ctx.violation(comp, cfg, 'wrong-value', got=got[:6])
                if n > 0 and hasattr(r, 'space'):
                    for ra in _raw_arrays(raw):
                        for _q, lr in _leaf_arrays(r):
                            if lr.size and ra.size and np.shares_memory(lr, ra):
                                ctx.violation(comp, cfg, 'result-shares-memory-with-operand')
            except Exception as e:
                ctx.note_add('monitor-exception:' + type(e).__name__)
    ctx.ev('raw-operand', 0)


def run_zero_divisors(ctx):
    """Division with exact +-0.0 entries in the divisor (and 0/0): entry-wise IEEE results (+-inf, nan) exactly where NumPy
    puts them - in particular nothing of the previous contents of the output survives at those entries."""
    rng = ctx.rng('zero-divisors')
    idx = 0
    for tag, sp in spaces_for_api(ctx):
        kind, dt = _leaf_kind(sp)
        if kind != 'f':
            continue      # (complex division by zero has no single IEEE answer: inf / nan component patterns differ between routines)
        n = sum(int(np.prod(l.shape)) for _p, l in util.leaves(sp))
        forms = [('x/y', lambda x, y: x / y), ('x/=y', lambda x, y: x.__itruediv__(y)),
                 ('divide(x,y,out)', lambda x, y: sp.divide(x, y, out=util.fill(sp.element(), 'rnd', rng))),
                 ('divide(x,y,out=x)', lambda x, y: sp.divide(x, y, out=x)), ('divide(x,y,out=y)', lambda x, y: sp.divide(x, y, out=y)),
                 ('x.divide(y)', lambda x, y: x.divide(y)),
                 # scalar dividends: 0 / 0 = nan, s / 0 = +-inf, and s / subnormal stays finite where the quotient is
                 ('0/y', lambda x, y: 0 / y), ('s/y', lambda x, y: 2.5 / y), ('tiny/y', lambda x, y: (1e-300 if np.dtype(_leaf_kind(x.space)[1]).itemsize >= 8 else 1e-40) / y)]
        for name, fn in forms:
            idx += 1
            if not ctx.mine(idx):
                continue
            x = rel(sp, rng)
            y = rel(sp, rng, nozero=True)
            # plant +0.0, -0.0 in the divisor, and zeros in the dividend at some of the same places
            for (_p, ly), (_q, lx) in zip(_leaf_arrays(y), _leaf_arrays(x)):
                if ly.size == 0:
                    continue
                flat_y, flat_x = ly.reshape(-1), lx.reshape(-1)
                if not np.shares_memory(flat_y, ly) or not np.shares_memory(flat_x, lx):
                    continue
                pos = rng.choice(ly.size, size=max(1, min(ly.size, 5)), replace=False)
                for k, j in enumerate(pos):
                    flat_y[j] = [0.0, -0.0][k % 2]
                    if k % 3 == 2:
                        flat_x[j] = 0.0
            if name.endswith('/y') and name[0] in '0st':
                # a subnormal divisor entry: its reciprocal overflows, the quotient with a tiny dividend does not
                for _p, ly in _leaf_arrays(y):
                    flat_y = ly.reshape(-1)
                    if flat_y.size > 6 and np.shares_memory(flat_y, ly):
                        flat_y[-1] = np.finfo(ly.dtype).tiny * 1e-3
            X, Y = _flat(sp, x).copy(), _flat(sp, y).copy()
            if not (Y == 0).any():
                ctx.skip('no zero could be planted (non-writeable / non-contiguous leaves)')
                continue
            with np.errstate(all='ignore'):
                if name == '0/y':
                    R = np.zeros_like(Y) / Y
                elif name == 's/y':
                    R = np.asarray(2.5, dtype=Y.dtype) / Y
                elif name == 'tiny/y':
                    R = np.asarray(1e-300 if Y.dtype.itemsize >= 8 else 1e-40, dtype=Y.dtype) / Y
                else:
                    R = X / Y
            comp = 'api:' + name
            cfg = '%s;%s;zero-divisor' % (util.space_tag(sp), util.size_regime(n))
            ctx.case('zero-divisor;%s;%s' % (name, tag), 0)
            ctx.ev('api-differential')
            try:
                with np.errstate(all='ignore'):
                    r = fn(x, y)
                got = _flat(sp, r)
                special = ~np.isfinite(R)
                ok = bool(np.array_equal(np.isnan(got), np.isnan(R)) and np.array_equal(got[np.isinf(R)], R[np.isinf(R)]))
                if ok and (~special).any():
                    ok = _tol_ok(got[~special], R[~special].astype(_hi(kind)), np.abs(R[~special]).astype(_hi(kind)), dt, ulps=8)
                if not ok:
                    ctx.violation(comp, cfg, 'wrong-value', got=got[special][:6].astype(complex), ref=R[special][:6].astype(complex))
            except Exception as e:
                ctx.violation(comp, cfg, 'raises:' + type(e).__name__, message=str(e)[:200])


def _leaf_arrays(x):
    if hasattr(x, 'parts'):
        for i, p in enumerate(x.parts):
            for q, a in _leaf_arrays(p):
                yield (i,) + q, a
    else:
        yield (), np.asarray(x)


def run_shared_buffer(ctx):
    """Distinct elements that are views of one buffer without sharing an entry: real and imaginary part of a complex element,
    columns of a matrix wrapped by ``space.element``.  They are different operands; nothing may treat them as one."""
    rng = ctx.rng('shared-buffer')
    forms = [('x+y', lambda x, y: x + y, lambda X, Y: X + Y, False), ('x-y', lambda x, y: x - y, lambda X, Y: X - Y, False),
             ('x*y', lambda x, y: x * y, lambda X, Y: X * Y, False), ('2x+3y', lambda x, y: x.space.lincomb(2.0, x, 3.0, y), lambda X, Y: 2 * X + 3 * Y, False),
             ('x+=y', lambda x, y: x.__iadd__(y), lambda X, Y: X + Y, True), ('x*=y', lambda x, y: x.__imul__(y), lambda X, Y: X * Y, True),
             ('x-=2y', lambda x, y: x.space.lincomb(1.0, x, -2.0, y, out=x), lambda X, Y: X - 2 * Y, True)]
    for n in (12, 300, 60000):
        for kindname in ('real/imag', 'columns'):
            for fname, fn, ref, inplace in forms:
                ctx.ev('api-differential')
                ctx.case('shared-buffer;%s;%s' % (kindname, fname), n)
                cfg = '%s;%s' % (kindname, util.size_regime(n))
                try:
                    if kindname == 'real/imag':
                        z = odl.cn(n).element(rng.normal(size=n) + 1j * rng.normal(size=n))
                        x, y = z.real, z.imag
                        if not (np.shares_memory(np.asarray(x), np.asarray(z)) or True):
                            continue
                    else:
                        buf = rng.normal(size=(n, 2))
                        x, y = odl.rn(n).element(buf[:, 0]), odl.rn(n).element(buf[:, 1])
                    X, Y = np.asarray(x).copy(), np.asarray(y).copy()
                    r = fn(x, y)
                    got = np.asarray(r)
                    want = ref(X, Y)
                    if not np.allclose(got, want, rtol=1e-13, atol=1e-13):
                        ctx.violation('api:' + fname, 'shared-buffer;' + cfg, 'wrong-value', got=got[:4], ref=want[:4])
                    if not np.array_equal(np.asarray(y), Y) or (not inplace and not np.array_equal(np.asarray(x), X)):
                        ctx.violation('api:' + fname, 'shared-buffer;' + cfg, 'operand-modified')
                except Exception as e:
                    ctx.violation('api:' + fname, 'shared-buffer;' + cfg, 'raises:' + type(e).__name__, message=str(e)[:200])


def run_permuted_parts(ctx):
    """An operand that holds the part objects of the output in another order (p[::-1], p[[1, 2, 0]] share the parts of p):
    every part has to be read before it is overwritten."""
    rng = ctx.rng('permuted-parts')
    spaces = [('rn3^2', odl.ProductSpace(odl.rn(3), 2)), ('rn150^3', odl.ProductSpace(odl.rn(150), 3)), ('discr^3', odl.ProductSpace(odl.uniform_discr(0, 1, 4), 3)),
              ('cn4^2;w', odl.ProductSpace(odl.cn(4), 2, weighting=[1.0, 2.0]))]
    forms = [('p+=q', lambda p, q: p.__iadd__(q), lambda P, Q: P + Q), ('p-=q', lambda p, q: p.__isub__(q), lambda P, Q: P - Q),
             ('p*=q', lambda p, q: p.__imul__(q), lambda P, Q: P * Q), ('p/=q', lambda p, q: p.__itruediv__(q), lambda P, Q: P / Q),
             ('lincomb(2,p,3,q,out=p)', lambda p, q: p.space.lincomb(2.0, p, 3.0, q, out=p), lambda P, Q: 2 * P + 3 * Q),
             ('lincomb(2,q,3,p,out=p)', lambda p, q: p.space.lincomb(2.0, q, 3.0, p, out=p), lambda P, Q: 2 * Q + 3 * P),
             ('multiply(q,p,out=p)', lambda p, q: p.space.multiply(q, p, out=p), lambda P, Q: P * Q)]
    for (sname, sp), (fname, fn, ref) in itertools.product(spaces, forms):
        n = len(sp)
        for pname, perm in (('reversed', slice(None, None, -1)), ('rotated', list(range(1, n)) + [0])):
            ctx.ev('api-differential')
            ctx.case('permuted-parts;%s;%s' % (sname, fname), pname)
            try:
                p = sp.element([rng.uniform(0.5, 2.0, size=s_.shape) * (1 if not s_.is_complex else (1 + 0.5j)) for s_ in sp])
                P = np.array([np.asarray(a_).copy() for a_ in p.parts])
                q = p[perm]
                Q = P[perm]
                if q not in sp:
                    ctx.skip('the permuted element lies in another space (per-component weights are permuted with the parts)')
                    continue
                fn(p, q)
                got = np.array([np.asarray(a_) for a_ in p.parts])
                want = ref(P, Q)
                if not np.allclose(got, want, rtol=1e-13, atol=0):
                    ctx.violation('api:' + fname, 'pspace;operand=own-parts-%s' % pname, 'wrong-value', space=sname, got=got.ravel()[:6], ref=want.ravel()[:6])
            except Exception as e:
                ctx.violation('api:' + fname, 'pspace;operand=own-parts-%s' % pname, 'raises:' + type(e).__name__, message=str(e)[:200])


def run_repeated_part(ctx):
    """An element that holds the SAME component object at two positions (pspace.element([p, p])), used as operand and output.
    Only operations whose entry-wise result is the same for both positions are decided (scalars, the element itself, an operand
    with equal parts): each position must show that result - the shared component is combined once, not once per position."""
    rng = ctx.rng('repeated-part')
    for bname, base in (('rn3', odl.rn(3)), ('rn150', odl.rn(150)), ('discr4', odl.uniform_discr(0, 1, 4)), ('rn2^2', odl.ProductSpace(odl.rn(2), 2))):
        for n in (2, 3):
            sp = odl.ProductSpace(base, n)
            forms = [('X*=3', lambda X, Y: X.__imul__(3.0), lambda P, Q: 3.0 * P), ('X/=4', lambda X, Y: X.__itruediv__(4.0), lambda P, Q: P / 4.0),
                     ('X+=Y', lambda X, Y: X.__iadd__(Y), lambda P, Q: P + Q), ('X-=Y', lambda X, Y: X.__isub__(Y), lambda P, Q: P - Q),
                     ('X+=X', lambda X, Y: X.__iadd__(X), lambda P, Q: 2 * P), ('X*=X', lambda X, Y: X.__imul__(X), lambda P, Q: P * P),
                     ('X*=Y', lambda X, Y: X.__imul__(Y), lambda P, Q: P * Q), ('lincomb(2,X,3,Y,out=X)', lambda X, Y: sp.lincomb(2.0, X, 3.0, Y, out=X), lambda P, Q: 2 * P + 3 * Q),
                     ('lincomb(2,Y,3,X,out=X)', lambda X, Y: sp.lincomb(2.0, Y, 3.0, X, out=X), lambda P, Q: 2 * Q + 3 * P), ('lincomb(-1,X,out=X)', lambda X, Y: sp.lincomb(-1.0, X, out=X), lambda P, Q: -P)]
            for fname, fn, ref in forms:
                ctx.ev('api-differential')
                ctx.case('repeated-part;%s;%s^%d' % (fname, bname, n), 0)
                try:
                    p_ = util.rand_element(base, rng, positive=True)
                    q_ = util.rand_element(base, rng, positive=True)
                    P, Q = util.to_cvec(base, p_).copy(), util.to_cvec(base, q_).copy()
                    X = sp.element([p_] * n)
                    Y = sp.element([q_.copy() for _ in range(n)])
                    fn(X, Y)
                    want = ref(P, Q)
                    for k in range(n):
                        got = util.to_cvec(base, X[k])
                        if not np.allclose(got, want, rtol=1e-13, atol=0):
                            ctx.violation('api:' + fname, 'pspace;same-component-object-at-%d-positions' % n, 'wrong-value', base=bname, position=k, got=got[:4], ref=want[:4])
                            break
                    if not np.array_equal(util.to_cvec(base, q_), Q):
                        ctx.violation('api:' + fname, 'pspace;same-component-object-at-%d-positions' % n, 'operand-modified')
                except Exception as e:
                    ctx.violation('api:' + fname, 'pspace;same-component-object-at-%d-positions' % n, 'raises:' + type(e).__name__, message=str(e)[:200])


def run(ctx):
    ctx.note('rule', 'cases = (API form | lincomb lattice point) x space x layouts x aliasing pattern x scalar '
                     'classes x seeded values; distinct = distinct (class, shape/layout/scalar-name/repetition) '
                     'keys; plus 15 operator forms with a raw (ndarray of the same / another dtype, nested list) operand per space, whose '
                     'data must stay byte-identical and unshared; non-trivial = non-empty arrays')
    ctx.note('assumptions', ['NumPy long-double arithmetic on copies is the reference',
                             'operand values are finite except for the a=b=0 / set_zero cases',
                             'contract wrappers on LinearSpace.lincomb/multiply/divide are transparent'])
    sanitize.poison_on()
    cov = cover.Cover()
    from odl.space import npy_tensors as nt
    cov.add(getattr(nt, '_lincomb_impl', None), '_lincomb_impl')
    cov.add(getattr(nt, '_blas_is_applicable', None), '_blas_is_applicable')
    cov.add(getattr(odl.ProductSpace, '_lincomb', None), 'ProductSpace._lincomb')
    cov.arm()
    con = Contract(ctx)
    con.install()
    for c in ['lincomb;float64;<100;out=x1;C', 'lincomb;int64;<50000;none;C', 'lincomb;complex64;>=50000;all;mixed',
              'lincomb;float32;>=50000;out=x2;C']:
        pass
    run_lincomb_lattice(ctx, con)
    run_api(ctx, con)
    run_raw_operands(ctx)
    run_zero_divisors(ctx)
    if ctx.shard == 0:
        run_shared_buffer(ctx)
        run_permuted_parts(ctx)
        run_repeated_part(ctx)
    if ctx.thorough and ctx.shard == 0 and ctx.round == 0:
        # W-ambient: the contract on every lincomb / multiply / divide the repository's own suite executes
        from .c03 import ambient_suite
        data = ambient_suite(ctx, {'VF_AMBIENT_LINCOMB': '1'}, 'c01')
        if data is not None:
            ctx.ev('lincomb-contract', int(data['stats'].get('lincomb-contract', 0)))
            ctx.note('ambient', {'lincomb_contract_evaluations': data['stats'].get('lincomb-contract', 0),
                                 'poisoned_elements': data.get('poisoned', 0)})
            for v in data['violations']:
                if '.lincomb' in v['component'] or '.multiply' in v['component'] or '.divide' in v['component']:
                    ctx.violation(v['component'], 'ambient:' + v['config'], v['kind'], count=v['count'])
    cov.disarm()
    n_exec, n_hit, unreached = cov.report()
    ctx.note('line_coverage', {'executable': n_exec, 'hit': n_hit})
    for u in unreached:
        ctx.note_set('unreached_lines', u)
    ctx.note('poisoned_elements', sanitize.poisoned_count())
    ctx.ev('lincomb-contract', 0)
    ctx.ev('api-differential', 0)
