"""C04 -- operator arithmetic means what the algebra table says, for arbitrary expressions.

Deciding monitor
  reference-interpreter : well-typed expression trees over + - (unary -) * @ / **n, scalar*A, A*scalar, v*A, A*v,
                          A+v, v+A, A-v, v-A, A+scalar are evaluated by the library's operators on real ODL
                          leaves and by a NumPy interpreter that applies the documented table literally.
                          Compared: value out-of-place and in-place (NaN-prefilled out), domain, range, is_linear.
  flag-honesty          : a result flagged linear satisfies A(a x + y) = a A(x) + A(y) for real a.
Every ordered pair (outer, inner) of combinators is enumerated at depth 2 x leaf linearity x field x scalar
class; deeper trees are seeded.
"""

import itertools

import numpy as np
import odl

from .. import cover, util

SHARDS = {'quick': 4, 'thorough': 16}
S = odl.solvers


class Sq(odl.Operator):
    """Harness-defined nonlinear leaf x -> x*x + c with a dual-use _call."""

    def __init__(self, sp, c):
        super(Sq, self).__init__(sp, sp)
        self.c = c

    def _call(self, x, out=None):
        if out is None:
            return x * x + self.c
        out.assign(x)
        out *= x
        out += self.c


class Stencil(odl.Operator):
    """Harness-defined *linear* leaf whose in-place evaluation is not alias-safe (like the library's stencil
    operators): out[i] = x[i] + 0.5 * x[i+1] (cyclic), written entry by entry.  Expression nodes must never call
    a leaf with out aliased to its input; if one does, this leaf returns a wrong value and the interpreter sees it."""

    def __init__(self, sp):
        super(Stencil, self).__init__(sp, sp, linear=True)

    def _call(self, x, out):
        n = self.domain.size
        for i in range(n):
            out[i] = x[i] + 0.5 * x[(i + 1) % n]

    @staticmethod
    def ref(x):
        return x + 0.5 * np.roll(x, -1)


class Env(object):
    """Spaces, leaves and random scalars / vectors for one field."""

    def __init__(self, field, rng):
        self.cplx = field == 'C'
        self.field = field
        self.rng = rng
        self.sp = odl.cn(3) if self.cplx else odl.rn(3)
        self.sp2 = odl.cn(2) if self.cplx else odl.rn(2)
        self.fld = self.sp.field

    def rv(self, s):
        if util.is_field(s):
            return complex(self.rng.normal(), self.rng.normal()) if self.cplx else float(self.rng.normal())
        a = self.rng.normal(size=s.shape) + (1j * self.rng.normal(size=s.shape) if self.cplx else 0)
        return s.element(a)

    def scalar(self, cls):
        r = self.rng
        if cls == 'one':
            return 1.0
        if cls == 'mone':
            return -1.0
        if cls == 'int':
            return int(r.integers(2, 4))
        if cls == 'npfloat':
            return np.float64(r.normal() * 1.5 + 0.1)
        if cls == 'npint':
            return np.int64(r.integers(2, 4))
        if cls == 'npint8':
            # fixed-width integers whose products do not fit their own type (merged scalar factors)
            return [np.int8, np.uint8, np.int16][int(r.integers(0, 3))](r.integers(90, 120))
        if cls == 'cplx':
            return complex(r.normal(), r.normal() + 0.3)
        v = float(r.normal() * 1.5)
        return v if abs(v) > 0.1 else 0.5

    def scalar_classes(self):
        return ['gen', 'one', 'mone', 'int', 'npfloat', 'npint', 'npint8'] + (['cplx'] if self.cplx else [])

    def leaves(self):
        r, cplx, sp, sp2 = self.rng, self.cplx, self.sp, self.sp2

        def M(shape):
            return r.normal(size=shape) + (1j * r.normal(size=shape) if cplx else 0)
        M33, M23, M32 = M((3, 3)), M((2, 3)), M((3, 2))
        v = self.rv(sp)
        va = np.asarray(v).copy()
        c = self.rv(sp)
        ca = np.asarray(c).copy()
        w = self.rv(sp)
        wa = np.asarray(w).copy()
        L = [
            ('Matrix33', odl.MatrixOperator(M33, domain=sp, range=sp), lambda x, M=M33: M @ x, sp, sp, True),
            ('Matrix23', odl.MatrixOperator(M23, domain=sp, range=sp2), lambda x, M=M23: M @ x, sp, sp2, True),
            ('Matrix32', odl.MatrixOperator(M32, domain=sp2, range=sp), lambda x, M=M32: M @ x, sp2, sp, True),
            ('Identity', odl.IdentityOperator(sp), lambda x: x, sp, sp, True),
            ('Scaling', odl.ScalingOperator(sp, 0.7), lambda x: 0.7 * x, sp, sp, True),
            ('Multiply', odl.MultiplyOperator(v), lambda x, va=va: va * x, sp, sp, True),
            ('Sq', Sq(sp, c), lambda x, ca=ca: x * x + ca, sp, sp, False),
            ('Stencil', Stencil(sp), Stencil.ref, sp, sp, True),
            ('Power3', odl.PowerOperator(sp, 3), lambda x: x ** 3, sp, sp, False),
            ('Constant', odl.ConstantOperator(c), lambda x, ca=ca: ca + 0 * x, sp, sp, False),
            ('InnerProduct', odl.InnerProductOperator(w), lambda x, wa=wa: np.sum(x * np.conj(wa)), sp, self.fld, True),
        ]
        if not cplx:
            L.append(('ufunc.sin', odl.ufunc_ops.sin(sp), np.sin, sp, sp, False))
            L.append(('L2NormSquared', S.L2NormSquared(sp), lambda x: float(np.sum(np.abs(x) ** 2)), sp, self.fld, False))
            L.append(('L1Norm', S.L1Norm(sp), lambda x: float(np.sum(np.abs(x))), sp, self.fld, False))
            # a *linear* Functional (the overloads of Functional take shortcuts for linear functionals)
            L.append(('LinearFunctional', S.QuadraticForm(vector=w), lambda x, wa=wa: float(np.sum(x * wa)), sp, self.fld, True))
        return L


UNARY = ['neg', 'pos', 'ls', 'rs', 'div', 'lv', 'rv', 'vadd', 'vradd', 'vsub', 'rvsub', 'sadd', 'ssub', 'rssub', 'pow', 'ls@', 'rs@', 'lv@', 'rv@']
BINARY = ['sum', 'sub', 'comp', 'matmul']
COMBINATORS = UNARY + BINARY


class Skip(Exception):
    pass


def arr(space, v):
    return v if util.is_field(space) else np.asarray(v).copy()


def build(env, kind, a, b=None, scls='gen'):
    """Apply combinator `kind` to node a (and b). Node = (op, ref, lin, text, dom, ran)."""
    op, ref, lin, txt, dom, ran = a
    rng = env.rng
    if kind == 'neg':
        return (-op, lambda x: -ref(x), lin, '(-%s)' % txt, dom, ran)
    if kind == 'pos':
        return (+op, ref, lin, '(+%s)' % txt, dom, ran)
    if kind == 'ls':
        s = env.scalar(scls)
        return (s * op, lambda x: s * ref(x), lin, '(%r * %s)' % (s, txt), dom, ran)
    if kind == 'rs':
        s = env.scalar(scls)
        return (op * s, lambda x: ref(s * x), lin, '(%s * %r)' % (txt, s), dom, ran)
    # the `@` spellings of the same four products (documented as equivalent to `*`)
    if kind == 'ls@':
        s = env.scalar(scls)
        return (s @ op, lambda x: s * ref(x), lin, '(%r @ %s)' % (s, txt), dom, ran)
    if kind == 'rs@':
        s = env.scalar(scls)
        return (op @ s, lambda x: ref(s * x), lin, '(%s @ %r)' % (txt, s), dom, ran)
    if kind == 'lv@':
        if util.is_field(ran):
            raise Skip()
        v = env.rv(ran)
        va = arr(ran, v)
        return (v @ op, lambda x: va * ref(x), lin, '(v @ %s)' % txt, dom, ran)
    if kind == 'rv@':
        v = env.rv(dom)
        va = arr(dom, v)
        return (op @ v, lambda x: ref(va * x), lin, '(%s @ v)' % txt, dom, ran)
    if kind == 'div':
        s = env.scalar(scls)
        return (op / s, lambda x: ref(x / s), lin, '(%s / %r)' % (txt, s), dom, ran)
    if kind == 'lv':
        if util.is_field(ran):
            # v * functional: y in a space whose field is the range -> FunctionalLeftVectorMult: (y * f)(x) = y * f(x)
            # ... the vector from another space, or from the functional's own domain (then y * f maps the space into itself
            # and can be applied in place to its own input)
            ysp = env.sp2 if (rng.random() < 0.5 or util.is_field(dom)) else dom
            y = env.rv(ysp)
            ya = np.asarray(y).copy()
            return (y * op, lambda x: ya * ref(x), lin, '(y * %s)' % txt, dom, ysp)
        v = env.rv(ran)
        va = arr(ran, v)
        return (v * op, lambda x: va * ref(x), lin, '(v * %s)' % txt, dom, ran)
    if kind == 'rv':
        v = env.rv(dom)
        va = arr(dom, v)
        return (op * v, lambda x: ref(va * x), lin, '(%s * v)' % txt, dom, ran)
    if kind in ('vadd', 'vradd', 'vsub', 'rvsub'):
        if util.is_field(ran):
            raise Skip()     # covered by sadd
        v = env.rv(ran)
        va = arr(ran, v)
        if kind == 'vadd':
            return (op + v, lambda x: ref(x) + va, False, '(%s + v)' % txt, dom, ran)
        if kind == 'vradd':
            return (v + op, lambda x: va + ref(x), False, '(v + %s)' % txt, dom, ran)
        if kind == 'vsub':
            return (op - v, lambda x: ref(x) - va, False, '(%s - v)' % txt, dom, ran)
        return (v - op, lambda x: va - ref(x), False, '(v - %s)' % txt, dom, ran)
    if kind == 'sadd':
        s = env.scalar(scls if scls != 'cplx' or env.cplx else 'gen')
        return (op + s, lambda x: ref(x) + s, False, '(%s + %r)' % (txt, s), dom, ran)
    if kind in ('ssub', 'rssub'):
        # scalar subtraction on either side (the reference converts the scalar to a Python number first: unsigned and
        # fixed-width NumPy scalars must mean their mathematical value)
        s = env.scalar(scls if scls != 'cplx' or env.cplx else 'gen')
        sv = complex(s) if isinstance(s, (complex, np.complexfloating)) else float(s)
        if kind == 'ssub':
            return (op - s, lambda x: ref(x) - sv, False, '(%s - %r)' % (txt, s), dom, ran)
        return (s - op, lambda x: sv - ref(x), False, '(%r - %s)' % (s, txt), dom, ran)
    if kind == 'pow':
        if dom != ran:
            raise Skip()
        n = int(rng.integers(2, 4))

        def rp(x, n=n):
            for _ in range(n):
                x = ref(x)
            return x
        return (op ** n, rp, lin, '(%s ** %d)' % (txt, n), dom, ran)
    # binary
    op2, ref2, lin2, txt2, dom2, ran2 = b
    if kind == 'sum':
        if dom2 != dom or ran2 != ran:
            raise Skip()
        return (op + op2, lambda x: ref(x) + ref2(x), lin and lin2, '(%s + %s)' % (txt, txt2), dom, ran)
    if kind == 'sub':
        if dom2 != dom or ran2 != ran:
            raise Skip()
        return (op - op2, lambda x: ref(x) - ref2(x), lin and lin2, '(%s - %s)' % (txt, txt2), dom, ran)
    if kind in ('comp', 'matmul'):
        if ran2 != dom:
            raise Skip()
        e = op * op2 if kind == 'comp' else op @ op2
        return (e, lambda x: ref(ref2(x)), lin and lin2, '(%s o %s)' % (txt, txt2), dom2, ran)
    raise ValueError(kind)


def leaf_node(leaf):
    name, op, ref, dom, ran, lin = leaf
    return (op, ref, lin, name, dom, ran)


def alias_unsafe_leaves(env):
    """Names of the leaves of this environment for which leaf(y, out=y) differs from leaf(x) (measured once)."""
    if getattr(env, '_alias_unsafe', None) is None:
        bad = []
        for name, lop, _ref, dom, ran, _lin in env.leaves():
            if util.is_field(ran) or dom != ran:
                continue
            try:
                x = env.rv(dom)
                want = np.asarray(lop(x)).copy()
                y = x.copy()
                lop(y, out=y)
                if not np.allclose(np.asarray(y), want, rtol=1e-12, atol=1e-12):
                    bad.append(name)
            except Exception:
                bad.append(name)
        env._alias_unsafe = bad
    return env._alias_unsafe


def evaluate(ctx, env, node, comp, cfg):
    op, ref, lin, txt, dom, ran = node
    ctx.ev('reference-interpreter')
    try:
        x = env.rv(dom)
        xa = arr(dom, x)
        with np.errstate(all='ignore'):
            exp = ref(xa)
        if not np.all(np.isfinite(np.asarray(exp, dtype=complex))) or np.abs(np.asarray(exp)).max() > 1e12:
            ctx.skip('reference overflow')
            return
        # conditioning guard: a relative input perturbation of 1e-13 must not move the reference by more than the
        # comparison tolerance (sin of huge iterated powers etc. amplify rounding chaotically: no reference value)
        with np.errstate(all='ignore'):
            exp_p = ref(xa * (1 + 1e-13))
        sc0 = max(1.0, float(np.abs(np.asarray(exp)).max()))
        if not np.all(np.isfinite(np.asarray(exp_p, dtype=complex))) or float(np.abs(np.asarray(exp_p) - np.asarray(exp)).max()) > 1e-10 * sc0:
            ctx.skip('ill-conditioned expression at the evaluation point')
            return
        if op.domain != dom or op.range != ran:
            ctx.violation(comp, cfg, 'domain/range', expr=txt, got=(util.srepr(op.domain, 40), util.srepr(op.range, 40)))
        if bool(op.is_linear) != bool(lin):
            ctx.violation(comp, cfg, 'is_linear', expr=txt, got=bool(op.is_linear), expected=bool(lin))
        got = op(x)
        sc = max(1.0, float(np.abs(np.asarray(exp)).max()))
        if got not in ran:
            ctx.violation(comp, cfg, 'result-not-in-range', expr=txt)
        if not np.allclose(np.asarray(got), exp, rtol=1e-9, atol=1e-9 * sc):
            ctx.violation(comp, cfg, 'value', expr=txt, got=np.asarray(got), ref=np.asarray(exp))
        if not util.is_field(dom) and not np.array_equal(np.asarray(x), xa):
            ctx.violation(comp, cfg, 'x-modified', expr=txt)
        if not util.is_field(ran):
            out = util.fill(ran.element(), 'nan')
            r = op(x, out=out)
            if r is not out:
                ctx.violation(comp, cfg, 'not-out', expr=txt)
            if not np.allclose(np.asarray(out), exp, rtol=1e-9, atol=1e-9 * sc):
                ctx.violation(comp, cfg, 'inplace-value', expr=txt, got=np.asarray(out), ref=np.asarray(exp))
        if not util.is_field(ran) and dom == ran:
            # the expression applied in place to its own input, op(y, out=y): the expression classes take temporaries so that
            # this works whenever the leaves themselves tolerate it (measured per leaf on the spot)
            y2 = x.copy()
            try:
                op(y2, out=y2)
                if not np.allclose(np.asarray(y2), exp, rtol=1e-9, atol=1e-9 * sc):
                    unsafe = [nm for nm in alias_unsafe_leaves(env) if nm in txt]
                    if unsafe:
                        ctx.skip('aliased evaluation: a leaf of the expression is itself not alias-safe')
                    else:
                        ctx.violation(comp, cfg, 'aliased-inplace-value', expr=txt, got=np.asarray(y2), ref=np.asarray(exp))
                else:
                    ctx.note_add('aliased_evaluations_agreeing')
            except (odl.OpNotImplementedError, NotImplementedError):
                pass
        if op.is_linear and not util.is_field(dom):
            ctx.ev('flag-honesty')
            y = env.rv(dom)
            a = 1.7
            lhs = np.asarray(op(a * x + y))
            rhs = a * np.asarray(op(x)) + np.asarray(op(y))
            if not np.allclose(lhs, rhs, rtol=1e-9, atol=1e-9 * max(1.0, np.abs(rhs).max())):
                ctx.violation(comp, cfg, 'flagged-linear-but-not-additive', expr=txt)
    except Exception as e:
        ctx.violation(comp, cfg, 'raises:' + type(e).__name__, expr=txt, message=str(e)[:200])


def run_depth2(ctx):
    idx = 0
    for field in ('R', 'C'):
        rng = ctx.rng('depth2', field)
        env = Env(field, rng)
        leaves = env.leaves()
        lin_leaves = [l for l in leaves if l[5]]
        nl_leaves = [l for l in leaves if not l[5]]
        for outer, inner in itertools.product(COMBINATORS, repeat=2):
            for linearity in ('linear', 'nonlinear', 'functional'):
                pool = {'linear': [l for l in lin_leaves if not util.is_field(l[4])],
                        'nonlinear': [l for l in nl_leaves if not util.is_field(l[4])],
                        'functional': [l for l in leaves if util.is_field(l[4])]}[linearity]
                if not pool:
                    continue
                scalar_kinds = env.scalar_classes() if (outer in ('ls', 'rs', 'div', 'sadd', 'ssub', 'rssub') or inner in ('ls', 'rs', 'div', 'sadd', 'ssub', 'rssub')) else ['gen']
                for scls in scalar_kinds:
                    idx += 1
                    if not ctx.mine(idx):
                        continue
                    built = 0
                    tries = 0
                    while built < ctx.reps(1, 3) and tries < 12:
                        tries += 1
                        try:
                            a = leaf_node(pool[int(rng.integers(len(pool)))])
                            others = [l for l in leaves]
                            b1 = None
                            if inner in BINARY:
                                cands = [l for l in others if (inner in ('sum', 'sub') and l[3] == a[4] and l[4] == a[5]) or
                                         (inner in ('comp', 'matmul') and l[4] == a[4])]
                                if not cands:
                                    raise Skip()
                                b1 = leaf_node(cands[int(rng.integers(len(cands)))])
                            n1 = build(env, inner, a, b1, scls)
                            b2 = None
                            if outer in BINARY:
                                cands = [l for l in others if (outer in ('sum', 'sub') and l[3] == n1[4] and l[4] == n1[5]) or
                                         (outer in ('comp', 'matmul') and l[4] == n1[4])]
                                if not cands:
                                    raise Skip()
                                b2 = leaf_node(cands[int(rng.integers(len(cands)))])
                                if rng.random() < 0.5 and outer in ('comp', 'matmul'):
                                    # inner expression on the right: B o n1
                                    cands = [l for l in others if l[3] == n1[5]]
                                    if cands:
                                        bb = leaf_node(cands[int(rng.integers(len(cands)))])
                                        n2 = build(env, outer, bb, n1, scls)
                                    else:
                                        n2 = build(env, outer, n1, b2, scls)
                                else:
                                    n2 = build(env, outer, n1, b2, scls)
                            else:
                                n2 = build(env, outer, n1, None, scls)
                        except Skip:
                            continue
                        except Exception as e:
                            ctx.ev('reference-interpreter')
                            ctx.violation('%s(%s)' % (outer, inner), '%s;%s;s=%s' % (field, linearity, scls), 'construction-raises:' + type(e).__name__,
                                          message=str(e)[:200], leaf=a[3])
                            built += 1
                            continue
                        built += 1
                        ctx.case('depth2;%s(%s);%s;%s' % (outer, inner, field, linearity), (scls, n2[3]))
                        if idx % 97 == 0:
                            ctx.sample({'expression': n2[3], 'field': field})
                        evaluate(ctx, env, n2, '%s(%s)' % (outer, inner), '%s;%s;s=%s' % (field, linearity, scls))


def gen_tree(env, depth, rng):
    leaves = env.leaves()
    node = leaf_node(leaves[int(rng.integers(len(leaves)))])
    trail = []
    for _ in range(depth):
        for _try in range(8):
            kind = COMBINATORS[int(rng.integers(len(COMBINATORS)))]
            try:
                b = None
                if kind in BINARY:
                    if kind in ('sum', 'sub'):
                        cands = [l for l in leaves if l[3] == node[4] and l[4] == node[5]]
                    else:
                        cands = [l for l in leaves if l[4] == node[4]] if rng.random() < 0.5 else []
                        if not cands:
                            cands2 = [l for l in leaves if l[3] == node[5]]
                            if not cands2:
                                raise Skip()
                            bb = leaf_node(cands2[int(rng.integers(len(cands2)))])
                            node = build(env, kind, bb, node)
                            trail.append(kind)
                            break
                    if not cands:
                        raise Skip()
                    b = leaf_node(cands[int(rng.integers(len(cands)))])
                scls = env.scalar_classes()[int(rng.integers(len(env.scalar_classes())))]
                node = build(env, kind, node, b, scls)
                trail.append(kind)
                break
            except Skip:
                continue
    return node, trail


def run_random_trees(ctx):
    rng = ctx.rng('trees')
    n = ctx.reps(150, 1500)
    for t in range(n):
        field = 'C' if rng.random() < 0.35 else 'R'
        env = Env(field, rng)
        depth = int(rng.integers(2, ctx.reps(4, 6)))
        try:
            node, trail = gen_tree(env, depth, rng)
        except Exception as e:
            ctx.ev('reference-interpreter')
            ctx.violation('random-tree', field, 'construction-raises:' + type(e).__name__, message=str(e)[:200])
            continue
        if len(trail) < 2:
            continue
        comp = '%s(%s)' % (trail[-1], trail[-2])
        ctx.case('tree;depth=%d;%s' % (len(trail), field), node[3])
        evaluate(ctx, env, node, comp, '%s;tree' % field)


def run_functional_overloads(ctx):
    """The Functional overloads incl. scalar 0 and the linear shortcut (real spaces)."""
    rng = ctx.rng('functionals')
    sp = odl.rn(3)
    fl = sp.field
    g = sp.element(rng.normal(size=3))
    ga = np.asarray(g).copy()
    M = rng.normal(size=(3, 3))
    A = odl.MatrixOperator(M, domain=sp, range=sp)
    base = [('L2NormSquared', S.L2NormSquared(sp), lambda x: float(np.sum(x ** 2))),
            ('L1Norm', S.L1Norm(sp), lambda x: float(np.sum(np.abs(x)))),
            ('QuadraticForm', S.QuadraticForm(vector=g, constant=0.5), lambda x: float(np.dot(ga, x) + 0.5)),
            ('Huber', S.Huber(sp, 0.3), lambda x: float(np.sum(np.where(np.abs(x) <= 0.3, x ** 2 / 0.6, np.abs(x) - 0.15))))]
    forms = [
        ('f+g', lambda f, h: f + h, lambda rf, rh: (lambda x: rf(x) + rh(x))),
        ('f-g', lambda f, h: f - h, lambda rf, rh: (lambda x: rf(x) - rh(x))),
        ('s*f', lambda f, h: 2.5 * f, lambda rf, rh: (lambda x: 2.5 * rf(x))),
        ('0*f', lambda f, h: 0 * f, lambda rf, rh: (lambda x: 0.0)),
        ('-1*f', lambda f, h: -1 * f, lambda rf, rh: (lambda x: -rf(x))),
        ('f*s', lambda f, h: f * 2.5, lambda rf, rh: (lambda x: rf(2.5 * x))),
        ('f*0', lambda f, h: f * 0, lambda rf, rh: (lambda x: rf(0 * x))),
        ('f/s', lambda f, h: f / 4.0, lambda rf, rh: (lambda x: rf(x / 4.0))),
        ('-f', lambda f, h: -f, lambda rf, rh: (lambda x: -rf(x))),
        ('f+s', lambda f, h: f + 1.25, lambda rf, rh: (lambda x: rf(x) + 1.25)),
        ('s+f', lambda f, h: 1.25 + f, lambda rf, rh: (lambda x: rf(x) + 1.25)),
        ('f-s', lambda f, h: f - 1.25, lambda rf, rh: (lambda x: rf(x) - 1.25)),
        ('f*v', lambda f, h: f * g, lambda rf, rh: (lambda x: rf(ga * x))),
        ('f*A', lambda f, h: f * A, lambda rf, rh: (lambda x: rf(M @ x))),
        ('f@A', lambda f, h: f @ A, lambda rf, rh: (lambda x: rf(M @ x))),
        ('f.translated(v)', lambda f, h: f.translated(g), lambda rf, rh: (lambda x: rf(x - ga))),
        ('(f+g)*s', lambda f, h: (f + h) * 0.5, lambda rf, rh: (lambda x: rf(0.5 * x) + rh(0.5 * x))),
        ('s*(f*s)', lambda f, h: 3.0 * (f * 0.5), lambda rf, rh: (lambda x: 3.0 * rf(0.5 * x))),
        ('(s*f)*s', lambda f, h: (3.0 * f) * 0.5, lambda rf, rh: (lambda x: 3.0 * rf(0.5 * x))),
        ('(f*s)*s', lambda f, h: (f * 3.0) * 0.5, lambda rf, rh: (lambda x: rf(1.5 * x))),
        ('s*(s*f)', lambda f, h: 3.0 * (0.5 * f), lambda rf, rh: (lambda x: 1.5 * rf(x))),
        ('(f*v)*s', lambda f, h: (f * g) * 2.0, lambda rf, rh: (lambda x: rf(ga * 2.0 * x))),
        ('(f*A)*s', lambda f, h: (f * A) * 2.0, lambda rf, rh: (lambda x: rf(M @ (2.0 * x)))),
        ('f*g (product)', lambda f, h: S.FunctionalProduct(f, h), lambda rf, rh: (lambda x: rf(x) * rh(x))),
        ('f/g (quotient)', lambda f, h: S.FunctionalQuotient(f, h + 1.0), lambda rf, rh: (lambda x: rf(x) / (rh(x) + 1.0))),
    ]
    for (fn, f, rf), (hn, h, rh) in itertools.product(base, repeat=2):
        for name, mk, mkref in forms:
            if ('g' not in name.replace('(', ' ').split()[0] and hn != base[0][0]) and 'g' not in name:
                continue     # forms without a second functional: once
            ctx.ev('reference-interpreter')
            comp = 'functional:' + name
            cfg = 'R;%s' % fn
            ctx.case('functional;%s;%s;%s' % (name, fn, hn), 0)
            try:
                e = mk(f, h)
                ref = mkref(rf, rh)
                x = sp.element(rng.normal(size=3))
                xa = np.asarray(x).copy()
                got = e(x)
                exp = ref(xa)
                if abs(got - exp) > 1e-10 * max(1.0, abs(exp)):
                    ctx.violation(comp, cfg, 'value', got=got, ref=exp, second=hn)
                if e.domain != sp or e.range != fl:
                    ctx.violation(comp, cfg, 'domain/range')
                if not isinstance(e, S.Functional):
                    ctx.violation(comp, cfg, 'result-not-a-Functional', type=type(e).__name__)
                if got not in fl:
                    ctx.violation(comp, cfg, 'result-not-in-range')
            except Exception as ex:
                ctx.violation(comp, cfg, 'raises:' + type(ex).__name__, message=str(ex)[:200], second=hn)


def run_registry_wrappers(ctx):
    """The operator overloads around every *library* leaf (registry recipes: ~700 operator instances on real / complex /
    weighted / discretized / product spaces), decided by the algebraic meaning relative to the leaf's own values:
    (sA)x = s A(x), (As)x = A(sx), (A/s)x = A(x/s) (documented right division), (A+A)x = 2A(x), (A-A)x = 0, (-A)x = -A(x), (A+v)x = A(x)+v,
    (A-v)x = A(x)-v, (vA)x = v A(x), (Aw)x = A(wx), (IA)x = (AI)x = A(x) - out of place, in place into a NaN-filled
    element, and with the wrappers' flags (linearity) consistent with the rule."""
    from .. import registry
    from .c03 import base_point, comp_of
    rng = ctx.rng('registry-wrappers')
    crng = ctx.crng('registry-wrappers-ctor')
    for i, (group, name, thunk) in enumerate(registry.all_recipes(crng, ctx.thorough)):
        if not ctx.mine(i) or group == 'func':
            continue
        if not ctx.thorough and (i // ctx.nshards) % 2 != ctx.seed % 2:
            continue
        try:
            A = thunk()
            x = base_point(A, name, rng)
            y0 = A(x)
        except Exception:
            continue
        ran, dom = A.range, A.domain
        if util.is_field(ran) or util.is_field(dom):
            continue
        if any(np.dtype(l.dtype).kind not in 'fc' for sp in (dom, ran) for _p, l in util.leaves(sp)):
            continue
        cplx = getattr(ran, 'field', None) == odl.ComplexNumbers() and getattr(dom, 'field', None) == odl.ComplexNumbers()
        sc = (1.5 - 0.5j) if cplx else -2.5
        try:
            v = util.rand_element(ran, rng)
            w = util.rand_element(dom, rng)
        except Exception:
            continue
        if registry.needs_positive(name):
            sc = 0.8
            w = dom.element(np.abs(np.asarray(w)) + 0.1) if not util.is_pspace(dom) else None

        def A_at(pt):
            return A(pt)
        rules = [('s*', lambda: sc * A, lambda: sc * y0), ('*s', lambda: A * sc, lambda: A_at(sc * x)), ('/s', lambda: A / sc, lambda: A_at(x / sc)),
                 ('+op', lambda: A + A, lambda: 2 * y0), ('-op', lambda: A - A, lambda: y0 - y0), ('neg', lambda: -A, lambda: -1 * y0),
                 ('+v', lambda: A + v, lambda: y0 + v), ('-v', lambda: A - v, lambda: y0 - v), ('v*', lambda: v * A, lambda: v * y0),
                 ('*w', lambda: A * w, lambda: A_at(w * x)), ('Io', lambda: odl.IdentityOperator(ran) * A, lambda: y0),
                 ('oI', lambda: A * odl.IdentityOperator(dom), lambda: y0), ('s*(+v)*s', lambda: (sc * (A + v)) * sc, lambda: sc * (A_at(sc * x) + v))]
        cfg = '%s->%s' % (util.space_tag(dom), util.space_tag(ran))
        for tag, mk, rule in rules:
            if tag == '*w' and w is None:
                continue
            try:
                W = mk()
            except Exception:
                continue     # overload not offered for this leaf: nothing to compare
            ctx.ev('reference-interpreter')
            ctx.case('registry-wrapper;%s;%s' % (comp_of(name), tag), name)
            try:
                with np.errstate(all='ignore'):
                    ref = util.to_cvec(ran, rule())
                if not np.all(np.isfinite(ref)):
                    ctx.skip('reference not finite')
                    continue
                tol = 1e-10 * max(1.0, float(np.abs(ref).max()) if ref.size else 1.0)
                got = util.to_cvec(ran, W(x))
                if not np.allclose(got, ref, rtol=1e-10, atol=tol):
                    ctx.violation('wrapper:' + tag, cfg, 'value', name=name, maxdiff=float(np.abs(got - ref).max()))
                    continue
                out = util.fill(ran.element(), 'nan')
                try:
                    W(x, out=out)
                    if not np.allclose(util.to_cvec(ran, out), ref, rtol=1e-10, atol=tol):
                        ctx.violation('wrapper:' + tag, cfg, 'inplace-value', name=name)
                except (odl.OpNotImplementedError, NotImplementedError):
                    pass
                ctx.ev('flag-honesty')
                lin_rule = A.is_linear and tag not in ('+v', '-v', 's*(+v)*s')
                if W.is_linear and not lin_rule:
                    ctx.violation('wrapper:' + tag, cfg, 'flagged-linear-but-affine-or-nonlinear', name=name)
            except Exception as e:
                ctx.violation('wrapper:' + tag, cfg, 'raises:' + type(e).__name__, name=name, message=str(e)[:200])


def run_scalar_kinds(ctx):
    """Scalars beyond Python floats: (a) extended-precision spaces with numpy.longdouble / clongdouble scalars that are not
    representable in double - the scalar must act with its full precision; (b) operators whose domain and range have
    different fields: a right scalar acts on the argument (domain field), a left scalar on the value (range field)."""
    rng = ctx.rng('scalar-kinds')
    ld = np.longdouble
    if np.finfo(ld).eps < np.finfo(float).eps:
        for dt, sc in (('longdouble', ld(1) / ld(3)), ('clongdouble', np.clongdouble(ld(1) / ld(3) + 1j * (ld(2) / ld(7))))):
            sp = odl.tensor_space(4, dtype=dt)
            xa = (rng.normal(size=4) + (1j * rng.normal(size=4) if dt == 'clongdouble' else 0)).astype(dt) / ld(3)
            va = (rng.normal(size=4)).astype(dt) / ld(7)
            x = sp.element(xa)
            leaves = [('Identity', odl.IdentityOperator(sp), lambda z: z), ('Multiply', odl.MultiplyOperator(sp.element(va)), lambda z: va * z),
                      ('Power2', odl.PowerOperator(sp, 2), lambda z: z ** 2)]
            for (lname, A, ref), (form, mk, rule) in itertools.product(leaves, [
                    ('s*A', lambda A_: sc * A_, lambda r_, z: sc * r_(z)), ('A*s', lambda A_: A_ * sc, lambda r_, z: r_(sc * z)),
                    ('A/s', lambda A_: A_ / sc, lambda r_, z: r_(z / sc)), ('-(s*A)', lambda A_: -(sc * A_), lambda r_, z: -(sc * r_(z))),
                    ('(s*A)*s', lambda A_: (sc * A_) * sc, lambda r_, z: sc * r_(sc * z))]):
                ctx.ev('reference-interpreter')
                ctx.case('scalar-kinds;extended;%s;%s' % (dt, form), lname)
                cfg = '%s;numpy-extended-scalar' % dt
                try:
                    got = np.asarray(mk(A)(x))
                    want = rule(ref, xa)
                    eps = np.finfo(ld).eps
                    if not np.all(np.abs(got - want) <= 16 * eps * np.maximum(np.abs(want), np.finfo(ld).tiny)):
                        ctx.violation('wrapper:' + form, cfg, 'value', leaf=lname, rel=float(np.max(np.abs(got - want) / np.maximum(np.abs(want), 1e-300)) / eps), unit='eps of the space')
                except Exception as e:
                    ctx.violation('wrapper:' + form, cfg, 'raises:' + type(e).__name__, leaf=lname, message=str(e)[:200])
    # (b) mixed fields
    c3, r3 = odl.cn(3), odl.rn(3)
    z = c3.element(rng.normal(size=3) + 1j * rng.normal(size=3))
    xr = r3.element(rng.normal(size=3))
    cs = 1.5 - 0.5j
    v = r3.element(rng.normal(size=3))
    mixed = [('ComplexModulus', odl.ComplexModulus(c3), lambda a: np.abs(a), z, 'c->r'), ('ComplexModulusSquared', odl.ComplexModulusSquared(c3), lambda a: np.abs(a) ** 2, z, 'c->r'),
             ('RealPart+v', odl.RealPart(c3) + v, lambda a: a.real + np.asarray(v), z, 'c->r'),
             ('ComplexEmbedding**2', odl.PowerOperator(c3, 2) * odl.ComplexEmbedding(r3), lambda a: (a.astype(complex)) ** 2, xr, 'r->c')]
    for lname, A, ref, pt, kind in mixed:
        pa = np.asarray(pt)
        forms = [('A*s', lambda: A * cs, lambda: ref(cs * pa)), ('A/s', lambda: A / cs, lambda: ref(pa / cs)), ('A@s', lambda: A @ cs, lambda: ref(cs * pa)),
                 ('(A*2.0)*s', lambda: (A * 2.0) * cs, lambda: ref(2.0 * cs * pa))] if kind == 'c->r' else \
                [('s*A', lambda: cs * A, lambda: cs * ref(pa)), ('s@A', lambda: cs @ A, lambda: cs * ref(pa)), ('-(s*A)', lambda: -(cs * A), lambda: -cs * ref(pa))]
        for form, mk, want in forms:
            ctx.ev('reference-interpreter')
            ctx.case('scalar-kinds;mixed-field;%s' % form, lname)
            cfg = 'mixed-fields;%s' % kind
            try:
                got = np.asarray(mk()(pt))
                if not np.allclose(got, want(), rtol=1e-12, atol=1e-12):
                    ctx.violation('wrapper:' + form, cfg, 'value', leaf=lname)
            except Exception as e:
                ctx.violation('wrapper:' + form, cfg, 'raises:' + type(e).__name__, leaf=lname, message=str(e)[:200])


def run_functional_across_fields(ctx):
    """(f o A)(x) = f(A(x)) for a functional on a complex space after an operator from a real space (and the other way round):
    the value, and a range that contains it."""
    rng = ctx.rng('functional-across-fields')
    c3, r3 = odl.cn(3), odl.rn(3)
    xr = r3.element(rng.normal(size=3))
    zc = c3.element(rng.normal(size=3) + 1j * rng.normal(size=3))
    w = c3.element(rng.normal(size=3) + 1j * rng.normal(size=3))
    cases = [('L2NormSquared(cn) o ComplexEmbedding(rn)', lambda: S.L2NormSquared(c3) * odl.ComplexEmbedding(r3), xr, lambda a: np.sum(np.abs(a) ** 2), 'r->c->C'),
             ('L2Norm(cn) o ComplexEmbedding(rn)', lambda: S.L2Norm(c3) * odl.ComplexEmbedding(r3), xr, lambda a: np.sqrt(np.sum(np.abs(a) ** 2)), 'r->c->C'),
             ('InnerProduct(cn) o ComplexEmbedding(rn)', lambda: odl.InnerProductOperator(w) * odl.ComplexEmbedding(r3), xr, lambda a: np.sum(a * np.conj(np.asarray(w))), 'r->c->C'),
             ('L2NormSquared(rn) o RealPart(cn)', lambda: S.L2NormSquared(r3) * odl.RealPart(c3), zc, lambda a: np.sum(a.real ** 2), 'c->r->R'),
             ('L1Norm(rn) o ComplexModulus(cn)', lambda: S.L1Norm(r3) * odl.ComplexModulus(c3), zc, lambda a: np.sum(np.abs(a)), 'c->r->R')]
    for name, mk, pt, ref, kind in cases:
        ctx.ev('reference-interpreter')
        ctx.case('functional-across-fields;' + name, 0)
        cfg = 'fields;' + kind
        try:
            F = mk()
            got = F(pt)
            want = ref(np.asarray(pt))
            if not np.isclose(got, want, rtol=1e-12, atol=1e-12):
                ctx.violation('FunctionalComp', cfg, 'value', expr=name, got=complex(got), ref=complex(want))
            if got not in F.range:
                ctx.violation('FunctionalComp', cfg, 'result-not-in-range', expr=name)
        except Exception as e:
            ctx.violation('FunctionalComp', cfg, 'raises:' + type(e).__name__, expr=name, message=str(e)[:200])


def run_curve_times_functional(ctx):
    """op * functional with an operator whose domain is the field (a curve t -> t*y): (C * f)(x) = C(f(x)) maps the space into
    itself.  When both factors are expression objects of related classes (2*C and 3*f, C+C2 and f+g, ...) Python tries the
    reflected overload of the right operand first - the composition order must still be that of the expression."""
    rng = ctx.rng('curve-times-functional')
    sp = odl.rn(3)
    y, y2, v = sp.element(rng.normal(size=3)), sp.element(rng.normal(size=3)), sp.element(rng.normal(size=3))
    ya, y2a, va = np.asarray(y), np.asarray(y2), np.asarray(v)
    C = odl.MultiplyOperator(y, domain=sp.field)        # t -> t * y
    C2 = odl.MultiplyOperator(y2, domain=sp.field)
    f, g = S.L2NormSquared(sp), S.L1Norm(sp)
    fr = lambda a: float(np.sum(a ** 2))
    gr = lambda a: float(np.sum(np.abs(a)))
    M = odl.MatrixOperator(rng.normal(size=(3, 3)), sp, sp)
    Ma = M.matrix
    cases = [('C*f', lambda: C * f, lambda a: fr(a) * ya), ('(2*C)*f', lambda: (2 * C) * f, lambda a: 2 * fr(a) * ya), ('C*(3*f)', lambda: C * (3 * f), lambda a: 3 * fr(a) * ya),
             ('(2*C)*(3*f)', lambda: (2 * C) * (3 * f), lambda a: 2 * 3 * fr(a) * ya), ('(C*2.0)*(f*0.5)', lambda: (C * 2.0) * (f * 0.5), lambda a: 2.0 * fr(0.5 * a) * ya),
             ('(C+C2)*(f+g)', lambda: (C + C2) * (f + g), lambda a: (fr(a) + gr(a)) * (ya + y2a)), ('(C*2.0)*(f*M)', lambda: (C * 2.0) * (f * M), lambda a: 2.0 * fr(Ma @ a) * ya),
             ('(-C)*(-f)', lambda: (-C) * (-f), lambda a: fr(a) * ya), ('(C+v)*(f+1.5)', lambda: (C + v) * (f + 1.5), lambda a: (fr(a) + 1.5) * ya + va)]
    for name, mk, ref in cases:
        ctx.ev('reference-interpreter')
        ctx.case('curve-times-functional;' + name, 0)
        cfg = 'operator-with-field-domain o functional'
        try:
            W = mk()
            x = sp.element(rng.normal(size=3))
            if W.domain != sp or W.range != sp:
                ctx.violation('OperatorComp', cfg, 'domain/range', expr=name, got=(util.srepr(W.domain, 40), util.srepr(W.range, 40)))
                continue
            got = np.asarray(W(x))
            want = ref(np.asarray(x))
            if not np.allclose(got, want, rtol=1e-12, atol=1e-12):
                ctx.violation('OperatorComp', cfg, 'value', expr=name, got=got, ref=want)
        except Exception as e:
            ctx.violation('OperatorComp', cfg, 'raises:' + type(e).__name__, expr=name, message=str(e)[:200])


def run(ctx):
    ctx.note('rule', 'one case = one expression tree (text form is the key); depth-2 trees: every ordered pair of the %d '
                     'combinators x {linear, nonlinear, functional} leaves x {R, C} x scalar classes; deeper trees seeded; '
                     'Functional overloads incl. scalar 0; distinct = distinct expression texts; non-trivial = depth >= 1'
                     % len(COMBINATORS))
    from odl.operator import operator as opm
    cov = cover.Cover()
    for m in ('__add__', '__radd__', '__sub__', '__rsub__', '__mul__', '__rmul__', '__matmul__', '__rmatmul__', '__pow__', '__truediv__', '__neg__', '__pos__'):
        cov.add(vars(opm.Operator).get(m), 'Operator.' + m)
        cov.add(vars(S.Functional).get(m), 'Functional.' + m)
    for cname in ('OperatorSum', 'OperatorVectorSum', 'OperatorComp', 'OperatorPointwiseProduct', 'OperatorLeftScalarMult',
                  'OperatorRightScalarMult', 'FunctionalLeftVectorMult', 'OperatorLeftVectorMult', 'OperatorRightVectorMult'):
        c = getattr(opm, cname, None)
        if c is not None:
            for m in ('__init__', '_call', '__mul__', '__rmul__'):
                cov.add(vars(c).get(m), '%s.%s' % (cname, m))
    cov.arm()
    run_depth2(ctx)
    run_random_trees(ctx)
    run_registry_wrappers(ctx)
    if ctx.shard == 0:
        run_scalar_kinds(ctx)
        run_functional_overloads(ctx)
        run_functional_across_fields(ctx)
        run_curve_times_functional(ctx)
    cov.disarm()
    n_exec, n_hit, unreached = cov.report()
    ctx.note('line_coverage', {'executable': n_exec, 'hit': n_hit})
    for u in unreached:
        ctx.note_set('unreached_lines', u)
