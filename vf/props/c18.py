"""C18 -- Fourier and wavelet transforms invert exactly and agree across back-ends.

Deciding monitors
  dft-vs-numpy      : DiscreteFourierTransform == numpy.fft (fftn / rfftn / unnormalised ifftn), every shape x axes
                      subset x halfcomplex x sign x dtype x impl; in-place == out-of-place (NaN prefill); repeated
                      calls (plan cache, S-reuse); input snapshots of forward *and* inverse (S-snapshot).
  dft-inverse       : DiscreteFourierTransformInverse(F(x)) == x, F.inverse(F(x)) == x, twice.
  backends-agree    : numpy vs pyfftw.
  ft-quadrature     : FourierTransform == direct O(n^2) quadrature of the piecewise-constant interpolant on the
                      operator's own range grid; independent reciprocal-grid model.
  ft-inverse        : ft.inverse(ft(x)) == x; in-place; repeatable; user temporaries.
  ft-refinement     : second-order convergence to the analytic transform of a Gaussian (each doubling >= 3x).
  wavelet-vs-pywt   : coefficients == raw pywt.wavedecn; round trip no worse than raw pywt; adjoint identity for
                      orthogonal wavelets with periodization (W and W.inverse, non-unit cells).
"""

import itertools

import numpy as np
import odl
import pywt

from .. import cover, util

SHARDS = {'quick': 4, 'thorough': 16}
T = odl.trafos


def axes_subsets(nd):
    for k in range(1, nd + 1):
        for c in itertools.combinations(range(nd), k):
            yield c


def prec(dt):
    return 'single' if np.dtype(dt) in (np.float32, np.complex64) else 'double'


def rnd(rng, shape, dt):
    a = rng.normal(size=shape)
    if np.dtype(dt).kind == 'c':
        a = a + 1j * rng.normal(size=shape)
    return a.astype(dt)


def parity(n):
    return 'len1' if n == 1 else ('len2' if n == 2 else ('even' if n % 2 == 0 else 'odd'))


# ---------------------------------------------------------------------------------------------------------------


def run_dft(ctx):
    rng = ctx.rng('dft')
    shapes = [(4,), (5,), (1,), (2,), (4, 5), (3, 4), (5, 3), (2, 3, 4), (3, 3, 3), (1, 4), (6, 1)]
    idx = 0
    for shape in shapes:
        nd = len(shape)
        for dt in ('float64', 'float32', 'complex128', 'complex64'):
            real = np.dtype(dt).kind == 'f'
            for axes in axes_subsets(nd):
                for hc in ((False, True) if real else (False,)):
                    for sign in ('-', '+'):
                        if hc and sign == '+':
                            continue
                        idx += 1
                        if not ctx.mine(idx):
                            continue
                        sp = odl.uniform_discr([0] * nd, [1] * nd, shape, dtype=dt)
                        xa = rnd(rng, shape, dt)
                        x = sp.element(xa)
                        tol = 1e-4 if prec(dt) == 'single' else 1e-10
                        outs = {}
                        base = '%s;%s;%s;sign%s;%dd-%daxes;halved=%s' % ('real' if real else 'complex', 'hc' if hc else 'full', prec(dt), sign,
                                                                        min(nd, 2), min(len(axes), 2), parity(shape[axes[-1]]))
                        for impl in ('numpy', 'pyfftw'):
                            cfg = impl + ';' + base
                            ctx.case('dft;' + cfg, (shape, axes))
                            ctx.ev('dft-vs-numpy')
                            try:
                                F = T.DiscreteFourierTransform(sp, axes=axes, halfcomplex=hc, sign=sign, impl=impl)
                            except Exception as e:
                                ctx.violation('DiscreteFourierTransform', cfg, 'ctor-raises:' + type(e).__name__, message=str(e)[:200], shape=shape, axes=axes)
                                continue
                            try:
                                y = F(x)
                                if hc:
                                    ref = np.fft.rfftn(xa, axes=axes)
                                elif sign == '-':
                                    ref = np.fft.fftn(xa, axes=axes)
                                else:
                                    ref = np.fft.ifftn(xa, axes=axes) * np.prod([shape[a] for a in axes])
                                sc = max(1.0, float(np.abs(ref).max()))
                                if np.asarray(y).shape != ref.shape or not np.allclose(y, ref, rtol=tol, atol=tol * sc):
                                    ctx.violation('DiscreteFourierTransform', cfg, '!=numpy.fft', shape=shape, axes=axes)
                                y2 = F(x)
                                if not np.array_equal(np.asarray(y), np.asarray(y2)):
                                    ctx.violation('DiscreteFourierTransform', cfg, 'not-repeatable', shape=shape, axes=axes)
                                out = util.fill(F.range.element(), 'nan')
                                r = F(x, out=out)
                                if r is not out or not np.allclose(out, y, rtol=tol, atol=tol * sc):
                                    ctx.violation('DiscreteFourierTransform', cfg, 'inplace!=oop', shape=shape, axes=axes)
                                if not np.array_equal(np.asarray(x), xa):
                                    ctx.violation('DiscreteFourierTransform', cfg, 'input-modified', shape=shape, axes=axes)
                                ctx.ev('dft-inverse')
                                Fi = T.DiscreteFourierTransformInverse(sp, axes=axes, halfcomplex=hc, sign='+' if sign == '-' else '-', impl=impl)
                                ycopy = np.asarray(y).copy()
                                for rep in (1, 2):
                                    xr = Fi(y)
                                    if not np.allclose(xr, xa, rtol=tol, atol=tol * 10):
                                        ctx.violation('DiscreteFourierTransformInverse', cfg, 'inverse(forward(x))!=x', call=rep, shape=shape, axes=axes)
                                        break
                                if not np.array_equal(np.asarray(y), ycopy):
                                    ctx.violation('DiscreteFourierTransformInverse', cfg, 'input-modified', shape=shape, axes=axes)
                                outi = util.fill(sp.element(), 'nan')
                                Fi(y, out=outi)
                                if not np.allclose(outi, xa, rtol=tol, atol=tol * 10):
                                    ctx.violation('DiscreteFourierTransformInverse', cfg, 'inplace!=oop', shape=shape, axes=axes)
                                inv = F.inverse
                                if getattr(inv, 'impl', impl) != impl:
                                    ctx.violation('DiscreteFourierTransform', cfg, 'inverse-uses-other-backend', got=inv.impl)
                                xi = inv(y)
                                if not np.allclose(xi, xa, rtol=tol, atol=tol * 10):
                                    ctx.violation('DiscreteFourierTransform', cfg, 'F.inverse(F(x))!=x', shape=shape, axes=axes)
                                if inv.inverse(xi) not in F.range:
                                    ctx.violation('DiscreteFourierTransform', cfg, 'inverse.inverse-range')
                                outs[impl] = np.asarray(y).copy()
                            except Exception as e:
                                ctx.violation('DiscreteFourierTransform', cfg, 'raises:' + type(e).__name__, message=str(e)[:200], shape=shape, axes=axes)
                        if len(outs) == 2:
                            ctx.ev('backends-agree')
                            if not np.allclose(outs['numpy'], outs['pyfftw'], rtol=tol, atol=tol * max(1.0, np.abs(outs['numpy']).max())):
                                ctx.violation('DiscreteFourierTransform', base, 'backends-differ', shape=shape, axes=axes)
                        if idx % 97 == 0:
                            ctx.sample({'DiscreteFourierTransform': {'shape': shape, 'dtype': dt, 'axes': axes, 'halfcomplex': hc, 'sign': sign}})


def ref_ft(sp, xa, axes, sign, F):
    out = xa.astype(complex)
    sgn = -1 if sign == '-' else 1
    for ax in axes:
        x = sp.grid.coord_vectors[ax]
        h = sp.cell_sides[ax]
        xi = F.range.grid.coord_vectors[ax]
        K = np.exp(sgn * 1j * np.outer(xi, x)) * h * np.sinc(h * xi / (2 * np.pi))[:, None] / np.sqrt(2 * np.pi)
        out = np.moveaxis(np.tensordot(K, out, axes=(1, ax)), 0, ax)
    return out


def ref_recip(sp, axes, shifts, hc):
    vecs = []
    for ax, sh in zip(axes, shifts):
        nn = sp.shape[ax]
        h = sp.cell_sides[ax]
        rmin = -np.pi / h if sh else -(1 - 1.0 / nn) * np.pi / h
        v = rmin + 2 * np.pi * np.arange(nn) / (nn * h)
        if hc and ax == axes[-1]:
            v = v[:nn // 2 + 1]
        vecs.append(v)
    return vecs


def run_ft(ctx):
    rng = ctx.rng('ft')
    # (axes of equal length included: anything keyed on the axis length alone must not mix up per-axis options)
    shapes = [(4,), (5,), (6,), (7,), (2,), (4, 5), (5, 4), (4, 4), (5, 5), (3, 4, 5), (4, 3, 4)]
    idx = 0
    for shape in shapes:
        nd = len(shape)
        for dt in ('float64', 'complex128', 'float32'):
            real = np.dtype(dt).kind == 'f'
            for axes in axes_subsets(nd):
                for hc in ((False, True) if real else (False,)):
                    for shift in itertools.product([True, False], repeat=len(axes)):
                        if hc and not shift[-1]:
                            continue   # documented: half-complex needs a shifted last axis
                        for sign in ('-', '+'):
                            if hc and sign == '+':
                                continue
                            idx += 1
                            if not ctx.mine(idx):
                                continue
                            sp = odl.uniform_discr([-1.0] * nd, [1.5, 2.0, 0.7][:nd], shape, dtype=dt)
                            xa = rnd(rng, shape, dt)
                            x = sp.element(xa)
                            tol = 1e-4 if prec(dt) == 'single' else 1e-9
                            shiftcls = 'all-shifted' if all(shift) else ('unshifted-nonlast' if hc and not all(shift[:-1]) else 'some-unshifted')
                            base = '%s;%s;%s;sign%s;%s;%dd-%daxes;halved=%s' % ('real' if real else 'complex', 'hc' if hc else 'full', prec(dt), sign, shiftcls,
                                                                               min(nd, 2), min(len(axes), 2), parity(shape[axes[-1]]))
                            if shiftcls == 'unshifted-nonlast':
                                base = 'real;hc;unshifted-nonlast'     # one mechanism whatever precision / parity / sign
                            outs = {}
                            for impl in ('numpy', 'pyfftw'):
                                cfg = impl + ';' + base
                                ctx.case('ft;' + cfg, (shape, axes, shift))
                                try:
                                    F = T.FourierTransform(sp, axes=axes, halfcomplex=hc, shift=list(shift), sign=sign, impl=impl)
                                except Exception as e:
                                    ctx.ev('ft-quadrature')
                                    ctx.violation('FourierTransform', cfg, 'ctor-raises:' + type(e).__name__, message=str(e)[:200], shape=shape, axes=axes, shift=shift)
                                    continue
                                try:
                                    ctx.ev('ft-quadrature')
                                    for ax, v in zip(axes, ref_recip(sp, axes, shift, hc)):
                                        got = F.range.grid.coord_vectors[ax]
                                        if got.shape != v.shape or not np.allclose(got, v, atol=1e-12 * max(1, np.abs(v).max())):
                                            ctx.violation('FourierTransform', cfg, 'reciprocal-grid!=model', shape=shape, axes=axes, shift=shift)
                                    y = F(x)
                                    ya = np.asarray(y)
                                    ref = ref_ft(sp, xa, axes, sign, F)
                                    if ya.shape != ref.shape or not np.allclose(ya, ref, rtol=tol, atol=tol * 0.1 * max(1e-300, np.abs(ref).max())):
                                        ctx.violation('FourierTransform', cfg, '!=direct-quadrature', shape=shape, axes=axes, shift=shift)
                                    ctx.ev('ft-inverse')
                                    xr = F.inverse(y)
                                    if not np.allclose(xr, xa, rtol=tol, atol=tol * 10):
                                        ctx.violation('FourierTransform', cfg, 'inverse(forward(x))!=x', shape=shape, axes=axes, shift=shift)
                                    y2 = F(x)
                                    if not np.allclose(y, y2, rtol=tol, atol=tol):
                                        ctx.violation('FourierTransform', cfg, 'not-repeatable', shape=shape, axes=axes, shift=shift)
                                    if not np.array_equal(np.asarray(x), xa):
                                        ctx.violation('FourierTransform', cfg, 'input-modified', shape=shape, axes=axes, shift=shift)
                                    out = util.fill(F.range.element(), 'nan')
                                    F(x, out=out)
                                    if not np.allclose(out, y, rtol=tol, atol=tol):
                                        ctx.violation('FourierTransform', cfg, 'inplace!=oop', shape=shape, axes=axes, shift=shift)
                                    ycopy = ya.copy()
                                    F.inverse(y)
                                    if not np.array_equal(np.asarray(y), ycopy):
                                        ctx.violation('FourierTransformInverse', cfg, 'input-modified', shape=shape, axes=axes, shift=shift)
                                    outs[impl] = ya.copy()
                                except Exception as e:
                                    ctx.violation('FourierTransform', cfg, 'raises:' + type(e).__name__, message=str(e)[:200], shape=shape, axes=axes, shift=shift)
                            if len(outs) == 2:
                                ctx.ev('backends-agree')
                                if not np.allclose(outs['numpy'], outs['pyfftw'], rtol=tol, atol=tol * max(1e-300, np.abs(outs['numpy']).max())):
                                    ctx.violation('FourierTransform', base, 'backends-differ', shape=shape, axes=axes, shift=shift)
    # user temporaries (S-reuse): shared poisoned temporaries, two operators sharing them
    for dt in ('float64', 'complex128'):
        for impl in ('numpy', 'pyfftw'):
            ctx.ev('ft-inverse')
            cfg = '%s;%s;user-temporaries' % (impl, 'real' if dt == 'float64' else 'complex')
            ctx.case('ft;' + cfg, 0)
            try:
                sp = odl.uniform_discr([-1, -1], [1, 2], (4, 6), dtype=dt)
                F0 = T.FourierTransform(sp, impl=impl)
                tmp_r = util.fill(sp.element(), 'nan')
                tmp_f = util.fill(F0.range.element(), 'nan')
                kw = {'tmp_r': tmp_r, 'tmp_f': tmp_f} if dt == 'complex128' else {'tmp_f': tmp_f}
                F1 = T.FourierTransform(sp, impl=impl, **kw)
                F2 = T.FourierTransform(sp, impl=impl, sign='+' if dt == 'complex128' else '-', **kw)
                xa = rnd(rng, sp.shape, dt)
                x = sp.element(xa)
                a0 = np.asarray(F0(x)).copy()
                a1 = np.asarray(F1(x)).copy()
                F2(x)
                a1b = np.asarray(F1(x)).copy()
                if not np.allclose(a1, a0, rtol=1e-10, atol=1e-12) or not np.allclose(a1b, a0, rtol=1e-10, atol=1e-12):
                    ctx.violation('FourierTransform', cfg, 'temporaries-change-result')
                if not np.allclose(F1.inverse(F1(x)), xa, rtol=1e-9, atol=1e-10):
                    ctx.violation('FourierTransform', cfg, 'inverse(forward(x))!=x')
                if not np.array_equal(np.asarray(x), xa):
                    ctx.violation('FourierTransform', cfg, 'input-modified')
            except Exception as e:
                ctx.violation('FourierTransform', cfg, 'raises:' + type(e).__name__, message=str(e)[:200])


def run_planning(ctx):
    """FFTW planner options: with 'measure' or more effort the planner overwrites the arrays it plans with, so the first
    call for a (shape, dtype, direction) in a process is the hostile one (later calls hit the accumulated wisdom).  Every
    worker process is fresh; shapes are drawn per case.  Values must equal the NumPy back-end / numpy.fft and the input
    must survive."""
    try:
        from odl.trafos.backends.pyfftw_bindings import pyfftw_call, PYFFTW_AVAILABLE
    except Exception:
        return
    if not PYFFTW_AVAILABLE:
        ctx.note('planning', 'pyfftw not available')
        return
    rng = ctx.rng('planning')
    for it in range(ctx.reps(6, 20)):
        nd = int(rng.integers(1, 4))
        shape = tuple(int(k) for k in rng.integers(3, 10, size=nd))
        effort = ['measure', 'patient'][it % 2]
        a = rng.normal(size=shape)
        ac = a + 1j * rng.normal(size=shape)
        # pyfftw_call directly: real / complex input, half-complex, in-place
        calls = [('real->complex', a, lambda: np.empty(shape, dtype=complex), dict(halfcomplex=False), np.fft.fftn(a)),
                 ('complex->complex', ac, lambda: np.empty(shape, dtype=complex), dict(), np.fft.fftn(ac)),
                 ('real->halfcomplex', a, lambda: np.empty(shape[:-1] + (shape[-1] // 2 + 1,), dtype=complex), dict(halfcomplex=True), np.fft.rfftn(a))]
        for cname, src, mkout, kw, ref in calls:
            ctx.ev('dft-vs-numpy')
            ctx.case('planning;pyfftw_call;%s;%s' % (cname, effort), (shape,))
            cfg = 'pyfftw;planning=%s;%s' % (effort, cname)
            try:
                inp = src.copy()
                out = mkout()
                pyfftw_call(inp, out, planning_effort=effort, **kw)
                if not np.allclose(out, ref, rtol=1e-10, atol=1e-10 * max(1.0, np.abs(ref).max())):
                    ctx.violation('pyfftw_call', cfg, '!=numpy.fft', shape=shape)
                if not np.array_equal(inp, src):
                    ctx.violation('pyfftw_call', cfg, 'input-modified', shape=shape)
            except Exception as e:
                ctx.violation('pyfftw_call', cfg, 'raises:' + type(e).__name__, message=str(e)[:200], shape=shape)
        ctx.ev('dft-vs-numpy')
        try:
            z = ac.copy()
            pyfftw_call(z, z, planning_effort=effort)
            if not np.allclose(z, np.fft.fftn(ac), rtol=1e-10, atol=1e-10 * max(1.0, np.abs(ac).max() * ac.size)):
                ctx.violation('pyfftw_call', 'pyfftw;planning=%s;in-place' % effort, '!=numpy.fft', shape=shape)
        except Exception as e:
            ctx.violation('pyfftw_call', 'pyfftw;planning=%s;in-place' % effort, 'raises:' + type(e).__name__, message=str(e)[:200], shape=shape)
        # in-place transforms of lengths beyond a single codelet (a plan made for two different arrays is not one for in-place use)
        if it < 4:
            for bshape in [(40,), (100,), (257,), (100, 100), (48, 36)][it::4] + [(64,)]:
                ctx.ev('dft-vs-numpy')
                ctx.case('planning;pyfftw_call;in-place;large;%s' % effort, bshape)
                try:
                    zc = rng.normal(size=bshape) + 1j * rng.normal(size=bshape)
                    refz = np.fft.fftn(zc)
                    z = zc.copy()
                    pyfftw_call(z, z, planning_effort=effort)
                    if not np.allclose(z, refz, rtol=1e-10, atol=1e-10 * np.abs(refz).max()):
                        ctx.violation('pyfftw_call', 'pyfftw;planning=%s;in-place' % effort, '!=numpy.fft', shape=bshape)
                    sp_b = odl.uniform_discr([-1.0] * len(bshape), [1.0] * len(bshape), bshape, dtype=complex)
                    Fb = T.FourierTransform(sp_b, impl='pyfftw')
                    xb = sp_b.element(zc.copy())
                    yb = Fb(xb, planning_effort=effort)
                    back = Fb.inverse(yb, planning_effort=effort)
                    if not np.allclose(back, zc, rtol=1e-9, atol=1e-9 * np.abs(zc).max()):
                        ctx.violation('FourierTransformInverse', 'pyfftw;planning=%s;call-kwarg;complex;large' % effort, 'inverse(forward(x))!=x', shape=bshape)
                except Exception as e:
                    ctx.violation('pyfftw_call', 'pyfftw;planning=%s;in-place' % effort, 'raises:' + type(e).__name__, message=str(e)[:200], shape=bshape)
        # the operators, option handed through the call and through init_fftw_plan
        shape2 = tuple(int(k) for k in rng.integers(3, 10, size=nd))
        for dt in ('float64', 'complex128'):
            sp = odl.uniform_discr([-1.0] * nd, [1.0] * nd, shape2, dtype=dt)
            x = util.rand_element(sp, rng)
            xa = np.asarray(x).copy()
            for opname, mk in (('FourierTransform', lambda impl: T.FourierTransform(sp, impl=impl, halfcomplex=False)),
                               ('FourierTransform/hc', lambda impl: T.FourierTransform(sp, impl=impl)),
                               ('FourierTransform/sign+', lambda impl: T.FourierTransform(sp, impl=impl, halfcomplex=False, sign='+')),
                               ('DiscreteFourierTransform', lambda impl: T.DiscreteFourierTransform(sp, impl=impl, halfcomplex=False)),
                               ('DiscreteFourierTransform/sign+', lambda impl: T.DiscreteFourierTransform(sp, impl=impl, halfcomplex=False, sign='+')),
                               ('DiscreteFourierTransformInverse/sign+', lambda impl: T.DiscreteFourierTransform(sp, impl=impl, halfcomplex=False, sign='+').inverse),
                               ('DiscreteFourierTransformInverse', lambda impl: T.DiscreteFourierTransform(sp, impl=impl, halfcomplex=False).inverse)):
                for how in ('call-kwarg', 'init_fftw_plan'):
                    ctx.ev('backends-agree')
                    ctx.case('planning;%s;%s;%s' % (opname, how, effort), (shape2, dt))
                    cfg = 'pyfftw;planning=%s;%s;%s' % (effort, how, 'real' if dt == 'float64' else 'complex')
                    try:
                        Fn, Fp = mk('numpy'), mk('pyfftw')
                        x = util.rand_element(Fp.domain, rng)
                        if 'Inverse' in opname and dt == 'float64':
                            # the inverse to a real space is only defined on transforms of real data
                            x = Fn.inverse(util.rand_element(Fn.range, rng))
                        xa = np.asarray(x).copy()
                        if '/' in opname:
                            cfg = cfg + ';' + opname.split('/')[1]
                        ref = np.asarray(Fn(x))
                        if how == 'call-kwarg':
                            got = np.asarray(Fp(x, planning_effort=effort)) if opname.startswith('Fourier') else np.asarray(Fp(x, flags=('FFTW_' + effort.upper(),)))
                        else:
                            Fp.init_fftw_plan(planning_effort=effort)
                            got = np.asarray(Fp(x))
                        if not np.allclose(got, ref, rtol=1e-10, atol=1e-10 * max(1e-300, np.abs(ref).max())):
                            ctx.violation(opname.split('/')[0], cfg, 'backends-differ', shape=shape2)
                        if not np.array_equal(np.asarray(x), xa):
                            ctx.violation(opname.split('/')[0], cfg, 'input-modified', shape=shape2)
                        ctx.ev('ft-inverse')
                        y = Fp.range.element(ref.copy())
                        back = np.asarray(Fp.inverse(y, planning_effort=effort)) if opname.startswith('Fourier') else np.asarray(Fp.inverse(y, flags=('FFTW_' + effort.upper(),)))
                        if not np.allclose(back, xa, rtol=1e-9, atol=1e-9 * max(1.0, np.abs(xa).max())):
                            ctx.violation(opname.split('/')[0] + 'Inverse', cfg, 'inverse(forward(x))!=x', shape=shape2)
                    except Exception as e:
                        ctx.violation(opname.split('/')[0], cfg, 'raises:' + type(e).__name__, message=str(e)[:200], shape=shape2)


def run_plan_history(ctx):
    """Plans and temporaries prepared ahead of the call (init_fftw_plan(), create_temporaries()) on lengths that FFTW does not
    handle with a single codelet: a prepared out-of-place plan executed in place, or scratch memory of the wrong space, still
    "works" on tiny arrays.  Each operator is evaluated before and after the preparation, out-of-place and in-place, against
    numpy.fft / the unprepared operator."""
    rng = ctx.rng('plan-history')
    idx = 50000
    shapes = [(64,), (1000,), (30, 40), (31, 45), (16, 16), (5, 6, 7)]
    for shape, dt, hc, sign, impl in itertools.product(shapes, ('float64', 'float32', 'complex128'), (False, True), ('-', '+'), ('pyfftw', 'numpy')):
        if (dt == 'complex128' and hc) or (hc and sign == '+'):
            continue       # half-complex needs real data and is documented for sign '-' only
        idx += 1
        if not ctx.mine(idx):
            continue
        if not ctx.thorough and (sign == '+' and shape not in ((64,), (30, 40))):
            continue
        nd = len(shape)
        tol = 2e-4 if dt == 'float32' else 1e-10
        cfg = '%s;%s;%s;sign%s;%s' % (impl, 'real' if dt != 'complex128' else 'complex', 'hc' if hc else 'full', sign, 'single' if dt == 'float32' else 'double')
        sp = odl.uniform_discr([-1.0] * nd, [1.0] * nd, shape, dtype=dt)
        xa = (rng.normal(size=shape) + (1j * rng.normal(size=shape) if dt == 'complex128' else 0)).astype(dt)
        # --- discrete transform with a plan prepared ahead
        if impl == 'pyfftw':
            ctx.ev('dft-vs-numpy')
            ctx.case('plan-history;dft;' + cfg, shape)
            try:
                F = T.DiscreteFourierTransform(sp, impl=impl, halfcomplex=hc, sign=sign)
                wide = xa.astype(complex if dt != 'float32' else 'complex64') if not hc else xa
                if hc:
                    ref = np.fft.rfftn(xa) if sign == '-' else np.conj(np.fft.rfftn(xa))
                else:
                    ref = np.fft.fftn(xa) if sign == '-' else np.fft.ifftn(xa) * xa.size
                sc = max(1.0, float(np.abs(ref).max()))
                for stage in ('first-call', 'after-init_fftw_plan', 'after-init_fftw_plan;in-place', 'third-call'):
                    if stage == 'after-init_fftw_plan':
                        F.init_fftw_plan()
                    x = sp.element(xa.copy())
                    if stage.endswith('in-place'):
                        out = F.range.element()
                        F(x, out=out)
                        got = np.asarray(out)
                    else:
                        got = np.asarray(F(x))
                    if not np.allclose(got, ref, rtol=tol, atol=tol * sc):
                        ctx.violation('DiscreteFourierTransform', cfg + ';' + stage.split(';')[0], '!=numpy.fft', shape=shape, stage=stage,
                                      relerr=float(np.abs(got - ref).max() / sc))
                        break
                    if not np.array_equal(np.asarray(x), xa):
                        ctx.violation('DiscreteFourierTransform', cfg + ';' + stage.split(';')[0], 'input-modified', shape=shape, stage=stage)
                        break
                for prepared in (False, True):
                    Fi = F.inverse
                    if prepared:
                        Fi.init_fftw_plan()
                    yin = F.range.element(ref.astype(F.range.dtype))
                    ykeep = np.asarray(yin).copy()
                    for call_no in (1, 2):
                        back = np.asarray(Fi(yin))
                        stage = ('after-init_fftw_plan' if prepared else 'first-call')
                        if not np.allclose(back, xa, rtol=tol, atol=tol * max(1.0, float(np.abs(xa).max()))):
                            ctx.violation('DiscreteFourierTransformInverse', cfg + ';' + stage, 'inverse(forward(x))!=x', shape=shape, call=call_no)
                            break
                        if not np.array_equal(np.asarray(yin), ykeep):
                            ctx.violation('DiscreteFourierTransformInverse', cfg + ';' + stage, 'input-modified', shape=shape, call=call_no)
                            break
            except Exception as e:
                ctx.violation('DiscreteFourierTransform', cfg, 'raises:' + type(e).__name__, message=str(e)[:200], shape=shape)
        # --- continuous transform and its inverse with temporaries prepared ahead
        ctx.ev('ft-inverse')
        ctx.case('plan-history;ft;' + cfg, shape)
        try:
            for which in ('forward', 'inverse', 'inverse-class'):
                F0 = T.FourierTransform(sp, impl=impl, halfcomplex=hc, sign=sign)
                F1 = T.FourierTransform(sp, impl=impl, halfcomplex=hc, sign=sign)
                if which == 'inverse':
                    F0, F1 = F0.inverse, F1.inverse
                elif which == 'inverse-class':
                    # the class built directly: it *has* the opposite sign of the forward transform it inverts
                    isign = '+' if sign == '-' else '-'
                    F0 = T.FourierTransformInverse(sp, impl=impl, halfcomplex=hc, sign=isign)
                    F1 = T.FourierTransformInverse(sp, impl=impl, halfcomplex=hc, sign=isign)
                if which == 'forward':
                    x = F0.domain.element(xa.copy())
                else:
                    # data on which the inverse is defined: a transform of real-space data
                    x = F0.domain.element(np.asarray(T.FourierTransform(sp, impl=impl, halfcomplex=hc, sign=sign)(sp.element(xa.copy()))))
                xk = np.asarray(x).copy()
                ref = np.asarray(F0(x))
                F1.create_temporaries()
                got = np.asarray(F1(x))
                sc = max(1e-300, float(np.abs(ref).max()))
                if not np.allclose(got, ref, rtol=tol, atol=tol * sc):
                    ctx.violation('FourierTransform' + ('' if which == 'forward' else 'Inverse'), cfg + ';create_temporaries', 'value-differs-from-unprepared-operator',
                                  shape=shape, which=which, relerr=float(np.abs(got - ref).max() / sc))
                out = F1.range.element()
                F1(x, out=out)
                if not np.allclose(np.asarray(out), ref, rtol=tol, atol=tol * sc):
                    ctx.violation('FourierTransform' + ('' if which == 'forward' else 'Inverse'), cfg + ';create_temporaries', 'inplace!=oop', shape=shape, which=which)
                if not np.array_equal(np.asarray(x), xk):
                    ctx.violation('FourierTransform' + ('' if which == 'forward' else 'Inverse'), cfg + ';create_temporaries', 'input-modified', shape=shape, which=which)
                if which != 'forward':
                    if not np.allclose(got, xa, rtol=max(tol, 1e-8), atol=max(tol, 1e-8) * max(1.0, float(np.abs(xa).max()))):
                        ctx.violation('FourierTransformInverse', cfg + ';create_temporaries', 'inverse(forward(x))!=x', shape=shape, which=which)
        except Exception as e:
            ctx.violation('FourierTransform', cfg + ';create_temporaries', 'raises:' + type(e).__name__, message=str(e)[:200], shape=shape)


def run_refinement(ctx):
    for nd in (1, 2):
        for impl in ('numpy', 'pyfftw'):
            for dt in ('complex128', 'float64'):
                ctx.ev('ft-refinement')
                ctx.case('ft-refinement;%dd;%s;%s' % (nd, impl, dt), 0)
                cfg = '%s;%dd;%s' % (impl, nd, 'real' if dt == 'float64' else 'complex')
                try:
                    errs = []
                    for npts in (16, 32, 64, 128):
                        sp = odl.uniform_discr([-8] * nd, [8] * nd, [npts] * nd, dtype=dt)
                        g = sp.element(lambda x: np.exp(-sum(xi ** 2 for xi in x) / 2))
                        F = T.FourierTransform(sp, impl=impl)
                        ghat = F(g)
                        true = F.range.element(lambda x: np.exp(-sum(xi ** 2 for xi in x) / 2))
                        errs.append(float(np.abs(np.asarray(ghat) - np.asarray(true)).max()))
                    for e1, e2 in zip(errs, errs[1:]):
                        if e1 > 1e-9 and not e2 <= e1 / 3:
                            ctx.violation('FourierTransform', cfg, 'refinement', errors=errs)
                            break
                    if errs[-1] > 2e-3:
                        ctx.violation('FourierTransform', cfg, 'refinement-final-error', errors=errs)
                    ctx.note_set('gaussian_errors', {'cfg': cfg, 'errors': errs})
                except Exception as e:
                    ctx.violation('FourierTransform', cfg, 'raises:' + type(e).__name__, message=str(e)[:200])


def gram_err(A, B, rng):
    dom, ran = A.domain, A.range
    err = sc = 0.0
    xs = [util.rand_element(dom, rng) for _ in range(4)]
    ys = [util.rand_element(ran, rng) for _ in range(4)]
    for x in xs:
        Ax = A(x)
        for y in ys:
            l, r = Ax.inner(y), x.inner(B(y))
            err = max(err, abs(l - r))
            sc = max(sc, abs(l), abs(r))
    return err / max(sc, 1e-300)


def run_wavelets(ctx):
    rng = ctx.rng('wavelets')
    wavelets = ['haar', 'db2', 'db5', 'sym3', 'coif1', 'bior1.3', 'bior2.2', 'rbio1.3', 'dmey']
    if ctx.thorough:
        wavelets = [w for w in pywt.wavelist(kind='discrete')]
    pad_modes = ['constant', 'periodic', 'symmetric', 'order0', 'order1', 'pywt_periodic', 'reflect', 'antisymmetric', 'antireflect']
    shapes = [(8,), (9,), (16,), (13,), (8, 6), (7, 9), (5, 8), (4, 6, 5), (1, 8), (8, 1)]
    idx = 0
    for shape in shapes:
        for wn in wavelets:
            w = pywt.Wavelet(wn)
            for pm in pad_modes:
                for axes in ([None] + ([(0,), (len(shape) - 1,)] if len(shape) > 1 else [])):
                    idx += 1
                    if not ctx.mine(idx):
                        continue
                    if ctx.thorough and wn not in ('haar', 'db2', 'db5', 'sym3', 'coif1', 'bior1.3', 'bior2.2', 'rbio1.3', 'dmey') and (pm not in ('periodic', 'pywt_periodic', 'symmetric') or len(shape) > 2):
                        continue
                    ax_eff = tuple(range(len(shape))) if axes is None else axes
                    maxlev = min(pywt.dwt_max_level(shape[a], w.dec_len) for a in ax_eff)
                    if maxlev < 1:
                        continue
                    cellkind = idx % 2
                    sp = odl.uniform_discr([0] * len(shape), [2.0 * s for s in shape] if cellkind else [0.37 * (i + 1) for i, _ in enumerate(shape)], shape)
                    for nlev in sorted({1, max(1, maxlev)} | ({2} if maxlev >= 2 else set())):
                        odd = any(any((shape[a] + (2 ** l - 1)) // 2 ** l % 2 for l in range(nlev)) for a in ax_eff)
                        oddl = any(_odd_at_some_level(shape[a], nlev) for a in ax_eff)
                        cfg = '%s;%s;%dd;%s' % ('orthogonal' if w.orthogonal and wn != 'dmey' else ('dmey' if wn == 'dmey' else 'biorthogonal'),
                                                'periodization' if pm == 'pywt_periodic' else 'other-pad', min(len(shape), 2), 'odd-at-some-level' if oddl else 'even-at-all-levels')
                        ctx.case('wavelet;%s;%s' % (wn, pm), (shape, axes, nlev))
                        ctx.ev('wavelet-vs-pywt')
                        try:
                            W = T.WaveletTransform(sp, wn, nlevels=nlev, pad_mode=pm, axes=axes) if axes is not None else T.WaveletTransform(sp, wn, nlevels=nlev, pad_mode=pm)
                        except Exception as e:
                            ctx.violation('WaveletTransform', cfg, 'ctor-raises:' + type(e).__name__, message=str(e)[:200], wavelet=wn, pad_mode=pm, shape=shape)
                            continue
                        try:
                            xa = rng.normal(size=shape)
                            x = sp.element(xa)
                            c = W(x)
                            y = W.inverse(c)
                            if c not in W.range or y not in sp:
                                ctx.violation('WaveletTransform', cfg, 'not-in-range', wavelet=wn)
                            if not np.array_equal(np.asarray(x), xa):
                                ctx.violation('WaveletTransform', cfg, 'input-modified', wavelet=wn)
                            pmode = W.pywt_pad_mode
                            cr = pywt.wavedecn(xa, w, mode=pmode, level=nlev, axes=ax_eff)
                            flat = pywt.ravel_coeffs(cr, axes=ax_eff)[0]
                            if np.asarray(c).shape != flat.shape or not np.allclose(np.asarray(c), flat, rtol=0, atol=1e-12):
                                ctx.violation('WaveletTransform', cfg, 'coefficients!=pywt.wavedecn', wavelet=wn, pad_mode=pm, shape=shape, nlevels=nlev)
                            rec = pywt.waverecn(cr, w, mode=pmode, axes=ax_eff)
                            rec = rec[tuple(slice(s) for s in shape)]
                            raw_err = float(np.max(np.abs(rec - xa)))
                            err = float(np.max(np.abs(np.asarray(y) - xa)))
                            if err > max(1e-8, 10 * raw_err):
                                ctx.violation('WaveletTransformInverse', cfg, 'roundtrip-worse-than-pywt', err=err, raw_pywt_err=raw_err, wavelet=wn, pad_mode=pm, shape=shape)
                            out = util.fill(W.range.element(), 'nan')
                            W(x, out=out)
                            if not np.allclose(out, c, rtol=0, atol=1e-13):
                                ctx.violation('WaveletTransform', cfg, 'inplace!=oop', wavelet=wn)
                            if w.orthogonal and pmode == 'periodization' and wn != 'dmey':
                                for nm, A in (('WaveletTransform', W), ('WaveletTransformInverse', W.inverse)):
                                    ctx.ev('wavelet-adjoint')
                                    B = A.adjoint
                                    if B.domain != A.range or B.range != A.domain:
                                        ctx.violation(nm, cfg, 'adjoint-domain/range', wavelet=wn)
                                    e_ = gram_err(A, B, rng)
                                    if e_ > 1e-10:
                                        ctx.violation(nm, cfg, 'adjoint-identity', relerr=e_, wavelet=wn, shape=shape, nlevels=nlev, axes=axes)
                        except Exception as e:
                            ctx.violation('WaveletTransform', cfg, 'raises:' + type(e).__name__, message=str(e)[:200], wavelet=wn, pad_mode=pm, shape=shape)


def run_grids(ctx):
    """realspace_grid is documented as recovering the original grid from its reciprocal grid and the original minimum point.
    A transformed axis with a single point has a reciprocal grid of one point, from which no stride can be recovered -
    inadmissible here (counted).  Untransformed axes may have any length."""
    from odl.trafos.util.ft_utils import reciprocal_grid, realspace_grid
    rng = ctx.rng('grids')
    for rep in range(ctx.reps(150, 600)):
        nd = int(rng.integers(1, 4))
        shape = tuple(int(v) for v in rng.integers(1, 9, size=nd))
        mn = rng.uniform(-3, 3, size=nd) * rng.choice([1, 1e3, 1e-3])
        ext = rng.uniform(0.5, 4, size=nd) * rng.choice([1, 1e-4, 1e3])
        g = odl.uniform_grid(mn, mn + ext, shape)
        k = int(rng.integers(1, nd + 1))
        axes = sorted(int(a) for a in rng.choice(nd, size=k, replace=False))
        order = 'sorted'
        if k > 1 and rng.random() < 0.3:
            axes = axes[::-1]
            order = 'reversed'
        if any(shape[a] == 1 for a in axes):
            ctx.skip('single-point transformed axis: stride not recoverable')
            continue
        shift = [bool(b) for b in rng.integers(0, 2, size=k)]
        hc = bool(rng.integers(0, 2))
        par = 'even' if shape[axes[-1]] % 2 == 0 else 'odd'
        spelling = 'list'
        ax_arg = axes
        if k == 1 and rng.random() < 0.4:
            ax_arg, spelling = axes[0], 'int'
        elif axes == list(range(nd)) and rng.random() < 0.5:
            ax_arg, spelling = None, 'None'
        cfg = '%dd;%d-axes;%s;%s;axes=%s;parity=%s' % (nd, k, order, 'hc' if hc else 'full', spelling, par)
        ctx.case('grid-roundtrip;' + cfg, tuple(shift))
        ctx.ev('grid-roundtrip')
        try:
            rg = reciprocal_grid(g, shift=shift, axes=ax_arg, halfcomplex=hc)
            # shape contract of the reciprocal grid: the last transformed axis is halved for half-complex, the others kept
            want_shape = list(shape)
            if hc:
                want_shape[axes[-1]] = shape[axes[-1]] // 2 + 1
            if tuple(rg.shape) != tuple(want_shape):
                ctx.violation('reciprocal_grid', cfg, 'shape', got=tuple(rg.shape), want=tuple(want_shape))
                continue
            for a in range(nd):
                if a not in axes and not np.array_equal(rg.coord_vectors[a], g.coord_vectors[a]):
                    ctx.violation('reciprocal_grid', cfg, 'untransformed-axis-changed', axis=a)
            back = realspace_grid(rg, g.min_pt, axes=ax_arg, halfcomplex=hc, halfcx_parity=par)
            ok = tuple(back.shape) == tuple(shape) and all(
                np.allclose(a_, b_, rtol=1e-10, atol=1e-12 * max(np.abs(b_).max(), 1e-300)) for a_, b_ in zip(back.coord_vectors, g.coord_vectors))
            if not ok:
                ctx.violation('realspace_grid', cfg, 'roundtrip!=grid', shape=shape, axes=axes, shift=shift, back_shape=tuple(back.shape))
            # parity spellings are case-insensitive as documented by the implementation's own normalisation
            if hc:
                other = 'odd' if par == 'even' else 'even'
                b2 = realspace_grid(rg, g.min_pt, axes=ax_arg, halfcomplex=True, halfcx_parity=other)
                want = 2 * rg.shape[axes[-1]] - (2 if other == 'even' else 1)
                if b2.shape[axes[-1]] != want:
                    ctx.violation('realspace_grid', cfg, 'parity-shape', got=b2.shape[axes[-1]], want=want)
        except Exception as e:
            ctx.violation('realspace_grid', cfg, 'raises:' + type(e).__name__, message=str(e)[:200], shape=shape, axes=axes)


def run_prepost(ctx):
    """The phase factors around the DFT, called directly with every documented option, against the formulas of their docstrings
    evaluated from the grids themselves (not from index arithmetic): pre  p(x) = exp(-+i (x - x[0]) xi[0]),
    post q(xi) = exp(-+i x[0] xi) * (s * phi_hat(xi s / 2 pi)) ** (+-1), phi_hat = sinc ** (1 nearest | 2 linear) / sqrt(2 pi)."""
    from odl.trafos.util.ft_utils import reciprocal_grid, dft_preprocess_data, dft_postprocess_data
    rng = ctx.rng('prepost')
    for rep in range(ctx.reps(120, 500)):
        nd = int(rng.integers(1, 4))
        shape = tuple(int(v) for v in rng.integers(2, 8, size=nd))
        mn = rng.uniform(-3, 3, size=nd)
        ext = rng.uniform(0.5, 4, size=nd)
        g = odl.uniform_grid(mn, mn + ext, shape)
        k = int(rng.integers(1, nd + 1))
        axes = sorted(int(a) for a in rng.choice(nd, size=k, replace=False))
        shift = [bool(b) for b in rng.integers(0, 2, size=k)]
        if rng.random() < 0.25:
            shift = [True] * k
        sign = '-+'[int(rng.integers(0, 2))]
        sgn = -1.0 if sign == '-' else 1.0
        dt = np.dtype(['float32', 'float64', 'complex64', 'complex128'][int(rng.integers(0, 4))])
        cdt = np.result_type(dt, np.complex64)
        tol = 2e-5 if dt.itemsize in (4, 8) and dt in (np.dtype('float32'), np.dtype('complex64')) else 1e-12
        hc = bool(rng.integers(0, 2)) and dt.kind == 'f'
        spelling = 'list'
        ax_arg, sh_arg = axes, shift
        if k == 1 and rng.random() < 0.4:
            ax_arg, sh_arg, spelling = axes[0], shift[0], 'int'
        elif k == nd and rng.random() < 0.5:
            ax_arg, spelling = None, 'None'
        rg = reciprocal_grid(g, shift=shift, axes=axes, halfcomplex=hc)

        def bshape(ax, n):
            sh = [1] * nd
            sh[ax] = n
            return sh
        # ---- pre-processing
        arr = rng.normal(size=shape).astype(dt) if dt.kind == 'f' else (rng.normal(size=shape) + 1j * rng.normal(size=shape)).astype(dt)
        arr0 = arr.copy()
        model = arr.astype(np.complex128)
        for ax in axes:
            x = g.coord_vectors[ax]
            model = model * np.exp(sgn * 1j * (x - x[0]) * rg.coord_vectors[ax][0]).reshape(bshape(ax, shape[ax]))
        all_shift = all(shift)
        out_modes = ['none', 'separate-complex']
        if dt.kind == 'c' or all_shift:
            out_modes.append('out-is-arr')
        omode = out_modes[int(rng.integers(0, len(out_modes)))]
        cfg = 'pre;%dd;%d-axes;axes=%s;%s;%s;out=%s' % (nd, k, spelling, dt.name, 'all-shifted' if all_shift else 'some-unshifted', omode)
        ctx.case('prepost;' + cfg, sign)
        ctx.ev('phase-factors')
        try:
            if omode == 'none':
                res = dft_preprocess_data(arr, shift=sh_arg, axes=ax_arg, sign=sign)
                want_dt = dt if (dt.kind == 'c' or all_shift) else cdt
                if res.dtype != want_dt:
                    ctx.violation('dft_preprocess_data', cfg, 'dtype', got=str(res.dtype), want=str(want_dt))
                if np.shares_memory(res, arr):
                    ctx.violation('dft_preprocess_data', cfg, 'result-shares-memory-with-input')
            elif omode == 'separate-complex':
                o = np.full(shape, np.nan, dtype=cdt)
                res = dft_preprocess_data(arr, shift=sh_arg, axes=ax_arg, sign=sign, out=o)
                if res is not o:
                    ctx.violation('dft_preprocess_data', cfg, 'out-not-returned')
            else:
                res = dft_preprocess_data(arr, shift=sh_arg, axes=ax_arg, sign=sign, out=arr)
                if res is not arr:
                    ctx.violation('dft_preprocess_data', cfg, 'out-not-returned')
            if omode != 'out-is-arr' and not np.array_equal(arr, arr0):
                ctx.violation('dft_preprocess_data', cfg, 'input-modified')
            err = np.abs(np.asarray(res) - model).max()
            if not err <= tol * max(1.0, np.abs(model).max()):
                ctx.violation('dft_preprocess_data', cfg, 'value!=docstring-formula', err=float(err), shape=shape, axes=axes, shift=shift, sign=sign)
        except Exception as e:
            ctx.violation('dft_preprocess_data', cfg, 'raises:' + type(e).__name__, message=str(e)[:200], shape=shape, axes=axes, shift=shift)
        # ---- post-processing
        interp = ['nearest', 'linear'][int(rng.integers(0, 2))]
        op = ['multiply', 'divide'][int(rng.integers(0, 2))]
        rshape = tuple(rg.shape)
        real_in = dt.kind == 'f' and rng.random() < 0.3
        if real_in:
            arr = rng.normal(size=rshape).astype(dt)
        else:
            arr = (rng.normal(size=rshape) + 1j * rng.normal(size=rshape)).astype(cdt)
        arr0 = arr.copy()
        model = arr.astype(np.complex128)
        for ax in axes:
            xi = rg.coord_vectors[ax]
            sax = g.stride[ax]
            ker = np.sinc(xi * sax / (2 * np.pi)) ** (1 if interp == 'nearest' else 2) / np.sqrt(2 * np.pi) * sax
            fac = np.exp(sgn * 1j * g.min_pt[ax] * xi) * (ker if op == 'multiply' else 1.0 / ker)
            model = model * fac.reshape(bshape(ax, rshape[ax]))
        out_modes = ['none', 'separate'] + ([] if real_in else ['out-is-arr'])
        omode = out_modes[int(rng.integers(0, len(out_modes)))]
        cfg = 'post;%dd;%d-axes;axes=%s;%s;%s;%s;%s;out=%s' % (nd, k, spelling, 'real-input' if real_in else cdt.name, 'hc' if hc else 'full', interp, op, omode)
        ctx.case('prepost;' + cfg, sign)
        ctx.ev('phase-factors')
        try:
            kw = dict(shift=sh_arg, axes=ax_arg, interp=interp, sign=sign, op=op)
            if omode == 'none':
                res = dft_postprocess_data(arr, g, rg, **kw)
                if res.dtype != cdt:
                    ctx.violation('dft_postprocess_data', cfg, 'dtype', got=str(res.dtype), want=str(cdt))
                if np.shares_memory(res, arr):
                    ctx.violation('dft_postprocess_data', cfg, 'result-shares-memory-with-input')
            elif omode == 'separate':
                o = np.full(rshape, np.nan, dtype=cdt)
                res = dft_postprocess_data(arr, g, rg, out=o, **kw)
                if res is not o:
                    ctx.violation('dft_postprocess_data', cfg, 'out-not-returned')
            else:
                res = dft_postprocess_data(arr, g, rg, out=arr, **kw)
                if res is not arr:
                    ctx.violation('dft_postprocess_data', cfg, 'out-not-returned')
            if omode != 'out-is-arr' and not np.array_equal(arr, arr0):
                ctx.violation('dft_postprocess_data', cfg, 'input-modified')
            err = np.abs(np.asarray(res) - model).max()
            if not err <= (2e-5 if cdt == np.dtype('complex64') else 1e-11) * max(1.0, np.abs(model).max()):
                ctx.violation('dft_postprocess_data', cfg, 'value!=docstring-formula', err=float(err), shape=shape, axes=axes, shift=shift, sign=sign)
        except Exception as e:
            ctx.violation('dft_postprocess_data', cfg, 'raises:' + type(e).__name__, message=str(e)[:200], shape=shape, axes=axes, shift=shift)


def _odd_at_some_level(n, nlev):
    for _ in range(nlev):
        if n % 2:
            return True
        n = n // 2
    return False


def run(ctx):
    ctx.note('rule', 'one case = one transform configuration (shape incl. odd / length-1 / length-2 axes x axes subset x halfcomplex x '
                     'per-axis shift x sign x dtype x impl | wavelet x pad mode x shape x axes x levels), enumerated completely; the '
                     'seed varies the data; distinct = distinct configurations')
    from odl.trafos import fourier
    from odl.trafos.util import ft_utils
    cov = cover.Cover()
    for nm in ('reciprocal_grid', 'dft_preprocess_data', 'dft_postprocess_data', '_interp_kernel_ft', 'realspace_grid', 'reciprocal_space'):
        cov.add(getattr(ft_utils, nm, None), nm)
    for cname in ('DiscreteFourierTransformBase', 'DiscreteFourierTransform', 'DiscreteFourierTransformInverse', 'FourierTransformBase', 'FourierTransform', 'FourierTransformInverse'):
        c = getattr(fourier, cname, None)
        if c is not None:
            for m in ('_call', '_call_numpy', '_call_pyfftw', '_preprocess', '_postprocess'):
                cov.add(vars(c).get(m), '%s.%s' % (cname, m))
    cov.arm()
    run_planning(ctx)      # first, while the process has no FFTW wisdom yet
    run_plan_history(ctx)
    run_grids(ctx)
    run_prepost(ctx)
    run_dft(ctx)
    run_ft(ctx)
    run_wavelets(ctx)
    if ctx.shard == 0:
        run_refinement(ctx)
    cov.disarm()
    n_exec, n_hit, unreached = cov.report()
    ctx.note('line_coverage', {'executable': n_exec, 'hit': n_hit})
    for u in unreached:
        ctx.note_set('unreached_lines', u)
    for m in ('grid-roundtrip', 'phase-factors', 'dft-vs-numpy', 'dft-inverse', 'backends-agree', 'ft-quadrature', 'ft-inverse', 'wavelet-vs-pywt'):
        ctx.ev(m, 0)
