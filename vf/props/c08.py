"""C08 -- functional, convex conjugate and their proximals are mutually consistent.

Deciding monitors
  fenchel-young     : f(x) + f*(y) >= <x, y> on seeded (x, y) where both values are finite.
  fy-equality       : equality at y = grad f(x) where a gradient exists.
  biconjugate       : f** takes the same values as f.
  moreau            : prox_{sigma f}(x) + sigma * prox_{f*/sigma}(x/sigma) = x for sigma in {0.4, 2}.
All through the public API, in the functional's own (weighted) inner product.
"""

import numpy as np
import odl

from .. import cover, functab, util

SHARDS = {'quick': 4, 'thorough': 16}
S = odl.solvers


def base_point(sp, rng, tags, scale=1.0):
    if 'kl' in tags:
        return functab.pos_el(sp, rng)
    if 'klcc' in tags:
        return -1.0 * functab.pos_el(sp, rng)     # KL* is finite for y < 1
    return functab.rand_el(sp, rng, scale)


class _RealView(object):
    """Functional on a complex space seen through real numbers: real values, elements whose inner product is Re <., .>."""

    def __init__(self, f):
        self._f = f

    def __call__(self, x):
        v = self._f(getattr(x, '_x', x))
        if abs(np.imag(v)) > 1e-12 * max(1.0, abs(v)):
            raise ValueError('value of a norm-type functional is not real: %r' % (v,))
        return float(np.real(v))

    @property
    def convex_conj(self):
        return _RealView(self._f.convex_conj)

    @property
    def gradient(self):
        g = self._f.gradient
        return lambda x: g(x)

    def proximal(self, sigma):
        return self._f.proximal(sigma)


def rinner(x, y):
    return float(np.real(x.inner(y)))


def extreme_el(sp, rng, scale):
    """All entries +-scale (exactly representable magnitudes down to the smallest denormal); same signs in every part so
    that inner products of two such elements do not cancel."""
    if util.is_pspace(sp):
        return sp.element([extreme_el(s, rng, scale) for s in sp])
    return sp.element(np.full(sp.shape, scale))


def extra_functionals(sp, rng):
    """Derived rules beyond functab: conjugates of scalings / perturbations, infimal convolution via its conjugate."""
    g = lambda: functab.rand_el(sp, rng)
    A_sym = odl.ScalingOperator(sp, 1.5)
    yield 'QuadraticForm(symmetric)', lambda: S.QuadraticForm(operator=A_sym, vector=g(), constant=0.3), ('smooth',)
    yield 'QuadraticForm(symmetric,no-vector)', lambda: S.QuadraticForm(operator=A_sym, constant=-0.2), ('smooth',)
    if isinstance(sp, odl.space.npy_tensors.NumpyTensorSpace) and sp.ndim == 1 and sp.size <= 10:
        n = sp.size
        B = rng.normal(size=(n, n))
        Msym = B @ B.T + n * np.eye(n)
        Mns = Msym + 0.5 * (np.triu(rng.normal(size=(n, n)), 1) - np.triu(rng.normal(size=(n, n)), 1).T)
        if not sp.is_weighted:
            yield 'QuadraticForm(matrix,symmetric)', lambda: S.QuadraticForm(operator=odl.MatrixOperator(Msym, sp, sp), vector=g(), constant=0.3), ('smooth',)
            yield 'QuadraticForm(matrix,non-symmetric)', lambda: S.QuadraticForm(operator=odl.MatrixOperator(Mns, sp, sp), vector=g(), constant=0.3), ('smooth',)
    yield 'right-scaled(L2NormSquared).convex_conj', lambda: (S.L2NormSquared(sp) * 3.0).convex_conj, ('smooth',)
    yield 'left-scaled(L2NormSquared).convex_conj', lambda: (0.4 * S.L2NormSquared(sp)).convex_conj, ('smooth',)
    yield 'translated(L2NormSquared).convex_conj', lambda: S.L2NormSquared(sp).translated(g()).convex_conj, ('smooth',)
    yield 'scalar-sum(L2NormSquared).convex_conj', lambda: (S.L2NormSquared(sp) + 1.25).convex_conj, ('smooth',)
    yield 'quadratic-perturb(L2NormSquared,coeff=0).convex_conj', lambda: S.FunctionalQuadraticPerturb(S.L2NormSquared(sp), 0.0, g(), 0.7).convex_conj, ('smooth',)
    yield 'InfimalConvolution(L2NormSquared,L2NormSquared).convex_conj', lambda: S.InfimalConvolution(S.L2NormSquared(sp), S.L2NormSquared(sp)).convex_conj, ('smooth',)
    yield 'ConstantFunctional.convex_conj', lambda: S.ConstantFunctional(sp, 2.0).convex_conj, ('indicator',)
    yield 'IndicatorZero.convex_conj', lambda: S.IndicatorZero(sp).convex_conj, ('smooth',)
    yield 'LpNorm(1).convex_conj', lambda: S.LpNorm(sp, 1).convex_conj, ('indicator',)
    yield 'LpNorm(inf).convex_conj', lambda: S.LpNorm(sp, np.inf).convex_conj, ('indicator',)
    yield 'IndicatorLpUnitBall(2).convex_conj', lambda: S.IndicatorLpUnitBall(sp, 2).convex_conj, ()


def check(ctx, fname, sname, sp, f, tags, rng):
    comp = functab.composed_component(fname, tags)
    cfg = util.space_tag(sp)
    try:
        fc = f.convex_conj
    except (NotImplementedError, odl.OpNotImplementedError):
        ctx.skip('no convex_conj offered')
        return
    except Exception as e:
        ctx.ev('fenchel-young')
        ctx.violation(comp, cfg, 'convex_conj-raises:' + type(e).__name__, message=str(e)[:200])
        return
    ctx.case('conjugate-pair;%s;%s' % (fname, sname), 0)
    if 'complex' in tags:
        # a complex Hilbert space as a real one: <x, y>_R = Re <x, y>; values may come back complex-typed with zero imaginary part
        f, fc = _RealView(f), _RealView(fc)
    novalue = 'novalue' in tags
    # documented convention 0 log 0 := 0 (prior with exact zeros): the values *on* the boundary of the domains, where the
    # limit argument of the rounding allowance below does not reach
    if fname == 'KullbackLeibler(prior-with-zeros)' and not util.is_pspace(sp):
        ctx.ev('fy-equality')
        try:
            g = np.asarray(f.prior)
            z = (g == 0)
            if z.any():
                with np.errstate(all='ignore'):
                    ya = np.where(z, 1.0, 0.3)
                    want = -sp.element(np.where(z, 0.0, g * np.log(1 - ya))).inner(sp.one())
                    got = fc(sp.element(ya))
                    if not np.isclose(got, want, rtol=1e-12, atol=1e-12):
                        ctx.violation(comp, cfg, 'conjugate-inconsistent', symptom='0-log-0-convention:conjugate at y=1 where the prior is 0', got=float(got), ref=float(want))
                    # ... and beyond it: the conjugate of x -> x on x >= 0 is +inf for slopes larger than one
                    for over in (1.5, 1.0 + 1e-9):
                        goto = fc(sp.element(np.where(z, over, 0.3)))
                        if np.isfinite(goto):
                            ctx.violation(comp, cfg, 'conjugate-inconsistent', symptom='0-log-0-convention:conjugate finite at y>1 where the prior is 0', got=float(goto), y=over)
                            break
                    xa = np.where(z, 0.0, 1.7)
                    wantf = sp.element(np.where(z, 0.0, xa - g + g * np.log(np.where(z, 1.0, g) / np.where(z, 1.0, xa)))).inner(sp.one())
                    gotf = f(sp.element(xa))
                    if not np.isclose(gotf, wantf, rtol=1e-12, atol=1e-12):
                        ctx.violation(comp, cfg, 'conjugate-inconsistent', symptom='0-log-0-convention:value at x=0 where the prior is 0', got=float(gotf), ref=float(wantf))
        except Exception as e:
            ctx.violation(comp, cfg, 'raises:' + type(e).__name__, message=str(e)[:200], probe='0-log-0')
    # Fenchel-Young inequality
    if not novalue:
        try:
            n = 0
            for rep in range(ctx.reps(10, 40)):
                x = base_point(sp, rng, tags, [1.0, 0.1, 3.0][rep % 3])
                y = functab.rand_el(sp, rng, [1.0, 0.3, 2.0, 0.05][rep % 4])
                fx = f(x)
                fy = fc(y)
                if np.isfinite(fx) and np.isfinite(fy):
                    n += 1
                    gap = rinner(x, y) - fx - fy
                    if gap > 1e-9 * max(1, abs(fx), abs(fy), abs(rinner(x, y))):
                        ctx.violation(comp, cfg, 'conjugate-inconsistent', symptom='fenchel-young-violated', gap=float(gap), fx=float(fx), fy=float(fy))
                        break
            # extreme magnitudes: tiny-but-non-zero points against huge slopes and vice versa (products of the form
            # 1e-200 * 1e250 are ordinary numbers; a zero test through a squared quantity underflows, a value computed
            # through a square overflows).  Only pairs where both values come out finite are decided.
            if not any(t in tags for t in ('kl', 'klcc', 'exp', 'composed')):
                for sx, sy in ((1e-200, 1e250), (5e-324, 1e300), (1e250, 1e-200), (1e-170, 1e175)):
                    # floating-point exception flags as sanitizer: an evaluation that overflows or produces an invalid
                    # operation (inf - inf, 0 * inf) has left the float64 range of its own formula - a range limit, not
                    # the property; such pairs are counted, not decided.  Underflow is silent and stays decided.
                    try:
                        with np.errstate(over='raise', invalid='raise', divide='ignore', under='ignore'):
                            x = extreme_el(sp, rng, sx)
                            y = extreme_el(sp, rng, sy)
                            fx, fy, ip = f(x), fc(y), rinner(x, y)
                    except FloatingPointError:
                        ctx.note_add('extreme_pairs_outside_float_range')
                        continue
                    if np.isfinite(fx) and np.isfinite(fy) and np.isfinite(ip):
                        n += 1
                        gap = ip - fx - fy
                        if gap > 1e-9 * max(1, abs(fx), abs(fy), abs(ip)):
                            ctx.violation(comp, cfg, 'conjugate-inconsistent', symptom='fenchel-young-violated', gap=float(gap), fx=float(fx), fy=float(fy),
                                          scales=[sx, sy])
                            break
            # just outside dom f*: y = (1 + delta) grad f(x) for delta = 1e-10 .. 1e-6 against x scaled by 1e9.  Where grad f(x) lies
            # on the boundary of dom f* (norms: unit ball of the dual norm) f*(y) must be +inf - a feasibility tolerance in the
            # conjugate shows as f(t x) + f*(y) < <t x, y> by t * delta * f(x); where y stays inside dom f* the inequality
            # holds for a correct conjugate at any scale
            if not any(t in tags for t in ('kl', 'klcc', 'exp', 'composed', 'nograd')):
                try:
                    xb = base_point(sp, rng, tags)
                    y0 = f.gradient(xb)
                    for delta in (1e-10, 1e-8, 1e-6):
                        with np.errstate(all='ignore'):
                            xt = 1e9 * xb
                            yd = (1 + delta) * y0
                            fx, fy, ip = f(xt), fc(yd), rinner(xt, yd)
                        if np.isfinite(fx) and np.isfinite(fy) and np.isfinite(ip):
                            n += 1
                            gap = ip - fx - fy
                            if gap > 1e-12 * max(1, abs(fx), abs(fy), abs(ip)):
                                ctx.violation(comp, cfg, 'conjugate-inconsistent', symptom='fenchel-young-violated', gap=float(gap), fx=float(fx), fy=float(fy),
                                              where='y = (1 + %g) grad f(x), x scaled by 1e9' % delta)
                                break
                except (NotImplementedError, odl.OpNotImplementedError, AttributeError):
                    pass
            ctx.ev('fenchel-young', n)
        except (NotImplementedError, odl.OpNotImplementedError):
            ctx.skip('conjugate has no values')
            novalue = True
        except Exception as e:
            ctx.violation(comp, cfg, 'raises:' + type(e).__name__, message=str(e)[:200], probe='fenchel-young')
    # equality at the gradient
    if not novalue and 'c1' not in tags or (not novalue and 'c1' in tags):
        try:
            if 'nograd' in tags:
                raise NotImplementedError
            grad = f.gradient
            n = 0
            for rep in range(ctx.reps(5, 20)):
                x = base_point(sp, rng, tags)
                if not any(t in tags for t in ('smooth', 'c1', 'kl', 'klcc')):
                    # keep away from kinks
                    x = x + 0.0
                y = grad(x)
                fx = f(x)
                fy = fc(y)
                if np.isfinite(fx) and not np.isfinite(fy) and np.all(np.isfinite(util.to_cvec(sp, y))):
                    # y = grad f(x) is a sub-gradient at a point of finite value: f*(y) = <x, y> - f(x) is finite.  (y may sit
                    # one rounding error outside dom f*, e.g. x / ||x|| for the unit ball: y shrunk by 1e-12 must be inside.)
                    n += 1
                    with np.errstate(all='ignore'):
                        y0 = grad(base_point(sp, rng, tags))
                        if util.snap(y0) == util.snap(y) or (y0 - y).norm() <= 1e-12 * max(1.0, y.norm()):
                            # constant gradient (affine functional): dom f* is a single point, which a value computed along
                            # another route misses by a rounding error - membership is not decidable in floating point
                            ctx.skip('affine functional: dom f* is a single point')
                            continue
                        near = [fc(y * (1 - t)) for t in (1e-12, 1e-9)] + [fc(y + t * (y0 - y)) for t in (1e-12, 1e-9)]
                        if not any(np.isfinite(v) for v in near) and not any(t in tags for t in ('kl', 'klcc')):
                            # gradients far out in opposite directions are opposite boundary points of dom f*: towards their midpoint
                            for k in range(3):
                                dvec = sp.one() if k == 0 else functab.rand_el(sp, rng, 1.0)
                                mid = 0.5 * (grad(1e3 * dvec) + grad(-1e3 * dvec))
                                near += [fc(y + t * (mid - y)) for t in (1e-12, 1e-9)]
                    if any(np.isfinite(v) for v in near):
                        ctx.note_add('gradient_on_the_boundary_of_dom_conj_up_to_rounding')
                    else:
                        ctx.violation(comp, cfg, 'conjugate-inconsistent', symptom='conjugate-infinite-at-a-gradient', fx=float(fx), name=fname, y=util.to_cvec(sp, y)[:6], x=util.to_cvec(sp, x)[:6])
                        break
                if np.isfinite(fx) and np.isfinite(fy):
                    n += 1
                    gap = fx + fy - rinner(x, y)
                    if abs(gap) > 1e-8 * max(1, abs(fx), abs(fy), abs(rinner(x, y))):
                        ctx.violation(comp, cfg, 'conjugate-inconsistent', symptom='fenchel-young-equality-at-gradient', gap=float(gap), fx=float(fx), fy=float(fy))
                        break
            ctx.ev('fy-equality', n)
        except (NotImplementedError, odl.OpNotImplementedError):
            pass
        except Exception as e:
            ctx.violation(comp, cfg, 'raises:' + type(e).__name__, message=str(e)[:200], probe='fy-equality')
    # biconjugate
    if not novalue:
        try:
            fcc = fc.convex_conj
            n = 0
            for rep in range(ctx.reps(5, 20)):
                x = base_point(sp, rng, tags, [1.0, 0.2][rep % 2])
                a, b = f(x), fcc(x)
                if np.isfinite(a) or np.isfinite(b):
                    n += 1
                    if not np.isclose(a, b, rtol=1e-8, atol=1e-10):
                        ctx.violation(comp, cfg, 'conjugate-inconsistent', symptom='biconjugate-differs', f=float(a), fcc=float(b))
                        break
            ctx.ev('biconjugate', n)
        except (NotImplementedError, odl.OpNotImplementedError):
            pass
        except Exception as e:
            ctx.violation(comp, cfg, 'raises:' + type(e).__name__, message=str(e)[:200], probe='biconjugate')
    # Moreau decomposition
    try:
        for sigma in (0.4, 2.0):
            P1 = f.proximal(sigma)
            P2 = fc.proximal(1 / sigma)
            for rep in range(ctx.reps(2, 6)):
                x = functab.rand_el(sp, rng, [1.5, 0.2][rep % 2])
                p1 = P1(x)
                p2 = P2(x / sigma)
                ctx.ev('moreau')
                err = (p1 + sigma * p2 - x).norm() / max(1, x.norm())
                if not err <= 1e-8:
                    ctx.violation(comp, cfg, 'conjugate-inconsistent', symptom='moreau-decomposition', relerr=float(err), sigma=sigma)
                    return
    except (NotImplementedError, odl.OpNotImplementedError):
        pass
    except Exception as e:
        ctx.violation(comp, cfg, 'raises:' + type(e).__name__, message=str(e)[:200], probe='moreau')


def run(ctx):
    ctx.note('rule', 'one case = one (functional, convex conjugate) pair on one space (functional table of C07 plus derived '
                     'rules); each pair is probed with seeded (x, y) for Fenchel-Young (>= and equality at the gradient), the '
                     'biconjugate and the Moreau decomposition for sigma in {0.4, 2}; distinct = distinct (functional, space)')
    rng = ctx.rng('c08')
    crng = ctx.crng('ctor')
    cov = cover.functional_cover(('convex_conj', '_call'))
    cov.arm()
    recipes = list(functab.all_functionals(crng, ctx.thorough, with_complex=True))
    for sname, sp in functab.spaces():
        for fname, thunk, tags in extra_functionals(sp, crng):
            recipes.append((fname, sname, sp, thunk, tags))
    for fname, sname, sp, thunk, tags, _ref in functab.all_composed(crng, ctx.thorough):
        recipes.append((fname, sname, sp, thunk, tags))
    for i, (fname, sname, sp, thunk, tags) in enumerate(recipes):
        if not ctx.mine(i):
            continue
        if sname == 'rn150' and not ctx.thorough:
            continue
        if sname == 'rn5aw' and 'Huber' in fname:
            continue   # raises in every call (C07 / C20 finding)
        try:
            f = thunk()
        except Exception as e:
            continue
        if i % 29 == 0:
            ctx.sample({'functional': fname, 'space': util.srepr(sp, 60)})
        check(ctx, fname, sname, sp, f, tags, rng)
    cover.report_to(ctx, cov)
    for m in ('fenchel-young', 'fy-equality', 'biconjugate', 'moreau'):
        ctx.ev(m, 0)
