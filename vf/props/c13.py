"""C13 -- finite-difference operators equal reference stencils; adjoints are transposes.

Deciding monitors
  fd-matrix       : full matrix of finite_diff (unit arrays, NaN-prefilled out and out=None) against the
                    reference S.E (stencil x extension matrix), every method x pad mode x size x dx x
                    pad_const; adjoint pad modes via M(adj) = -M^T of the *reference*.
  fd-nd           : n-d arrays, every axis: equals the 1-d reference applied along that axis.
  op-matrix       : PartialDerivative / Gradient / Divergence / Laplacian full matrices against
                    Kronecker references; affine part; derivative of constant-padding variant.
  adjoint-transpose : matrix(op.adjoint) == matrix(op)^T entry for entry on uniformly weighted spaces.
"""

import itertools

import numpy as np
import odl
from odl.discr import diff_ops

from .. import cover, util

SHARDS = {'quick': 4, 'thorough': 16}
THOROUGH_ROUNDS = 3

METHODS = ['forward', 'backward', 'central']
DIRECT = ['constant', 'symmetric', 'periodic', 'order0', 'order1', 'order2']
ADJ_METHOD = {'central': 'central', 'forward': 'backward', 'backward': 'forward'}
ADJ_PAD = {'symmetric_adjoint': 'symmetric', 'order0_adjoint': 'order0', 'order1_adjoint': 'order1',
           'order2_adjoint': 'order2'}
ALLMODES = DIRECT + list(ADJ_PAD)


def sizeclass(n):
    return str(n) if n < 5 else '>=5'


def minsize(mode):
    return 3 if 'order2' in mode else 2


# ---------------------------------------------------------------------------------------------
# reference (Appendix C of DESIGN.md)


def ext_matrix(n, mode):
    E = np.zeros((n + 2, n))
    for i in range(n):
        E[i + 1, i] = 1
    lo, hi = 0, n + 1
    if mode == 'constant':
        pass
    elif mode in ('symmetric', 'order0'):
        E[lo, 0] = 1
        E[hi, n - 1] = 1
    elif mode == 'periodic':
        E[lo, (n - 1) % n] = 1
        E[hi, 0] = 1
    elif mode == 'order1':
        E[lo, 0] += 2
        E[lo, 1] -= 1
        E[hi, n - 1] += 2
        E[hi, n - 2] -= 1
    elif mode == 'order2':
        E[lo, 0] += 3
        E[lo, 1] -= 3
        E[lo, 2] += 1
        E[hi, n - 1] += 3
        E[hi, n - 2] -= 3
        E[hi, n - 3] += 1
    else:
        raise ValueError(mode)
    return E


def ref_direct(n, method, mode):
    """(M, c): unit-spacing matrix and the response to a unit pad constant."""
    E = ext_matrix(n, mode)
    S = np.zeros((n, n + 2))
    for i in range(n):
        if method == 'forward':
            S[i, i + 2] = 1
            S[i, i + 1] = -1
        elif method == 'backward':
            S[i, i + 1] = 1
            S[i, i] = -1
        else:
            S[i, i + 2] = .5
            S[i, i] = -.5
    M = S @ E
    if mode == 'order2':
        M[0] = 0
        M[0, :3] = [-1.5, 2, -.5]
        M[-1] = 0
        M[-1, -3:] = [.5, -2, 1.5]
    pad = np.zeros(n + 2)
    pad[0] = pad[-1] = 1
    c = S @ pad if mode == 'constant' else np.zeros(n)
    return M, c


def ref_matrix(n, method, mode):
    if mode in ADJ_PAD:
        M, _ = ref_direct(n, ADJ_METHOD[method], ADJ_PAD[mode])
        return -M.T, np.zeros(n)
    return ref_direct(n, method, mode)


# ---------------------------------------------------------------------------------------------


def lib_matrix_1d(n, method, mode, pad_const, dx, dtype, use_out):
    def call(f):
        if use_out:
            out = np.full(n, complex(np.nan, np.nan) if np.dtype(dtype).kind == 'c' else np.nan, dtype=dtype)
            r = diff_ops.finite_diff(f, 0, dx=dx, method=method, pad_mode=mode, pad_const=pad_const, out=out)
            return r, (r is out)
        return diff_ops.finite_diff(f, 0, dx=dx, method=method, pad_mode=mode, pad_const=pad_const), True
    off, ident = call(np.zeros(n, dtype=dtype))
    off = np.array(off)
    M = np.zeros((n, n), dtype=complex)
    for j in range(n):
        e = np.zeros(n, dtype=dtype)
        e[j] = 1j if (np.dtype(dtype).kind == 'c' and j % 2) else 1
        r, idn = call(e)
        ident = ident and idn
        M[:, j] = (np.array(r) - off) / e[j]
    return M, off, ident


def run_fd_1d(ctx):
    nmax = ctx.reps(8, 14)
    idx = 0
    for n, method, mode in itertools.product(range(2, nmax + 1), METHODS, ALLMODES):
        if n < minsize(mode):
            continue
        for pad_const, dx, dtype, use_out in itertools.product((0, 1.5), (1.0, 0.37), ('float64', 'complex128', 'float32'), (True, False)):
            if pad_const and mode != 'constant':
                continue
            if dtype == 'float32' and (dx != 1.0 or n > 5):
                continue
            idx += 1
            if not ctx.mine(idx):
                continue
            comp = 'finite_diff'
            cfg = '%s;%s;n=%s;ndim=1' % (method, mode, sizeclass(n))
            ctx.case('fd1d;%s;%s;%s' % (method, mode, sizeclass(n)), (n, pad_const, dx, dtype, use_out))
            ctx.ev('fd-matrix')
            try:
                M, off, ident = lib_matrix_1d(n, method, mode, pad_const, dx, dtype, use_out)
            except Exception as e:
                ctx.violation(comp, cfg, 'raises:' + type(e).__name__, message=str(e)[:200], n=n, dtype=dtype)
                continue
            R, c = ref_matrix(n, method, mode)
            tol = 1e-5 if dtype == 'float32' else 1e-13
            if np.isnan(M).any() or np.isnan(off).any():
                ctx.violation(comp, cfg, 'nan-in-output', n=n, use_out=use_out)
            elif not np.allclose(M, R / dx, atol=tol * max(1, 1 / dx), rtol=tol):
                ctx.violation(comp, cfg, 'matrix!=reference', n=n, got=M.real, ref=R / dx, dx=dx, dtype=dtype)
            if not np.isnan(off).any() and not np.allclose(off, pad_const * c / dx, atol=tol * 10, rtol=tol):
                ctx.violation(comp, cfg, 'affine-part', n=n, got=off, ref=pad_const * c / dx)
            if not ident:
                ctx.violation(comp, cfg, 'not-out')
            if idx % 400 == 0:
                ctx.sample({'finite_diff': dict(n=n, method=method, pad_mode=mode, pad_const=pad_const, dx=dx, dtype=dtype, out=use_out),
                            'matrix': M.real})


def apply_along(M, c, arr, axis):
    r = np.tensordot(M, arr, axes=([1], [axis]))
    r = np.moveaxis(r, 0, axis)
    shape = [1] * arr.ndim
    shape[axis] = len(c)
    return r + c.reshape(shape)


def run_fd_nd(ctx):
    rng = ctx.rng('nd')
    shapes2 = list(itertools.product((2, 3, 4, 5), repeat=2))
    shapes3 = list(itertools.product((2, 3, 4), repeat=3)) if ctx.thorough else [(2, 3, 4), (4, 2, 3), (3, 4, 2), (3, 3, 3), (2, 2, 2), (4, 4, 3)]
    idx = 0
    for shape in shapes2 + shapes3 + [(9, 7), (6, 1, 5)]:
        for axis in range(len(shape)):
            for method, mode in itertools.product(METHODS, ALLMODES):
                n = shape[axis]
                if n < minsize(mode):
                    continue
                idx += 1
                if not ctx.mine(idx):
                    continue
                for order, cplx in (('C', False), ('F', True)):
                    pad_const = 0.75 if mode == 'constant' else 0
                    dx = 0.5
                    f = rng.normal(size=shape)
                    if cplx:
                        f = f + 1j * rng.normal(size=shape)
                    f = np.asarray(f, order=order)
                    f0 = f.copy()
                    comp = 'finite_diff'
                    cfg = '%s;%s;n=%s;ndim=%d' % (method, mode, sizeclass(n), len(shape))
                    ctx.case('fdnd;%s;%s;%s;%dd' % (method, mode, sizeclass(n), len(shape)), (shape, axis, order))
                    ctx.ev('fd-nd')
                    try:
                        out = np.full(shape, complex(np.nan, np.nan) if f.dtype.kind == 'c' else np.nan, dtype=f.dtype, order=order)
                        r = diff_ops.finite_diff(f, axis, dx=dx, method=method, pad_mode=mode, pad_const=pad_const, out=out)
                        # the out-of-place twin names the axis from the end (NumPy convention) in the Fortran-ordered half
                        r2 = diff_ops.finite_diff(f, axis - len(shape) if cplx else axis, dx=dx, method=method, pad_mode=mode, pad_const=pad_const)
                    except Exception as e:
                        ctx.violation(comp, cfg, 'raises:' + type(e).__name__, message=str(e)[:200], shape=shape, axis=axis)
                        continue
                    R, c = ref_matrix(n, method, mode)
                    ref = apply_along(R / dx, pad_const * c / dx, f0, axis)
                    if r is not out:
                        ctx.violation(comp, cfg, 'not-out')
                    if np.isnan(r).any():
                        ctx.violation(comp, cfg, 'nan-in-output', shape=shape, axis=axis)
                    elif not np.allclose(r, ref, atol=1e-12, rtol=1e-12):
                        ctx.violation(comp, cfg, 'matrix!=reference', shape=shape, axis=axis)
                    if not np.allclose(r2, ref, atol=1e-12, rtol=1e-12, equal_nan=False):
                        ctx.violation(comp, cfg, 'inplace!=oop', shape=shape, axis=axis)
                    if not np.array_equal(f, f0):
                        ctx.violation(comp, cfg, 'input-modified')


# ---------------------------------------------------------------------------------------------
# operators


def op_matrix(op, x0=None):
    """(M, off): real-linear... here complex matrix via unit vectors; off = op(0)."""
    dom, ran = op.domain, op.range
    zero = dom.zero()
    off = util.to_cvec(ran, op(zero)).astype(complex)
    cols = []
    for e in unit_elements(dom):
        out = util.fill(ran.element(), 'nan')
        r = op(e, out=out)
        cols.append(util.to_cvec(ran, r).astype(complex) - off)
    return np.array(cols).T, off


def unit_elements(sp):
    for path, leaf in util.leaves(sp):
        for j in np.ndindex(*leaf.shape):
            x = sp.zero()
            t = x
            for i in path:
                t = t[i]
            t[j] = 1.0
            yield x


def kron_axis(M, shape, axis):
    """Matrix acting on C-raveled arrays of `shape` that applies M along `axis`."""
    mats = [np.eye(s) for s in shape]
    mats[axis] = M
    K = np.ones((1, 1))
    for m in mats:
        K = np.kron(K, m)
    return K


def offs_axis(c, shape, axis):
    sh = [1] * len(shape)
    sh[axis] = shape[axis]
    return np.broadcast_to(c.reshape(sh), shape).ravel()


def spaces_for_ops(ctx):
    yield '1d', odl.uniform_discr(0, 1.85, 5)
    yield '1d-n2', odl.uniform_discr(0, 1, 2)
    yield '1d-n3', odl.uniform_discr(-1, 1, 3)
    yield '1d-c', odl.uniform_discr(0, 1, 4, dtype=complex)
    yield '2d', odl.uniform_discr([0, 0], [1, 2.5], (3, 4))
    yield '2d-n2', odl.uniform_discr([0, 0], [1, 1], (2, 3))
    yield '2d-c', odl.uniform_discr([0, -1], [3, 1], (4, 3), dtype=complex)
    yield '3d', odl.uniform_discr([0, 0, 0], [1, 2, 3], (3, 2, 4))
    # cells that are almost, but not exactly, isotropic; and cells that are tiny in absolute terms (nanometres given in metres):
    # every component is divided by its own cell side
    yield '2d-almost-isotropic', odl.uniform_discr([0, 0], [1, 1.000004], (4, 4))
    yield '2d-nanometre-cells', odl.uniform_discr([0, 0], [8e-9, 18e-9], (4, 3))
    yield '3d-almost-isotropic', odl.uniform_discr([0, 0, 0], [1, 1.000002, 0.999997], (3, 3, 3))
    # grid nodes on the domain boundary (all / one side / mixed per axis): the step of the stencil is the node distance
    # extent / (n - 1), extent / (n - 1/2), ..., not extent / n
    yield '1d-bdry', odl.uniform_discr(0, 1.8, 5, nodes_on_bdry=True)
    yield '1d-bdry-left', odl.uniform_discr(0.5, 2.0, 4, nodes_on_bdry=[(True, False)])
    yield '2d-bdry-mixed', odl.uniform_discr([0, 0], [1, 2.5], (3, 4), nodes_on_bdry=[(True, False), (True, True)])
    yield '2d-bdry-one-axis', odl.uniform_discr([0, -1], [3, 1], (4, 3), nodes_on_bdry=[(False, False), (False, True)])
    if ctx.thorough:
        yield '2d-big', odl.uniform_discr([0, 0], [1, 1], (6, 5))
        yield '3d-b', odl.uniform_discr([0, 0, 0], [1, 1, 1], (3, 3, 3))


def check_pair(ctx, comp, cfg, op, Mref, offref, want_adjoint=True):
    """Compare matrix/affine part with the reference and the adjoint with the transpose."""
    ctx.ev('op-matrix')
    try:
        M, off = op_matrix(op)
    except Exception as e:
        ctx.violation(comp, cfg, 'raises:' + type(e).__name__, message=str(e)[:200])
        return
    sc = max(1.0, np.abs(Mref).max())
    if np.isnan(M).any() or np.isnan(off).any():
        ctx.violation(comp, cfg, 'nan-in-output')
        return
    if not np.allclose(M, Mref, atol=1e-12 * sc, rtol=0):
        ctx.violation(comp, cfg, 'matrix!=reference', maxdiff=float(np.abs(M - Mref).max()))
    if not np.allclose(off, offref, atol=1e-12 * sc, rtol=0):
        ctx.violation(comp, cfg, 'affine-part', maxdiff=float(np.abs(off - offref).max()))
    # out-of-place == in-place on a random point
    rng = ctx.rng('pt', comp, cfg)
    x = util.rand_element(op.domain, rng)
    y1 = op(x)
    expected = Mref @ util.to_cvec(op.domain, x).astype(complex) + offref
    if not np.allclose(util.to_cvec(op.range, y1), expected, atol=1e-11 * sc, rtol=0):
        ctx.violation(comp, cfg, 'value!=M.x+c')
    if not want_adjoint:
        return
    if np.any(off != 0):
        # affine: derivative must be the zero-padding version, adjoint must refuse or be of the linear part
        ctx.ev('op-matrix')
        try:
            D = op.derivative(x)
            MD, offD = op_matrix(D)
            if not np.allclose(MD, Mref, atol=1e-12 * sc, rtol=0) or np.any(np.abs(offD) > 1e-13 * sc):
                ctx.violation(comp, cfg, 'derivative!=zero-pad')
        except Exception as e:
            ctx.violation(comp, cfg, 'derivative-raises:' + type(e).__name__, message=str(e)[:200])
        # ... and an adjoint taken directly must refuse, or be the (linear) adjoint of the linear part
        ctx.ev('adjoint-transpose')
        try:
            A = op.adjoint
        except Exception:
            return          # refusing is fine for an affine operator
        try:
            MA, offA = op_matrix(A)
            if not np.allclose(MA, Mref.conj().T, atol=1e-12 * sc, rtol=0) or np.any(np.abs(offA) > 1e-13 * sc):
                ctx.violation(comp, cfg, 'adjoint-of-affine!=transpose-of-linear-part', offset=float(np.abs(offA).max()))
        except Exception as e:
            ctx.violation(comp, cfg, 'adjoint-raises:' + type(e).__name__, message=str(e)[:200])
        return
    ctx.ev('adjoint-transpose')
    try:
        A = op.adjoint
        MA, offA = op_matrix(A)
    except Exception as e:
        ctx.violation(comp, cfg, 'adjoint-raises:' + type(e).__name__, message=str(e)[:200])
        return
    if A.domain != op.range or A.range != op.domain:
        ctx.violation(comp, cfg, 'adjoint-domain-range')
    if np.isnan(MA).any():
        ctx.violation(comp, cfg, 'adjoint-nan-in-output')
    elif not np.allclose(MA, M.conj().T, atol=1e-13 * sc, rtol=0) or np.any(np.abs(offA) > 0):
        ctx.violation(comp, cfg, 'adjoint!=transpose', maxdiff=float(np.abs(MA - M.conj().T).max()))
    # derivative of a linear operator is the operator itself
    try:
        D = op.derivative(x)
        if not np.allclose(util.to_cvec(op.range, D(x)), util.to_cvec(op.range, y1), atol=1e-12 * sc):
            ctx.violation(comp, cfg, 'derivative!=self')
    except Exception as e:
        ctx.violation(comp, cfg, 'derivative-raises:' + type(e).__name__, message=str(e)[:200])


def run_ops(ctx):
    idx = 0
    for tag, sp in spaces_for_ops(ctx):
        shape = sp.shape
        # node distance from the defining data (limits, shape, boundary placement), not from the space's own cell_sides
        nob = sp.partition.nodes_on_bdry_byaxis
        ext = np.asarray(sp.max_pt, dtype=float) - np.asarray(sp.min_pt, dtype=float)
        h = np.array([ext[a_] / (shape[a_] - 0.5 * bool(nob[a_][0]) - 0.5 * bool(nob[a_][1])) for a_ in range(sp.ndim)])
        bdry = any(any(t_) for t_ in nob)
        nd = sp.ndim
        N = int(np.prod(shape))
        for method, mode in itertools.product(METHODS, ALLMODES):
            if min(shape) < minsize(mode):
                continue
            # (a pad_const handed in for a non-constant mode is documented to be ignored: same linear operator, adjoint offered)
            # (constant padding: also a constant that is nonzero but tiny - the operator is affine for every nonzero value)
            for pad_const in ((0, 1.25, 5e-9) if mode == 'constant' else ((0, 0.75) if not mode.endswith('_adjoint') else (0,))):
                idx += 1
                if not ctx.mine(idx):
                    continue
                eff_const = pad_const if mode == 'constant' else 0
                cfgb = '%s;%s;n=%s;ndim=%d%s' % (method, mode, sizeclass(min(shape)), nd, ';affine' if eff_const else (';pad_const-ignored' if pad_const else '')) + (';bdry-nodes' if bdry else '')
                mats = []
                offs = []
                for ax in range(nd):
                    R, c = ref_matrix(shape[ax], method, mode)
                    mats.append(kron_axis(R / h[ax], shape, ax))
                    offs.append(offs_axis(eff_const * c / h[ax], shape, ax))
                ctx.case('ops;%s;%s;%s' % (tag, method, mode), pad_const)
                # PartialDerivative on every axis
                for ax in range(nd):
                    try:
                        op = odl.PartialDerivative(sp, axis=ax, method=method, pad_mode=mode, pad_const=pad_const)
                    except Exception as e:
                        ctx.violation('PartialDerivative', cfgb, 'ctor-raises:' + type(e).__name__, message=str(e)[:200])
                        continue
                    check_pair(ctx, 'PartialDerivative', cfgb, op, mats[ax], offs[ax], want_adjoint=not bdry)
                # Gradient
                try:
                    G = odl.Gradient(sp, method=method, pad_mode=mode, pad_const=pad_const)
                    check_pair(ctx, 'Gradient', cfgb, G, np.vstack(mats), np.concatenate(offs), want_adjoint=not bdry)
                except Exception as e:
                    ctx.violation('Gradient', cfgb, 'ctor-raises:' + type(e).__name__, message=str(e)[:200])
                # Divergence
                try:
                    Dv = odl.Divergence(range=sp, method=method, pad_mode=mode, pad_const=pad_const)
                    check_pair(ctx, 'Divergence', cfgb, Dv, np.hstack(mats), np.sum(offs, axis=0), want_adjoint=not bdry)
                except Exception as e:
                    ctx.violation('Divergence', cfgb, 'ctor-raises:' + type(e).__name__, message=str(e)[:200])
                if idx % 50 == 0:
                    ctx.sample({'space': util.srepr(sp), 'method': method, 'pad_mode': mode, 'pad_const': pad_const,
                                'operators': ['PartialDerivative(axis=0..%d)' % (nd - 1), 'Gradient', 'Divergence']})
        # Laplacian
        for mode in ['constant', 'symmetric', 'symmetric_adjoint', 'periodic', 'order0', 'order0_adjoint']:
            for pad_const in ((0, -0.5, 5e-9, -1e-12) if mode == 'constant' else (0,)):
                idx += 1
                if not ctx.mine(idx):
                    continue
                L = np.zeros((N, N))
                off = np.zeros(N)
                for ax in range(nd):
                    Rf, cf = ref_matrix(shape[ax], 'forward', mode)
                    Rb, cb = ref_matrix(shape[ax], 'backward', mode)
                    L += kron_axis((Rf - Rb) / h[ax] ** 2, shape, ax)
                    off += offs_axis(pad_const * (cf - cb) / h[ax] ** 2, shape, ax)
                cfgb = 'laplace;%s;n=%s;ndim=%d%s' % (mode, sizeclass(min(shape)), nd, ';affine' if pad_const else '')
                ctx.case('ops;%s;laplacian;%s' % (tag, mode), pad_const)
                try:
                    op = odl.Laplacian(sp, pad_mode=mode, pad_const=pad_const)
                except Exception as e:
                    ctx.violation('Laplacian', cfgb, 'ctor-raises:' + type(e).__name__, message=str(e)[:200])
                    continue
                check_pair(ctx, 'Laplacian', cfgb, op, L, off, want_adjoint=not bdry)


def run(ctx):
    ctx.note('rule', 'one case = one configuration (method x pad mode x size x dx x pad_const x dtype x out given or '
                     'not [x axis x shape]) decided for all inputs through its full matrix; sizes 2..8 (quick) / 2..14 '
                     '(thorough) are enumerated completely; non-trivial = all')
    ctx.note('exhaustive', False)
    ctx.note('exhaustive_box', 'finite_diff 1-d: all (n<=%d) x 3 methods x 10 pad modes x pad_const{0,1.5} x dx{1,0.37} '
                               'x {float64,complex128} x out/no-out' % ctx.reps(8, 14))
    cov = cover.Cover()
    cov.add(getattr(diff_ops, 'finite_diff', None), 'finite_diff')
    for cls in ('PartialDerivative', 'Gradient', 'Divergence', 'Laplacian'):
        c = getattr(diff_ops, cls, None)
        if c is not None:
            for m in ('_call', 'adjoint', 'derivative'):
                cov.add(vars(c).get(m), '%s.%s' % (cls, m))
    cov.arm()
    run_fd_1d(ctx)
    run_fd_nd(ctx)
    run_ops(ctx)
    cov.disarm()
    n_exec, n_hit, unreached = cov.report()
    ctx.note('line_coverage', {'executable': n_exec, 'hit': n_hit})
    for u in unreached:
        ctx.note_set('unreached_lines', u)
