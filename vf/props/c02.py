"""C02 -- inner product, norm and distance: axioms and the documented weighting.

Deciding monitors
  documented-weighting : x.inner(y) / x.norm() / x.dist(y) / ||one||^2 against an independent NumPy
                         model of the documented weighted sums (const / array / product-space
                         weights, cell-volume quadrature with boundary-cell fractions).
  axioms               : conjugate symmetry, linearity in the first argument, positivity,
                         Cauchy-Schwarz, homogeneity, triangle inequality, norm = sqrt(inner),
                         dist = norm(x - y), symmetry of dist.
"""

import itertools

import numpy as np
import odl

from .. import cover, util

SHARDS = {'quick': 2, 'thorough': 16}
INF = float('inf')


def pclass(p):
    return {1.0: '1', 2.0: '2', INF: 'inf'}.get(float(p), 'other')


# ---------------------------------------------------------------------------------------------
# reference model


def discr_fractions(sp):
    """Per-entry boundary-cell fractions of a uniform discretization (1 in the interior)."""
    w = np.ones(sp.shape)
    part = sp.partition
    mins, maxs = part.min_pt, part.max_pt
    gmin, gmax = part.grid.min_pt, part.grid.max_pt
    for ax in range(sp.ndim):
        n = sp.shape[ax]
        if n == 1:
            continue
        h = (gmax[ax] - gmin[ax]) / (n - 1)
        fl = 0.5 + (gmin[ax] - mins[ax]) / h
        fr = 0.5 + (maxs[ax] - gmax[ax]) / h
        sl = [slice(None)] * sp.ndim
        sl[ax] = 0
        w[tuple(sl)] *= fl
        sl[ax] = -1
        w[tuple(sl)] *= fr
    return w


class Model(object):
    """Reference inner/norm/dist for a space description `desc` (built alongside the space)."""

    def __init__(self, desc):
        self.d = desc

    def weights(self, p):
        d = self.d
        w = np.ones(d['shape']) * d['base']
        if d['kind'] == 'discr' and p != INF:
            w = w * d['fractions']
        return w

    def norm(self, xa):
        d = self.d
        p = d['p']
        if d['kind'] == 'pspace':
            norms = np.array([m.norm(a) for m, a in zip(d['parts'], xa)], dtype=float)
            w = np.asarray(d['base'], dtype=float) * np.ones(len(norms))
            if p == INF:
                return float(np.max(w * norms)) if len(norms) else 0.0
            return float(np.sum(w * norms ** p) ** (1 / p))
        if d.get('custom') == 'inner':
            return float(np.sqrt(np.real(d['fn_inner'](xa, xa))))
        if d.get('custom') == 'norm':
            return float(d['fn_norm'](xa))
        w = self.weights(p)
        a = np.abs(xa.astype(complex if np.iscomplexobj(xa) else float))
        if p == INF:
            return float(np.max(w * a)) if a.size else 0.0
        return float(np.sum(w * a ** p) ** (1 / p))

    def inner(self, xa, ya):
        d = self.d
        if d['kind'] == 'pspace':
            inners = np.array([m.inner(a, b) for m, a, b in zip(d['parts'], xa, ya)])
            w = np.asarray(d['base'], dtype=float) * np.ones(len(inners))
            return np.sum(w * inners)
        if d.get('custom') == 'inner':
            return d['fn_inner'](xa, ya)
        w = self.weights(2.0)
        return np.sum(w * xa.astype(complex) * np.conj(ya.astype(complex)))

    def dist(self, xa, ya):
        d = self.d
        if d['kind'] == 'pspace':
            dists = np.array([m.dist(a, b) for m, a, b in zip(d['parts'], xa, ya)], dtype=float)
            w = np.asarray(d['base'], dtype=float) * np.ones(len(dists))
            p = d['p']
            if p == INF:
                return float(np.max(w * dists)) if len(dists) else 0.0
            return float(np.sum(w * dists ** p) ** (1 / p))
        if d.get('custom') == 'dist':
            return float(d['fn_dist'](xa, ya))
        if np.dtype(d.get('dtype', 'float64')) in (np.float32, np.complex64):
            return self.norm((xa - ya).astype(d['dtype']))
        return self.norm(xa - ya)


def arrs(sp, x):
    if util.is_pspace(sp):
        return [arrs(s, p) for s, p in zip(sp, x.parts)]
    return np.asarray(x).copy()


# ---------------------------------------------------------------------------------------------
# configuration lattice


def tensor_configs(ctx, rng):
    for dt in ('float64', 'float32', 'complex128', 'complex64'):
        for shape in [(3,), (2, 3), (120,), (7, 9, 2), (300, 200)]:
            if shape == (300, 200) and dt in ('float32', 'complex64') and not ctx.thorough:
                continue
            for wt in ('none', 'const', 'array'):
                for p in (2.0, 1.0, INF, 3.5):
                    kw = {}
                    base = 1.0
                    if wt == 'const':
                        base = 2.5
                        kw['weighting'] = base
                    elif wt == 'array':
                        rdt = {'float32': 'float32', 'complex64': 'float32'}.get(dt, 'float64')
                        base = rng.uniform(0.5, 2, size=shape).astype(rdt)
                        kw['weighting'] = base
                    sp = odl.tensor_space(shape, dtype=dt, exponent=p, **kw)
                    desc = {'kind': 'tensor', 'shape': shape, 'base': base, 'p': p, 'dtype': dt}
                    yield 'tensor;%s;%s;%s;p=%s' % (dt, util.size_regime(int(np.prod(shape))), wt, pclass(p)), sp, desc
                    if wt == 'array' and len(shape) >= 2 and dt in ('float64', 'complex128'):
                        # the weight array itself in Fortran order (elements come in both orders, see check_space)
                        spf = odl.tensor_space(shape, dtype=dt, exponent=p, weighting=np.asfortranarray(base))
                        yield 'tensor;%s;%s;array,F-ordered-weights;p=%s' % (dt, util.size_regime(int(np.prod(shape))), pclass(p)), spf, dict(desc)
    # extended precision (no BLAS routine): a few shapes, same documented formulas
    for dt in ('longdouble', 'clongdouble'):
        for shape, wt, p in itertools.product([(3,), (120,), (4, 5)], ('none', 'const', 'array'), (2.0, 1.0, INF)):
            kw = {}
            base = 1.0
            if wt == 'const':
                base = 2.5
                kw['weighting'] = base
            elif wt == 'array':
                base = rng.uniform(0.5, 2, size=shape)
                kw['weighting'] = base
            sp = odl.tensor_space(shape, dtype=dt, exponent=p, **kw)
            yield 'tensor;%s;%s;%s;p=%s' % (dt, util.size_regime(int(np.prod(shape))), wt, pclass(p)), sp, \
                {'kind': 'tensor', 'shape': shape, 'base': base, 'p': p, 'dtype': dt}
    # custom inner / norm / dist callables
    for dt in ('float64', 'complex128'):
        w = np.array([1.0, 2.0, 0.5, 3.0])

        def fn_inner(a, b, w=w):
            return np.sum(w * np.asarray(a) * np.conj(np.asarray(b)))

        def fn_norm(a, w=w):
            return float(np.sum(w * np.abs(np.asarray(a))))

        def fn_dist(a, b, w=w):
            return float(np.max(w * np.abs(np.asarray(a) - np.asarray(b))))
        yield 'tensor;%s;custom-inner' % dt, odl.tensor_space(4, dtype=dt, inner=fn_inner), \
            {'kind': 'tensor', 'shape': (4,), 'base': 1.0, 'p': 2.0, 'custom': 'inner', 'fn_inner': fn_inner}
        yield 'tensor;%s;custom-norm' % dt, odl.tensor_space(4, dtype=dt, norm=fn_norm), \
            {'kind': 'tensor', 'shape': (4,), 'base': 1.0, 'p': 1.0, 'custom': 'norm', 'fn_norm': fn_norm, 'noinner': True}
        yield 'tensor;%s;custom-dist' % dt, odl.tensor_space(4, dtype=dt, dist=fn_dist), \
            {'kind': 'tensor', 'shape': (4,), 'base': 1.0, 'p': 2.0, 'custom': 'dist', 'fn_dist': fn_dist, 'noinner': True, 'nonorm': True}


def discr_configs(ctx, rng):
    shapes_nob = [
        ((4,), False), ((4,), True), ((5,), [(True, False)]), ((5,), [(False, True)]),
        ((3, 4), [(True, False), (False, True)]), ((3, 4), True), ((3, 4), False),
        ((3, 4), [(True, True), (False, False)]), ((1, 4), True), ((4, 1), [(False, True), (True, False)]),
        ((2, 3, 2), [(False, True), (True, True), (False, False)]), ((2, 2), True), ((130,), True),
        ((260, 210), [(True, False), (True, True)]),
    ]
    for dt in ('float64', 'complex128', 'float32'):
        for shape, nob in shapes_nob:
            nd = len(shape)
            if int(np.prod(shape)) > 50000 and dt != 'float64':
                continue
            for p in (2.0, 1.0, INF, 3.5):
                for wt in ('default', 'const', 'array'):
                    if wt != 'default' and (dt == 'float32' or p == 3.5 or int(np.prod(shape)) > 50000):
                        continue
                    mx = [2.0, 3.3, 1.0][:nd]
                    kw = {}
                    if wt == 'const':
                        kw['weighting'] = 1.7
                    elif wt == 'array':
                        kw['weighting'] = rng.uniform(0.5, 2, size=shape)
                    sp = odl.uniform_discr([0.0] * nd, mx, shape, dtype=dt, nodes_on_bdry=nob, exponent=p, **kw)
                    if wt == 'default':
                        base = 1.0 if p == INF else float(np.prod(sp.cell_sides))
                    else:
                        base = kw['weighting']
                    desc = {'kind': 'discr', 'shape': shape, 'base': base, 'p': p, 'fractions': discr_fractions(sp),
                            'volume': float(np.prod(mx)), 'default_w': wt == 'default', 'dtype': dt}
                    anyb = nob is True or (isinstance(nob, list) and any(any(t) for t in nob))
                    cv1 = ',cv1' if float(sp.cell_volume) == 1.0 else ''
                    yield 'discr;%s;%s;w=%s%s;bdry=%s;p=%s' % (dt, util.size_regime(int(np.prod(shape))), wt, cv1, anyb, pclass(p)), sp, desc
    # cell volume exactly 1 with nodes on the boundary (default weighting)
    for dt in ('float64', 'complex128'):
        for p in (2.0, 1.0, 3.5):
            sp = odl.uniform_discr(0, 4, 5, nodes_on_bdry=True, dtype=dt, exponent=p)
            desc = {'kind': 'discr', 'shape': (5,), 'base': 1.0, 'p': p, 'fractions': discr_fractions(sp),
                    'volume': 4.0, 'default_w': True, 'dtype': dt}
            yield 'discr;%s;<100;w=default,cv1;bdry=True;p=%s' % (dt, pclass(p)), sp, desc
        sp = odl.uniform_discr([0, 0], [2, 1.5], (3, 3), nodes_on_bdry=[(True, True), (False, False)], dtype=dt)
        desc = {'kind': 'discr', 'shape': (3, 3), 'base': 0.5, 'p': 2.0, 'fractions': discr_fractions(sp),
                'volume': 3.0, 'default_w': True, 'dtype': dt}
        yield 'discr;%s;<100;w=default;bdry=True;p=2' % dt, sp, desc


def fractional_bdry_configs(ctx, rng):
    """Uniform grids inside a domain whose limits are neither on the outer nodes nor half a cell outside them: boundary-cell
    fractions other than 1/2 and 1 (uniform_partition_fromgrid with explicit limits)."""
    for dt in ('float64', 'complex128'):
        for nd, p in itertools.product((1, 2), (2.0, 1.0, 3.5, INF)):
            shape = (5, 4)[:nd]
            grid = odl.uniform_grid([0.1, 1.0][:nd], [0.9, 1.6][:nd], shape)
            stride = grid.stride
            fl, fr = np.array([1.2, 0.7][:nd]), np.array([0.9, 1.45][:nd])       # boundary cell fractions
            mn = grid.min_pt - (fl - 0.5) * stride
            mx = grid.max_pt + (fr - 0.5) * stride
            part = odl.uniform_partition_fromgrid(grid, min_pt=mn, max_pt=mx)
            sp = odl.uniform_discr_frompartition(part, dtype=dt, exponent=p)
            base = 1.0 if p == INF else float(np.prod(stride))
            desc = {'kind': 'discr', 'shape': shape, 'base': base, 'p': p, 'fractions': discr_fractions(sp),
                    'volume': float(np.prod(mx - mn)), 'default_w': True, 'dtype': dt}
            yield 'discr;%s;<100;w=default;bdry=fractional;p=%s' % (dt, pclass(p)), sp, desc


def pspace_configs(ctx, rng):
    def leaf(kind, dt='float64'):
        if kind == 'r3':
            return odl.rn(3, dtype=dt) if dt.startswith('f') else odl.cn(3, dtype=dt), \
                {'kind': 'tensor', 'shape': (3,), 'base': 1.0, 'p': 2.0}
        if kind == 'r2w':
            sp = odl.tensor_space(2, dtype=dt, weighting=0.5)
            return sp, {'kind': 'tensor', 'shape': (2,), 'base': 0.5, 'p': 2.0}
        if kind == 'r4aw':
            w = np.array([1.0, 2.0, 3.0, 0.25])
            sp = odl.tensor_space(4, dtype=dt, weighting=w)
            return sp, {'kind': 'tensor', 'shape': (4,), 'base': w, 'p': 2.0}
        if kind == 'd5b':
            sp = odl.uniform_discr(0, 2, 5, nodes_on_bdry=True, dtype=dt)
            return sp, {'kind': 'discr', 'shape': (5,), 'base': 0.5, 'p': 2.0, 'fractions': discr_fractions(sp)}
        raise ValueError(kind)

    for dt in ('float64', 'complex128'):
        for combo in [('r3', 'r2w'), ('r3', 'r3', 'r3'), ('r4aw', 'd5b'), ('d5b', 'd5b')]:
            for p in (2.0, 1.0, INF, 3.5):
                for wt in ('none', 'const', 'array'):
                    parts = [leaf(k, dt) for k in combo]
                    kw = {'exponent': p}
                    base = 1.0
                    if wt == 'const':
                        base = 1.75
                        kw['weighting'] = base
                    elif wt == 'array':
                        base = np.linspace(0.5, 2.5, len(combo))
                        kw['weighting'] = base
                    sp = odl.ProductSpace(*[s for s, _ in parts], **kw)
                    # documented: const weighting c -> c^(1/p) * ||norms||_p  == (sum c*n^p)^(1/p); inf: c*max
                    desc = {'kind': 'pspace', 'parts': [Model(d) for _, d in parts], 'base': base, 'p': p}
                    yield 'pspace;%s;%s;%s;p=%s' % (dt, '+'.join(combo), wt, pclass(p)), sp, desc
        # nested
        (a, da), (b, db), (c, dc) = leaf('r3', dt), leaf('r2w', dt), leaf('d5b', dt)
        inner_sp = odl.ProductSpace(a, b, weighting=[2.0, 0.5])
        inner_desc = {'kind': 'pspace', 'parts': [Model(da), Model(db)], 'base': np.array([2.0, 0.5]), 'p': 2.0}
        sp = odl.ProductSpace(inner_sp, c, weighting=3.0)
        desc = {'kind': 'pspace', 'parts': [Model(inner_desc), Model(dc)], 'base': 3.0, 'p': 2.0}
        yield 'pspace;%s;nested;const;p=2' % dt, sp, desc
        pw = odl.ProductSpace(a, 3, exponent=1.0, weighting=[1.0, 2.0, 4.0])
        descpw = {'kind': 'pspace', 'parts': [Model(da)] * 3, 'base': np.array([1.0, 2.0, 4.0]), 'p': 1.0}
        yield 'pspace;%s;power;array;p=1' % dt, pw, descpw
        # custom inner on product space
        def pin(x, y):
            return sum((i + 1.0) * xi.inner(yi) for i, (xi, yi) in enumerate(zip(x, y)))
        spc = odl.ProductSpace(a, b, inner=pin)

        class PIn(Model):
            def __init__(self, parts):
                self.parts = parts
                self.d = {'kind': 'pcustom', 'p': 2.0}

            def inner(self, xa, ya):
                return sum((i + 1.0) * m.inner(p, q) for i, (m, p, q) in enumerate(zip(self.parts, xa, ya)))

            def norm(self, xa):
                return float(np.sqrt(np.real(self.inner(xa, xa))))

            def dist(self, xa, ya):
                return self.norm([p - q for p, q in zip(xa, ya)])
        yield 'pspace;%s;custom-inner' % dt, spc, PIn([Model(da), Model(db)])


# ---------------------------------------------------------------------------------------------
# W-ambient: the same model derived from an arbitrary library space, for every inner / norm / dist call the repository's
# own test-suite makes (thorough tier)


def describe(sp):
    """Model description of a space the library built, or None where the documentation gives no closed form (custom
    callables, non-uniform partitions)."""
    try:
        p = float(sp.exponent)
        if util.is_pspace(sp):
            w = sp.weighting
            name = type(w).__name__
            if name == 'ProductSpaceConstWeighting':
                base = float(w.const)
            elif name == 'ProductSpaceArrayWeighting':
                base = np.asarray(w.array, dtype=float)
            else:
                return None
            parts = [describe(s) for s in sp]
            if any(q is None for q in parts):
                return None
            return {'kind': 'pspace', 'parts': [Model(q) for q in parts], 'base': base, 'p': p}
        ts = sp.tspace if isinstance(sp, odl.DiscretizedSpace) else sp
        if type(ts).__name__ != 'NumpyTensorSpace':
            return None
        w = ts.weighting
        name = type(w).__name__
        if name == 'NumpyTensorSpaceConstWeighting':
            base = float(w.const)
        elif name == 'NumpyTensorSpaceArrayWeighting':
            base = np.asarray(w.array)
        else:
            return None
        if float(w.exponent) != p:
            return None
        d = {'kind': 'tensor', 'shape': sp.shape, 'base': base, 'p': p, 'dtype': str(np.dtype(sp.dtype))}
        if isinstance(sp, odl.DiscretizedSpace):
            if not sp.partition.is_uniform:
                return None
            d['kind'] = 'discr'
            d['fractions'] = discr_fractions(sp)
        return d
    except Exception:
        return None


class AmbientContract(object):
    """Record-only contract on LinearSpace.inner / norm / dist (public entry points): result against the documented
    weighted sums, conjugate symmetry, Cauchy-Schwarz, norm = sqrt(inner), dist = norm(x - y) and its symmetry."""

    def __init__(self, rec):
        self.rec = rec
        self.busy = False
        self.models = {}

    def model(self, sp):
        key = id(sp)
        if key not in self.models:
            d = describe(sp) if type(sp).__module__.startswith('odl.') else None
            self.models[key] = (sp, Model(d) if d is not None else None)     # keeps sp alive: ids are not reused
        return self.models[key][1]

    def install(self):
        from odl.set.space import LinearSpace
        me = self
        orig = {n: getattr(LinearSpace, n) for n in ('inner', 'norm', 'dist')}

        def wrap(name):
            fn = orig[name]

            def method(self, *args):
                r = fn(self, *args)
                if me.busy:
                    return r
                me.busy = True
                try:
                    me.check(name, self, args, r, orig)
                except Exception as e:       # the contract must never change what the suite sees
                    me.rec.note_add('ambient_contract_errors:' + type(e).__name__)
                finally:
                    me.busy = False
                return r
            method.__name__ = name
            method.__doc__ = fn.__doc__
            return method
        for n in orig:
            setattr(LinearSpace, n, wrap(n))

    def check(self, name, sp, args, r, orig):
        model = self.model(sp)
        if model is None:
            self.rec.note_add('ambient_no_model')
            return
        els = [a if getattr(a, 'space', None) is not None else None for a in args]
        if any(e is None or e not in sp for e in els):
            return
        A = [arrs(sp, e) for e in els]
        flat = np.concatenate([np.ravel(np.asarray(v, dtype=complex)) for e in els for v in ([util.to_cvec(sp, e)])]) if els else np.zeros(0)
        if flat.size == 0 or not np.all(np.isfinite(flat)) or not np.isfinite(complex(r)):
            self.rec.note_add('ambient_nonfinite_or_empty')
            return
        mx = float(np.abs(flat).max())
        if mx > 1e100 or (mx < 1e-100 and mx != 0):
            return
        single = any(np.dtype(l.dtype).itemsize // (2 if np.dtype(l.dtype).kind == 'c' else 1) <= 4 for _p, l in util.leaves(sp))
        tol = 5e-4 if single else 1e-9
        cfg = 'ambient:' + util.space_tag(sp) + ';p=' + pclass(model.d.get('p', 2.0))
        self.rec.ev('ambient-' + name)
        if name == 'inner':
            x, y = els
            ref = complex(model.inner(A[0], A[1]))
            nx, ny = float(model.norm(A[0])), float(model.norm(A[1]))
            sc = max(abs(ref), nx * ny * 1e-2, 1e-300)
            if abs(complex(r) - ref) > tol * sc:
                self.rec.violation('inner', cfg, '!=documented', got=complex(r), ref=ref)
            back = orig['inner'](sp, y, x)
            if abs(complex(r) - np.conj(complex(back))) > tol * sc:
                self.rec.violation('inner', cfg, 'conjugate-symmetry')
            if abs(complex(r)) > nx * ny * (1 + 10 * tol) + 1e-300:
                self.rec.violation('inner', cfg, 'cauchy-schwarz')
        elif name == 'norm':
            ref = float(model.norm(A[0]))
            if not isclose(r, ref, tol) or r < 0:
                self.rec.violation('norm', cfg, '!=documented', got=float(r), ref=ref)
            if model.d.get('p', 2.0) == 2.0:
                ixx = orig['inner'](sp, els[0], els[0])
                if not isclose(r, np.sqrt(np.real(ixx)), tol):
                    self.rec.violation('norm', cfg, '!=sqrt(inner)', got=float(r), ref=float(np.sqrt(np.real(ixx))))
        else:
            x, y = els
            ref = float(model.dist(A[0], A[1]))
            nx, ny = float(model.norm(A[0])), float(model.norm(A[1]))
            # cancellation: the difference of two close elements carries the rounding error of the operands
            if abs(float(r) - ref) > 10 * tol * max(ref, 1e-3 * (nx + ny), 1e-300):
                self.rec.violation('dist', cfg, '!=documented', got=float(r), ref=ref)
            back = orig['dist'](sp, y, x)
            if abs(float(r) - float(back)) > tol * max(ref, 1e-3 * (nx + ny), 1e-300):
                self.rec.violation('dist', cfg, 'asymmetric')


def run_ambient(ctx):
    """W-ambient (thorough, shard 0): the repository's own suite under the inner / norm / dist contract."""
    from .c03 import ambient_suite
    data = ambient_suite(ctx, {'VF_AMBIENT_INNER': '1', 'VF_AMBIENT_NO_CALLMON': '1'}, 'c02')
    if not data:
        return
    st = data['stats']
    ctx.note('ambient', {k: v for k, v in st.items() if k.startswith('ambient')})
    n = sum(v for k, v in st.items() if k in ('ambient-inner', 'ambient-norm', 'ambient-dist'))
    ctx.ev('ambient-contract', n)
    for v in data['violations']:
        ctx.violation(v['component'], v['config'], v['kind'], where='repository test-suite (W-ambient)', count=v['count'])


def rnd(sp, rng, order_flip=False):
    if util.is_pspace(sp):
        return sp.element([rnd(s, rng, order_flip) for s in sp])
    a = rng.normal(size=sp.shape)
    if sp.is_complex:
        a = a + 1j * rng.normal(size=sp.shape)
    if order_flip == 'strided':
        # neither C- nor F-contiguous: every second entry of a larger buffer (wrapped without a copy), which takes the
        # computations off the BLAS paths
        big = np.zeros(tuple(2 * n for n in sp.shape), dtype=sp.dtype)
        view = big[tuple(slice(None, None, 2) for _ in sp.shape)]
        view[...] = a.astype(sp.dtype)
        return sp.element(view)
    order = 'F' if order_flip else 'C'
    return sp.element(np.asarray(a.astype(sp.dtype), order=order))


def isclose(a, b, tol):
    a = complex(a)
    b = complex(b)
    return abs(a - b) <= tol * max(abs(a), abs(b), 1e-300) or abs(a - b) <= tol * 1e-3


def check_space(ctx, cls, sp, model, rng):
    d = model.d if isinstance(model, Model) else {}
    single = any(np.dtype(l.dtype) in (np.float32, np.complex64) for _p, l in util.leaves(sp))
    tol = 2e-4 if single else 1e-10
    cplx = util.space_complex(sp)
    p = d.get('p', 2.0)
    cfg = cls
    for rep in range(ctx.reps(2, 10)):
        x = rnd(sp, rng, order_flip=(rep % 2 == 1))
        y = rnd(sp, rng, order_flip=('strided' if rep % 2 == 1 else True))
        z = rnd(sp, rng, order_flip=(rep % 3 == 0))
        xa, ya, za = arrs(sp, x), arrs(sp, y), arrs(sp, z)
        a = complex(1.5, -0.5) if cplx else -1.7
        ctx.case(cls, rep)

        def viol(comp, kind, **kw):
            ctx.violation(comp, cfg, kind, **kw)

        has_norm = not d.get('nonorm')
        has_inner = (p == 2.0) and not d.get('noinner')
        try:
            if has_norm:
                nx = x.norm()
                ny = y.norm()
                ctx.ev('documented-weighting')
                ref = model.norm(xa)
                if not isclose(nx, ref, tol):
                    viol('norm', '!=documented', got=nx, ref=ref)
                ctx.ev('axioms')
                if not isclose((a * x).norm(), abs(a) * nx, tol):
                    viol('norm', 'homogeneity')
                if (x + y).norm() > (nx + ny) * (1 + tol):
                    viol('norm', 'triangle')
                if nx < 0 or (sp.zero().norm() != 0):
                    viol('norm', 'positivity')
            dxy = x.dist(y)
            ctx.ev('documented-weighting')
            refd = model.dist(xa, ya)
            if not isclose(dxy, refd, tol * 10):
                viol('dist', '!=documented', got=dxy, ref=refd)
            ctx.ev('axioms')
            if has_norm and not isclose(dxy, (x - y).norm(), tol * 10):
                viol('dist', '!=norm(x-y)', got=dxy, ref=(x - y).norm())
            if not isclose(dxy, y.dist(x), tol):
                viol('dist', 'asymmetric')
            if not isclose(x.dist(x), 0.0, 1e-7) and abs(x.dist(x)) > 1e-7:
                viol('dist', 'd(x,x)!=0')
            if has_inner:
                ixy = x.inner(y)
                ctx.ev('documented-weighting')
                refi = model.inner(xa, ya)
                sc = max(abs(complex(refi)), float(model.norm(xa) * model.norm(ya)) * 1e-2)
                if abs(complex(ixy) - complex(refi)) > tol * max(sc, 1e-300):
                    viol('inner', '!=documented', got=ixy, ref=refi)
                ctx.ev('axioms')
                iyx = y.inner(x)
                if abs(complex(ixy) - np.conj(complex(iyx))) > tol * sc:
                    viol('inner', 'conjugate-symmetry')
                lhs = (a * x + z).inner(y)
                rhs = a * ixy + z.inner(y)
                if abs(complex(lhs) - complex(rhs)) > 10 * tol * max(sc, abs(complex(rhs))):
                    viol('inner', 'linearity-first-arg')
                ixx = x.inner(x)
                if np.real(ixx) < 0 or abs(np.imag(ixx)) > tol * abs(ixx):
                    viol('inner', 'positivity')
                if has_norm and not isclose(nx, np.sqrt(np.real(ixx)), tol):
                    viol('norm', '!=sqrt(inner)', got=nx, ref=np.sqrt(np.real(ixx)))
                if has_norm and abs(complex(ixy)) > nx * ny * (1 + tol):
                    viol('inner', 'cauchy-schwarz')
                if not cplx and np.iscomplexobj(ixy) and np.imag(ixy) != 0:
                    viol('inner', 'complex-on-real-space')
            if d.get('kind') == 'discr' and p == 2.0 and d.get('default_w') and rep == 0:
                ctx.ev('documented-weighting')
                v = sp.one().norm() ** 2
                if not isclose(v, d['volume'], tol):
                    viol('norm', '||one||^2!=volume', got=v, ref=d['volume'])
        except Exception as e:
            viol('inner/norm/dist', 'raises:' + type(e).__name__, message=str(e)[:200])
    if ctx.evaluations % 37 == 1:
        ctx.sample({'space': util.srepr(sp), 'class': cls})


def run(ctx):
    ctx.note('rule', 'one case = (space configuration class, repetition) with 3 seeded elements and a scalar; '
                     'the configuration lattice (dtype x size regime x layout x weighting kind x exponent x '
                     'boundary-node placement x product-space structure) is enumerated completely; '
                     'distinct = distinct (class, repetition); non-trivial = all')
    cov = cover.Cover()
    from odl.space import npy_tensors as nt
    from odl.space import pspace as ps
    from odl.discr import discr_space as ds
    for name in ('_inner_default', '_norm_default', '_pnorm_default', '_pnorm_diagweight'):
        cov.add(getattr(nt, name, None), name)
    for cls_ in (getattr(nt, 'NumpyTensorSpaceArrayWeighting', None), getattr(nt, 'NumpyTensorSpaceConstWeighting', None),
                 getattr(ps, 'ProductSpaceArrayWeighting', None), getattr(ps, 'ProductSpaceConstWeighting', None)):
        if cls_ is not None:
            for m in ('inner', 'norm', 'dist'):
                cov.add(vars(cls_).get(m), '%s.%s' % (cls_.__name__, m))
    for m in ('_inner', '_norm', '_dist'):
        cov.add(vars(ds.DiscretizedSpace).get(m), 'DiscretizedSpace.' + m)
    cov.add(getattr(ds, '_scaling_func_list', None), '_scaling_func_list')
    cov.arm()
    rng = ctx.crng('configs')
    i = 0
    for gen in (tensor_configs, discr_configs, fractional_bdry_configs, pspace_configs):
        for cls, sp, desc in gen(ctx, rng):
            i += 1
            ctx.require(cls)
            if not ctx.mine(i):
                continue
            model = desc if isinstance(desc, Model) else Model(desc)
            check_space(ctx, cls, sp, model, ctx.rng('vals', i))
    cov.disarm()
    if ctx.thorough and ctx.shard == 0 and ctx.round == 0:
        run_ambient(ctx)
    n_exec, n_hit, unreached = cov.report()
    ctx.note('line_coverage', {'executable': n_exec, 'hit': n_hit})
    for u in unreached:
        ctx.note_set('unreached_lines', u)
