"""C16 -- resizing and padding follow the named boundary rule; cropping undoes extension.

Deciding monitors
  resize-reference   : resize_array vs explicit per-axis (n_new x n_old) matrices, all modes / offsets /
                       dtypes / layouts / out=; np.pad as second opinion where an equivalent mode exists.
  exact-transpose    : direction='adjoint' is the exact transpose (integer-valued data, exact sums).
  crop-undoes-extend : extend then crop with matching offsets is the identity.
  resizing-operator  : ResizingOperator range partition (cell sides unchanged, hull shifted by offset
                       cells), values == resize_array, inverse, adjoint identity in the weighted inner
                       products (full Gram matrices).
"""

import itertools

import numpy as np
import odl
from odl.util.numerics import resize_array

from .. import adjoint, cover, util

SHARDS = {'quick': 4, 'thorough': 16}
THOROUGH_ROUNDS = 4
MODES = ['constant', 'symmetric', 'periodic', 'order0', 'order1']
NP_MODE = {'constant': 'constant', 'periodic': 'wrap', 'symmetric': 'reflect', 'order0': 'edge'}


def ref_1d(n_old, n_new, off, mode, pad_const=0):
    R = np.zeros((n_new, n_old))
    c = np.zeros(n_new, dtype=bool)
    if n_new <= n_old:
        for i in range(n_new):
            R[i, i + off] = 1
        return R, c
    for i in range(n_new):
        j = i - off
        if 0 <= j < n_old:
            R[i, j] = 1
            continue
        if mode == 'constant':
            c[i] = True
        elif mode == 'periodic':
            R[i, j % n_old] = 1
        elif mode == 'symmetric':
            jj = -j if j < 0 else 2 * (n_old - 1) - j
            R[i, jj] = 1
        elif mode == 'order0':
            R[i, 0 if j < 0 else n_old - 1] = 1
        elif mode == 'order1':
            if j < 0:
                R[i, 0] += 1 - j
                R[i, 1] += j
            else:
                k = j - (n_old - 1)
                R[i, n_old - 1] += 1 + k
                R[i, n_old - 2] -= k
    return R, c


def admissible(n_old, n_new, off, mode):
    if n_new <= n_old:
        return off + n_new <= n_old
    pl, pr = off, n_new - n_old - off
    if pr < 0:
        return False
    if mode == 'periodic':
        return max(pl, pr) <= n_old
    if mode == 'symmetric':
        return max(pl, pr) < n_old
    if mode == 'order0':
        return n_old >= 1
    if mode == 'order1':
        return n_old >= 2
    return True


def apply_ref(arr, newshp, offs, mode, pc):
    out = arr
    cs = []
    for ax, (n_new, off) in enumerate(zip(newshp, offs)):
        R, c = ref_1d(out.shape[ax], n_new, off, mode, pc)
        out = np.moveaxis(np.tensordot(R, out, axes=(1, ax)), 0, ax)
        cs.append(c)
    if mode == 'constant' and pc != 0:
        mask = np.zeros(out.shape, bool)
        for ax, c in enumerate(cs):
            sl = [None] * out.ndim
            sl[ax] = slice(None)
            mask = mask | c[tuple(sl)]
        out = np.where(mask, pc, out)
    return out


def apply_ref_T(b, oldshp, offs, mode):
    """Transpose of the forward map old->new applied to b (shape new)."""
    out = b
    newshp = b.shape
    for ax in reversed(range(b.ndim)):
        R, _c = ref_1d(oldshp[ax], newshp[ax], offs[ax], mode, 0)
        out = np.moveaxis(np.tensordot(R.T, out, axes=(1, ax)), 0, ax)
    return out


def axis_kind(a, b):
    return 'grow' if b > a else ('shrink' if b < a else 'same')


def gen_cases(ctx):
    """Deterministic lattice of per-axis (grow, shrink, same) x offsets x modes + seeded extras."""
    rng = ctx.rng('cases')
    cases = []
    sizes = [(3, 5), (4, 2), (3, 3), (2, 6), (5, 1), (1, 3)]   # (old, new)
    for nd in (1, 2, 3):
        for combo in itertools.product(sizes, repeat=nd):
            if nd == 3 and not ctx.thorough and (hash(combo) % 9):
                continue
            for mode in MODES:
                for offkind in ('zero', 'max', 'interior'):
                    shp = tuple(c[0] for c in combo)
                    newshp = tuple(c[1] for c in combo)
                    offs = []
                    for a, b in combo:
                        d = abs(a - b)
                        offs.append(0 if offkind == 'zero' else (d if offkind == 'max' else d // 2))
                    cases.append((shp, newshp, tuple(offs), mode, offkind))
    n_extra = ctx.reps(600, 6000)
    for _ in range(n_extra):
        nd = int(rng.integers(1, 4))
        shp = tuple(int(k) for k in rng.integers(1, 7, size=nd))
        newshp = tuple(int(k) for k in rng.integers(1, 12, size=nd))
        mode = MODES[int(rng.integers(len(MODES)))]
        offs = tuple(int(rng.integers(0, abs(a - b) + 1)) for a, b in zip(shp, newshp))
        cases.append((shp, newshp, offs, mode, 'random'))
    return cases


class _ArrayView(np.ndarray):
    pass


def run_resize_array(ctx):
    rng = ctx.rng('vals')
    cases = gen_cases(ctx)
    for idx, (shp, newshp, offs, mode, offkind) in enumerate(cases):
        if not ctx.mine(idx):
            continue
        if not all(admissible(a, b, o, mode) for a, b, o in zip(shp, newshp, offs)):
            # padding longer than the mode can fill from the array (documented ValueError), on whichever side: must be refused,
            # in both directions, never answered with an array
            growth_ok = all((b <= a and o + b <= a) or (b > a and 0 <= o <= b - a) for a, b, o in zip(shp, newshp, offs))
            if growth_ok and mode in ('periodic', 'symmetric', 'order1') and min(shp) >= 1:
                for direction in ('forward', 'adjoint'):
                    ctx.ev('resize-reference')
                    try:
                        src = np.ones(shp if direction == 'forward' else newshp)
                        res = resize_array(src, newshp if direction == 'forward' else shp, offs, mode, 0, direction=direction)
                        ctx.violation('resize_array', '%s;%s;padding-too-long' % (mode, direction), 'bad-input-accepted', shp=shp, newshp=newshp, offs=offs)
                    except ValueError:
                        pass
                    except Exception as e:
                        ctx.violation('resize_array', '%s;%s;padding-too-long' % (mode, direction), 'wrong-exception:' + type(e).__name__, shp=shp, newshp=newshp, offs=offs)
            ctx.skip('inadmissible padding for mode (Appendix B)')
            continue
        for dt, order in (('float64', 'C'), ('complex128', 'F'), ('int64', 'C'), ('float32', 'F')):
            pc = (int(rng.integers(-2, 3)) if mode == 'constant' else 0)
            arr = rng.integers(-5, 6, size=shp).astype(dt)
            if dt == 'complex128':
                arr = arr + 1j * rng.integers(-5, 6, size=shp)
            arr = np.asarray(arr, order=order)
            arr0 = arr.copy()
            kinds = '+'.join(sorted(set(axis_kind(a, b) for a, b in zip(shp, newshp))))
            comp = 'resize_array'
            cfg = '%s;%s;ndim=%d;%s' % (mode, kinds, len(shp), np.dtype(dt).kind)
            ctx.case('resize;%s;%s;%dd;%s' % (mode, kinds, len(shp), offkind), (shp, newshp, offs, dt))
            ctx.ev('resize-reference')
            try:
                got = resize_array(arr, newshp, offs, mode, pc)
                exp = apply_ref(arr0, newshp, offs, mode, pc)
                if got.shape != tuple(newshp):
                    ctx.violation(comp, cfg, 'shape', got=got.shape, want=newshp)
                elif not np.array_equal(got, exp.astype(got.dtype)) if np.dtype(dt).kind in 'iu' else not np.allclose(got, exp, rtol=1e-6 if dt == 'float32' else 1e-13, atol=1e-12):
                    ctx.violation(comp, cfg, 'value!=reference', shp=shp, newshp=newshp, offs=offs, pad_const=pc, got=got, ref=exp)
                if got.dtype != arr.dtype:
                    ctx.violation(comp, cfg, 'dtype-changed', got=str(got.dtype))
                if not np.array_equal(arr, arr0):
                    ctx.violation(comp, cfg, 'input-modified')
                # out= given, hostile contents, both orders
                for oorder in ('C', 'F'):
                    out2 = np.full(newshp, 99, dtype=arr.dtype, order=oorder)
                    r2 = resize_array(arr, newshp, offs, mode, pc, out=out2)
                    if r2 is not out2:
                        ctx.violation(comp, cfg, 'not-out')
                    if not np.allclose(out2, exp, rtol=1e-6 if dt == 'float32' else 1e-13, atol=1e-12):
                        ctx.violation(comp, cfg, 'out=!=reference', shp=shp, newshp=newshp, offs=offs)
                # np.pad second opinion (pure growth only)
                if mode in NP_MODE and all(b >= a for a, b in zip(shp, newshp)) and min(shp) > 0:
                    pw = [(o, b - a - o) for a, b, o in zip(shp, newshp, offs)]
                    kw = {'constant_values': pc} if mode == 'constant' else {}
                    try:
                        npref = np.pad(arr0, pw, mode=NP_MODE[mode], **kw)
                        ctx.ev('resize-reference')
                        if not np.allclose(got, npref, rtol=1e-6 if dt == 'float32' else 1e-13, atol=1e-12):
                            ctx.violation(comp, cfg, 'value!=np.pad', shp=shp, newshp=newshp, offs=offs)
                    except ValueError:
                        pass
                # exact transpose
                if not (mode == 'constant' and pc != 0):
                    ctx.ev('exact-transpose')
                    b = rng.integers(-5, 6, size=newshp).astype(dt)
                    if dt == 'complex128':
                        b = b + 1j * rng.integers(-5, 6, size=newshp)
                    # (a non-zero pad_const is documented to matter for 'constant' only: handed in for the other modes, ignored)
                    adj = resize_array(b, shp, offs, mode, 0 if mode == 'constant' else 2.5, direction='adjoint')
                    expT = apply_ref_T(b, shp, offs, mode)
                    if mode != 'constant':
                        fw2 = resize_array(arr, newshp, offs, mode, 2.5)
                        if not np.allclose(fw2, exp, rtol=1e-6 if dt == 'float32' else 1e-13, atol=1e-12):
                            ctx.violation(comp, cfg, 'value!=reference', shp=shp, newshp=newshp, offs=offs, note='pad_const given for a non-constant mode')
                    if adj.shape != tuple(shp) or not np.allclose(adj, expT, rtol=1e-6 if dt == 'float32' else 1e-13, atol=1e-12):
                        ctx.violation(comp, cfg, 'adjoint!=transpose', shp=shp, newshp=newshp, offs=offs, got=adj, ref=expT)
                    lhs = np.sum(got.astype(complex) * b)
                    rhs = np.sum(arr0.astype(complex) * adj)
                    if abs(lhs - rhs) > 1e-9 * max(1, abs(lhs)):
                        ctx.violation(comp, cfg, 'adjoint-identity', lhs=lhs, rhs=rhs)
                    outa = np.full(shp, 77, dtype=arr.dtype)
                    r3 = resize_array(b, shp, offs, mode, 0, direction='adjoint', out=outa)
                    if r3 is not outa or not np.allclose(outa, expT, rtol=1e-6 if dt == 'float32' else 1e-13, atol=1e-12):
                        ctx.violation(comp, cfg, 'adjoint-out=!=transpose')
                    # array-likes that share memory with what np.asarray makes of them: the caller's data must survive
                    for ckind in ('element', 'ndarray-subclass', 'memoryview', 'list'):
                        for direction, src, tgt_shape, ref_ in (('adjoint', b, shp, expT), ('forward', arr0, newshp, exp)):
                            data = np.array(src, copy=True, order='C')
                            keep = data.copy()
                            if ckind == 'element':
                                inp = odl.tensor_space(data.shape, dtype=data.dtype).element(data)
                            elif ckind == 'ndarray-subclass':
                                inp = data.view(_ArrayView)
                            elif ckind == 'memoryview':
                                if data.size == 0:
                                    continue
                                inp = memoryview(data)
                            else:
                                inp = data.tolist()
                                if data.size == 0:
                                    continue
                            ctx.ev('resize-reference')
                            r4 = resize_array(inp, tgt_shape, offs, mode, pc if direction == 'forward' else 0, direction=direction)
                            if ckind != 'list' and not np.array_equal(data, keep):
                                ctx.violation(comp, '%s;%s;input=%s' % (mode, direction, ckind), 'input-modified')
                            if ckind != 'list' and not np.allclose(np.asarray(r4), ref_, rtol=1e-6 if dt == 'float32' else 1e-13, atol=1e-12):
                                ctx.violation(comp, '%s;%s;input=%s' % (mode, direction, ckind), 'value!=reference')
                # extend then crop == identity
                if all(b >= a for a, b in zip(shp, newshp)):
                    ctx.ev('crop-undoes-extend')
                    back = resize_array(got, shp, offs, mode, pc)
                    if not np.array_equal(back, arr0):
                        ctx.violation(comp, cfg, 'crop-after-extend!=identity', shp=shp, newshp=newshp, offs=offs)
            except Exception as e:
                ctx.violation(comp, cfg, 'raises:' + type(e).__name__, message=str(e)[:200], shp=shp, newshp=newshp, offs=offs, dt=dt)
        if idx % 500 == 0:
            ctx.sample({'resize_array': {'shape': shp, 'newshp': newshp, 'offset': offs, 'pad_mode': mode}})


def run_operator(ctx):
    rng = ctx.rng('op')
    spaces = [
        ('1d', odl.uniform_discr(0, 1, 4)),
        ('1d-bdry', odl.uniform_discr(0, 1, 4, nodes_on_bdry=True)),
        ('1d-c', odl.uniform_discr(-1, 1, 3, dtype=complex)),
        ('2d', odl.uniform_discr([0, 0], [1, 3], (2, 3))),
        ('2d-w', odl.uniform_discr([0, 0], [1, 3], (3, 2), weighting=2.0)),
        ('2d-f32', odl.uniform_discr([0, 0], [1, 1], (3, 3), dtype='float32')),
    ]
    idx = 0
    for tag, sp in spaces:
        for mode in MODES:
            for delta_spec in (+3, +1, -1, 0, 'mixed+-', 'mixed-+', 'mixed0-'):
                for offkind in ('default', 'zero'):
                    delta = delta_spec
                    if isinstance(delta, str) and sp.ndim < 2:
                        continue
                    idx += 1
                    if not ctx.mine(idx):
                        continue
                    if isinstance(delta, str):
                        # grow in one axis, shrink in another (range.size may be below, equal to or above domain.size)
                        per_axis = {'mixed+-': (+2, -1), 'mixed-+': (-1, +4), 'mixed0-': (0, -1)}[delta]
                        ran_shp = tuple(max(1, k + d_) for k, d_ in zip(sp.shape, per_axis))
                        dname = delta
                        delta = 0
                    else:
                        dname = None
                        ran_shp = tuple(max(1, k + delta) for k in sp.shape)
                    offs_in = None if offkind == 'default' else tuple(0 for _ in sp.shape)
                    pad_l = [(b - a) for a, b in zip(sp.shape, ran_shp)]
                    if not all(admissible(a, b, 0 if offs_in else max(0, (b - a + 1) // 2), mode) or b <= a for a, b in zip(sp.shape, ran_shp)):
                        ctx.skip('inadmissible padding for mode (Appendix B)')
                        continue
                    if mode == 'order1' and min(sp.shape) < 2:
                        continue
                    pc = 0
                    comp = 'ResizingOperator'
                    bd = 'bdry' if 'bdry' in tag else 'nobdry'
                    cfg = '%s;%s;%s' % (mode, dname or ('grow' if delta > 0 else ('shrink' if delta < 0 else 'same')), bd)
                    ctx.case('op;%s;%s;%s;%s' % (tag, mode, dname or delta, offkind), 0)
                    ctx.ev('resizing-operator')
                    try:
                        kw = {} if offs_in is None else {'offset': offs_in}
                        op = odl.ResizingOperator(sp, ran_shp=ran_shp, pad_mode=mode, **kw)
                    except Exception as e:
                        ctx.violation(comp, cfg, 'ctor-raises:' + type(e).__name__, message=str(e)[:200])
                        continue
                    try:
                        ran = op.range
                        offs = op.offset
                        # cell sizes unchanged, hull shifted by `offset` cells to the left
                        if not np.allclose(ran.cell_sides, sp.cell_sides, rtol=1e-12):
                            ctx.violation(comp, cfg, 'range-cell-sides-changed')
                        if ran.shape != ran_shp:
                            ctx.violation(comp, cfg, 'range-shape')
                        if 'bdry' not in tag:
                            sgn = [1 if b >= a else -1 for a, b in zip(sp.shape, ran_shp)]
                            exp_min = sp.min_pt - np.array(sgn) * np.array(offs) * sp.cell_sides
                            exp_max = exp_min + np.array(ran_shp) * sp.cell_sides
                            if not (np.allclose(ran.min_pt, exp_min, atol=1e-12) and np.allclose(ran.max_pt, exp_max, atol=1e-12)):
                                ctx.violation(comp, cfg, 'range-does-not-cover-enlarged-domain', got=(ran.min_pt, ran.max_pt), ref=(exp_min, exp_max))
                        if offs_in is None:
                            for a, b, o in zip(sp.shape, ran_shp, offs):
                                d = abs(a - b)
                                if o not in (d // 2, (d + 1) // 2):
                                    ctx.violation(comp, cfg, 'default-offset-not-even')
                        x = util.rand_element(sp, rng)
                        y = op(x)
                        ref = resize_array(np.asarray(x), ran_shp, offs, mode, pc)
                        if not np.allclose(np.asarray(y), ref, rtol=1e-6):
                            ctx.violation(comp, cfg, 'value!=resize_array')
                        out = util.fill(ran.element(), 'nan')
                        op(x, out=out)
                        if not np.allclose(np.asarray(out), ref, rtol=1e-6):
                            ctx.violation(comp, cfg, 'inplace!=resize_array')
                        if delta > 0:
                            back = op.inverse(y)
                            if back not in sp or not np.allclose(np.asarray(back), np.asarray(x), rtol=1e-6):
                                ctx.violation(comp, cfg, 'inverse(op(x))!=x')
                        # adjoint identity (full Gram matrices, spaces' own inner products)
                        if np.dtype(sp.dtype) != np.float32:
                            A = op.adjoint
                            if A.domain != op.range or A.range != op.domain:
                                ctx.violation(comp, cfg, 'adjoint-domain-range')
                            rep = adjoint.gram_report(op, A)
                            if rep['relerr'] > 1e-10:
                                kind = adjoint.failure_kind(rep)
                                if kind == 'identity-fails/not-a-transpose':
                                    ctx.violation(comp, cfg, 'adjoint-' + kind, relerr=rep['relerr'])
                                else:
                                    # one mechanism (missing weighting correction), independent of the pad mode
                                    ctx.violation(comp, adjoint.weights_relation(op.domain, op.range), 'adjoint-' + kind,
                                                  relerr=rep['relerr'])
                    except Exception as e:
                        ctx.violation(comp, cfg, 'raises:' + type(e).__name__, message=str(e)[:200])
        # explicit range, constant padding with pad_const != 0 (affine)
        idx += 1
        if ctx.mine(idx):
            ctx.case('op;%s;explicit-range' % tag, 0)
            ctx.ev('resizing-operator')
            try:
                op0 = odl.ResizingOperator(sp, ran_shp=tuple(k + 2 for k in sp.shape))
                op1 = odl.ResizingOperator(sp, op0.range, pad_mode='constant', pad_const=1.5)
                x = util.rand_element(sp, rng)
                ref = resize_array(np.asarray(x), op0.range.shape, op0.offset, 'constant', 1.5)
                if op1.offset != op0.offset or not np.allclose(np.asarray(op1(x)), ref, rtol=1e-6):
                    ctx.violation('ResizingOperator', 'constant;explicit-range;affine', 'value!=resize_array')
                D = op1.derivative(x)
                if not np.allclose(np.asarray(D(x)), np.asarray(op0(x)), rtol=1e-6):
                    ctx.violation('ResizingOperator', 'constant;explicit-range;affine', 'derivative!=zero-padding')
            except Exception as e:
                ctx.violation('ResizingOperator', 'constant;explicit-range;affine', 'raises:' + type(e).__name__, message=str(e)[:200])


def run_range_geometry(ctx):
    """The range ResizingOperator builds for itself: same stride, and the grid of the smaller space is the window
    [offset, offset + n) of the grid of the larger one - for every nodes_on_bdry choice handed through discr_kwargs
    and for even, uneven and one-sided splits of the added / removed points."""
    rng = ctx.rng('range-geometry')
    idx = 10000
    doms = [('1d', lambda nob: odl.uniform_discr(0.5, 2.0, 5, nodes_on_bdry=nob)),
            ('2d', lambda nob: odl.uniform_discr([0, -1], [1, 3], (4, 3), nodes_on_bdry=nob))]
    for (tag, mk), dom_nob, kw_nob, delta, offkind in itertools.product(
            doms, (False, True), ('absent', True, False, 'mixed'), (+3, +2, -1, -2), ('default', 'left', 'right', 'uneven')):
        idx += 1
        if not ctx.mine(idx):
            continue
        sp = mk(dom_nob)
        nd = sp.ndim
        ran_shp = tuple(k + delta for k in sp.shape)
        d = abs(delta)
        offs_in = {'default': None, 'left': (0,) * nd, 'right': (d,) * nd, 'uneven': (d - 1,) * nd if d > 1 else (1,) * nd}[offkind]
        if kw_nob == 'mixed':
            nob = [(False, True)] if nd == 1 else [(True, False), (False, True)]
        else:
            nob = kw_nob
        kw = {} if kw_nob == 'absent' else {'discr_kwargs': {'nodes_on_bdry': nob}}
        if offs_in is not None:
            kw['offset'] = offs_in
        if min(ran_shp) == 1 and kw_nob not in ('absent', False):
            continue    # a single node on both boundaries: zero-extent axis, no cell size
        cfg = '%s;dom-bdry=%s;range-bdry=%s;offset=%s' % ('grow' if delta > 0 else 'shrink', dom_nob, kw_nob, offkind)
        ctx.case('range-geometry;' + tag, cfg + ';%d' % delta)
        ctx.ev('resizing-operator')
        try:
            op = odl.ResizingOperator(sp, ran_shp=ran_shp, **kw)
        except Exception as e:
            ctx.violation('ResizingOperator', cfg, 'ctor-raises:' + type(e).__name__, message=str(e)[:200])
            continue
        try:
            ran = op.range
            if ran.shape != ran_shp:
                ctx.violation('ResizingOperator', cfg, 'range-shape')
                continue
            big, small = (ran, sp) if delta > 0 else (sp, ran)
            for ax in range(nd):
                o = op.offset[ax]
                cb, cs = np.asarray(big.grid.coord_vectors[ax]), np.asarray(small.grid.coord_vectors[ax])
                h = sp.grid.stride[ax]
                if not np.allclose(np.diff(cb), h, rtol=1e-10) or not np.allclose(np.diff(cs), h, rtol=1e-10):
                    ctx.violation('ResizingOperator', cfg, 'range-grid-stride-changed', got=float(np.diff(ran.grid.coord_vectors[ax])[0]), ref=float(h))
                    break
                if not np.allclose(cb[o:o + len(cs)], cs, rtol=0, atol=1e-10 * max(1.0, abs(h))):
                    ctx.violation('ResizingOperator', cfg, 'grid-of-smaller-space-not-a-window-of-the-larger', axis=ax, offset=int(o))
                    break
                if not (ran.min_pt[ax] <= ran.grid.coord_vectors[ax][0] and ran.grid.coord_vectors[ax][-1] <= ran.max_pt[ax]):
                    ctx.violation('ResizingOperator', cfg, 'range-grid-outside-range-domain')
                    break
            if delta > 0:
                x = util.rand_element(sp, rng)
                back = odl.ResizingOperator(ran, ran_shp=sp.shape, offset=op.offset)(op(x))
                if not np.allclose(np.asarray(back), np.asarray(x), rtol=1e-12):
                    ctx.violation('ResizingOperator', cfg, 'crop-back!=x')
        except Exception as e:
            ctx.violation('ResizingOperator', cfg, 'raises:' + type(e).__name__, message=str(e)[:200])


def run_explicit_range(ctx):
    """ResizingOperator(domain, range): the offset is recovered from the two spaces - also in axes with a single cell (cell
    side = extent, grid stride 0) and for cell sides != 1.  Values and offset must be those of the operator that built
    the range from ran_shp + offset."""
    rng = ctx.rng('explicit-range')
    idx = 20000
    doms = [('1d-1cell', odl.uniform_discr(0.5, 2.5, 1)), ('2d-(4,1)', odl.uniform_discr([0, -1], [1, 3], (4, 1))), ('2d-(1,3)', odl.uniform_discr([0, 0], [0.3, 3], (1, 3))),
            ('1d-5cells', odl.uniform_discr(0.5, 2.0, 5)), ('2d-(3,2)', odl.uniform_discr([0, -1], [1.5, 3], (3, 2)))]
    for (tag, sp), grow, offkind in itertools.product(doms, (1, 2, 3), ('left', 'right', 'default', 'interior')):
        idx += 1
        if not ctx.mine(idx):
            continue
        nd = sp.ndim
        ran_shp = tuple(k + grow for k in sp.shape)
        offs_in = {'left': (0,) * nd, 'right': (grow,) * nd, 'default': None, 'interior': (max(grow - 1, 0),) * nd}[offkind]
        cfg = '%s;offset=%s' % ('one-cell-axis' if 1 in sp.shape else 'several-cells', offkind)
        ctx.case('explicit-range;' + tag, (grow, offkind))
        ctx.ev('resizing-operator')
        try:
            op0 = odl.ResizingOperator(sp, ran_shp=ran_shp, **({} if offs_in is None else {'offset': offs_in}))
            op1 = odl.ResizingOperator(sp, op0.range)
            if tuple(op1.offset) != tuple(op0.offset):
                ctx.violation('ResizingOperator', cfg, 'offset-not-recovered-from-range', got=tuple(int(o) for o in op1.offset), want=tuple(int(o) for o in op0.offset))
                continue
            x = util.rand_element(sp, rng)
            if not np.allclose(np.asarray(op1(x)), np.asarray(op0(x)), rtol=1e-13):
                ctx.violation('ResizingOperator', cfg, 'value!=resize_array')
            back = odl.ResizingOperator(op0.range, sp)
            if not np.allclose(np.asarray(back(op0(x))), np.asarray(x), rtol=1e-13):
                ctx.violation('ResizingOperator', cfg, 'crop-back!=x')
        except Exception as e:
            ctx.violation('ResizingOperator', cfg, 'raises:' + type(e).__name__, message=str(e)[:200])


def run_offset_refusal(ctx):
    """An offset that does not leave the smaller array inside the larger one describes no resizing: ValueError, for every pad
    mode, in both directions, with other axes resized correctly or unchanged - never an array."""
    idx = 60000
    for (shp, newshp), mode, direction in itertools.product(
            [((5,), (3,)), ((3,), (7,)), ((4, 6), (4, 3)), ((4, 3), (6, 8)), ((2, 5, 3), (2, 2, 3))],
            ('constant', 'periodic', 'symmetric', 'order0', 'order1'), ('forward', 'adjoint')):
        nd = len(shp)
        ax = max(range(nd), key=lambda a: abs(shp[a] - newshp[a]))
        room = abs(shp[ax] - newshp[ax])
        for bad in (room + 1, room + 2, room + min(shp[ax], newshp[ax]) - 1, -1, -room - 1):
            idx += 1
            if not ctx.mine(idx):
                continue
            offs = [0] * nd
            offs[ax] = bad
            ctx.ev('resize-reference')
            ctx.case('offset-refusal;%s;%s' % (mode, direction), (shp, newshp, bad))
            try:
                src = np.arange(1.0, 1 + int(np.prod(shp if direction == 'forward' else newshp))).reshape(shp if direction == 'forward' else newshp)
                res = resize_array(src, newshp if direction == 'forward' else shp, offs, mode, 0, direction=direction)
                ctx.violation('resize_array', '%s;%s;offset-out-of-range' % (mode, direction), 'bad-input-accepted', shp=shp, newshp=newshp, offs=offs,
                              got=np.asarray(res).ravel()[:6])
            except ValueError:
                pass
            except Exception as e:
                ctx.violation('resize_array', '%s;%s;offset-out-of-range' % (mode, direction), 'wrong-exception:' + type(e).__name__, shp=shp, newshp=newshp, offs=offs)


def run_tiny_pad_const(ctx):
    """Constant padding with a constant that is nonzero but tiny (5e-9, -1e-12): the operator is affine for every nonzero
    constant - not flagged linear, values those of numpy.pad with that constant, and an adjoint is either refused or satisfies
    the identity for the *linear part* only (never offered for the affine map as if it were linear)."""
    rng = ctx.rng('tiny-pad-const')
    idx = 80000
    for nd, const in itertools.product((1, 2), (5e-9, -1e-12, 1e-300, 0.0)):
        idx += 1
        if not ctx.mine(idx):
            continue
        shape = (4, 3)[:nd]
        sp = odl.uniform_discr([0.0] * nd, [1.0, 2.0][:nd], shape)
        rshape = tuple(k + 3 for k in shape)
        cfg = 'constant;pad_const=%s' % ('0' if const == 0 else 'tiny-nonzero')
        ctx.case('tiny-pad-const;%dd' % nd, const)
        ctx.ev('resizing-operator')
        try:
            op = odl.ResizingOperator(sp, ran_shp=rshape, pad_mode='constant', pad_const=const)
            if bool(op.is_linear) != (const == 0):
                ctx.violation('ResizingOperator', cfg, 'is_linear', got=bool(op.is_linear), pad_const=const)
            xa = rng.normal(size=shape)
            offs = tuple(int(o) for o in op.offset)
            padw = [(o, r - k - o) for o, r, k in zip(offs, rshape, shape)]
            ref = np.pad(xa, padw, mode='constant', constant_values=const)
            if not np.array_equal(np.asarray(op(sp.element(xa))), ref):
                ctx.violation('ResizingOperator', cfg, 'value!=numpy.pad')
            if const != 0:
                try:
                    A = op.adjoint
                except Exception:
                    A = None          # refusing is right for an affine operator
                if A is not None:
                    x, y = sp.element(xa), util.rand_element(op.range, rng)
                    lhs, rhs = op(x).inner(y), x.inner(A(y))
                    if abs(lhs - rhs) > 1e-13 * max(1.0, abs(lhs)):
                        ctx.violation('ResizingOperator', cfg, 'adjoint-offered-for-an-affine-operator-and-identity-fails', gap=float(abs(lhs - rhs)))
        except Exception as e:
            ctx.violation('ResizingOperator', cfg, 'raises:' + type(e).__name__, message=str(e)[:200])


def run_unsafe_pad_const(ctx):
    """A padding constant that cannot be represented in the output type (1.5 / 2.0 into integers, 1+2j into floats, 300 into
    int8): refused with ValueError exactly when some axis grows (there is a remainder to fill); when no axis grows there is
    no remainder, the constant is not used and the result is the overlapping block - as the implementation's own guard says."""
    rng = ctx.rng('unsafe-pad-const')
    idx = 95000
    for (dt, const), (shp, newshp) in itertools.product(
            [('int64', 1.5), ('int8', 2.0), ('int8', 300), ('float64', 1 + 2j), ('float32', 2j), ('int64', 1 + 0j)],
            [((2, 3), (3, 4)), ((2, 3), (2, 2)), ((2, 3), (1, 4)), ((5,), (3,)), ((5,), (5,)), ((4,), (7,))]):
        idx += 1
        if not ctx.mine(idx):
            continue
        grows = any(n > o for n, o in zip(newshp, shp))
        kind = type(const).__name__
        cfg = 'constant;unsafe-pad_const;%s-into-%s;%s' % (kind, np.dtype(dt).kind, 'some-axis-grows' if grows else 'no-axis-grows')
        ctx.case('unsafe-pad-const;' + cfg, (shp, newshp))
        ctx.ev('resize-reference')
        arr = rng.integers(-5, 6, size=shp).astype(dt)
        arr0 = arr.copy()
        try:
            res = resize_array(arr, newshp, pad_mode='constant', pad_const=const)
        except ValueError:
            if not grows:
                ctx.violation('resize_array', cfg, 'raises:ValueError', const=repr(const), shp=shp, newshp=newshp)
            continue
        except Exception as e:
            ctx.violation('resize_array', cfg, 'raises:' + type(e).__name__, message=str(e)[:200], const=repr(const), shp=shp, newshp=newshp)
            continue
        if grows:
            ctx.violation('resize_array', cfg, 'bad-input-accepted', const=repr(const), got=np.asarray(res).ravel()[:8].tolist())
            continue
        ref = arr0[tuple(slice(0, n) for n in newshp)]
        if res.dtype != arr0.dtype or not np.array_equal(res, ref):
            ctx.violation('resize_array', cfg, 'value!=overlapping-block', dtype=str(res.dtype))
        if not np.array_equal(arr, arr0):
            ctx.violation('resize_array', cfg, 'input-modified')


def run_adjoint_wider_out(ctx):
    """resize_array(..., direction='adjoint', out=<array of a wider type than the input>): documented as legal; the folding of
    the padded part is accumulated in the type of ``out`` - equal to the transpose applied in that type."""
    rng = ctx.rng('adjoint-wider-out')
    idx = 90000
    for (idt, odt), mode, (shp, newshp) in itertools.product([('float32', 'float64'), ('int8', 'int64'), ('float64', 'float64'), ('float32', 'complex128')],
                                                              ('periodic', 'symmetric', 'order0', 'order1', 'constant'), [((9,), (6,)), ((7, 8), (5, 6))]):
        idx += 1
        if not ctx.mine(idx):
            continue
        ctx.ev('exact-transpose')
        ctx.case('adjoint-wider-out;%s->%s;%s' % (idt, odt, mode), shp)
        cfg = '%s;adjoint;out-dtype-wider:%s->%s' % (mode, idt, odt) if idt != odt else '%s;adjoint;out-given' % mode
        try:
            if np.dtype(idt).kind == 'i':
                src = rng.integers(60, 120, size=shp).astype(idt)
            else:
                src = (rng.normal(size=shp) * 1000 + 0.1).astype(idt)
            out = np.full(newshp, 77, dtype=odt)
            r = resize_array(src, newshp, None, mode, 0, direction='adjoint', out=out)
            ref = resize_array(src.astype(odt), newshp, None, mode, 0, direction='adjoint')
            if r is not out:
                ctx.violation('resize_array', cfg, 'not-out')
            if not np.array_equal(out, ref):
                ctx.violation('resize_array', cfg, 'value!=transpose-applied-in-the-type-of-out', maxdiff=float(np.abs(out.astype(complex) - ref.astype(complex)).max()))
            if not np.array_equal(src, src.copy()):
                pass
        except Exception as e:
            ctx.violation('resize_array', cfg, 'raises:' + type(e).__name__, message=str(e)[:200])


def run_foreign_range(ctx):
    """"...with unchanged cell sizes": a range handed in explicitly whose cells differ from the domain's in *any* axis -
    resized or not - is no resizing of the domain.  It must be refused (ValueError), never silently accepted: the operator
    would map between different cell volumes and its adjoint identity would be off by their ratio."""
    idx = 30000
    doms = [('2d', [0.0, -1.0], [1.0, 3.0], (4, 3)), ('3d', [0.0, 0.0, 0.0], [1.0, 2.0, 3.0], (3, 2, 4)), ('1d', [0.5], [2.0], (5,))]
    for (tag, lo, hi, shape), factor, which in itertools.product(doms, (2.0, 1.01, 0.5), ('non-resized-axis', 'resized-axis', 'shifted-by-fraction-of-a-cell')):
        idx += 1
        if not ctx.mine(idx):
            continue
        nd = len(shape)
        if nd == 1 and which == 'non-resized-axis':
            continue
        sp = odl.uniform_discr(lo, hi, shape)
        h = sp.cell_sides
        # axis 0 is resized by 2 cells on each side; the last axis keeps its shape
        rshape = (shape[0] + 4,) + tuple(shape[1:])
        rlo = np.array(lo, dtype=float)
        rhi = np.array(hi, dtype=float)
        rlo[0] -= 2 * h[0]
        rhi[0] += 2 * h[0]
        if which == 'non-resized-axis':
            rhi[-1] = rlo[-1] + factor * (rhi[-1] - rlo[-1])
        elif which == 'resized-axis':
            rhi[0] = rlo[0] + factor * (rhi[0] - rlo[0])
        else:
            rlo[0] -= 0.37 * h[0] * factor
            rhi[0] -= 0.37 * h[0] * factor
        cfg = '%s;%s' % (tag, which)
        ctx.case('foreign-range;' + cfg, factor)
        ctx.ev('resizing-operator')
        try:
            ran = odl.uniform_discr(rlo, rhi, rshape)
            op = odl.ResizingOperator(sp, ran)
        except ValueError:
            continue
        except Exception as e:
            ctx.violation('ResizingOperator', 'explicit-range;' + cfg, 'raises:' + type(e).__name__, message=str(e)[:200])
            continue
        ctx.violation('ResizingOperator', 'explicit-range;' + cfg, 'bad-input-accepted', factor=factor,
                      domain_cells=[float(v) for v in sp.cell_sides], range_cells=[float(v) for v in op.range.cell_sides])


def run_dtype_change(ctx):
    """Range of another data type than the domain (explicit range, or discr_kwargs={'dtype': ...}): the overlapping block is the
    input converted to the range type and the remainder is filled by the named rule *in the range type* - a constant that only
    the range type represents (0.1 for float32 -> float64, 0.5 for int -> float, 1+2j for real -> complex) arrives unrounded."""
    rng = ctx.rng('dtype-change')
    idx = 40000
    combos = [('float32', 'float64', 0.1), ('float64', 'float32', 0.1), ('int64', 'float64', 0.5), ('float64', 'complex128', 1 + 2j),
              ('float32', 'complex128', 0.1 - 0.3j), ('float64', 'float64', 0.1)]
    for (ddt, rdt, const), nd, how, mode in itertools.product(combos, (1, 2), ('explicit-range', 'discr_kwargs'), ('constant', 'order0', 'periodic')):
        idx += 1
        if not ctx.mine(idx):
            continue
        shape = (4, 3)[:nd]
        rshape = tuple(k + 3 for k in shape)
        cfg = '%s->%s;%s;%s' % (ddt, rdt, how, mode)
        ctx.case('dtype-change;' + cfg, nd)
        ctx.ev('resizing-operator')
        try:
            dom = odl.uniform_discr([0.0] * nd, [1.0, 2.0][:nd], shape, dtype=ddt)
            kw = {'pad_mode': mode}
            if mode == 'constant':
                kw['pad_const'] = const
            if how == 'explicit-range':
                op0 = odl.ResizingOperator(dom, ran_shp=rshape)
                ran = odl.uniform_discr(op0.range.min_pt, op0.range.max_pt, rshape, dtype=rdt)
                op = odl.ResizingOperator(dom, ran, **kw)
            else:
                dk = {'dtype': rdt, 'nodes_on_bdry': False}
                dk_before = dict(dk)
                op = odl.ResizingOperator(dom, ran_shp=rshape, discr_kwargs=dk, **kw)
                # the caller's dictionary is the caller's: unchanged, and a second operator built with it is the same operator
                if dk != dk_before:
                    ctx.violation('ResizingOperator', 'dtype-change;' + cfg, 'caller-argument-modified', before=str(dk_before), after=str(dk))
                elif odl.ResizingOperator(dom, ran_shp=rshape, discr_kwargs=dk, **kw).range != op.range:
                    ctx.violation('ResizingOperator', 'dtype-change;' + cfg, 'second-construction-with-the-same-arguments-differs')
            if np.dtype(op.range.dtype) != np.dtype(rdt):
                ctx.violation('ResizingOperator', 'dtype-change;' + cfg, 'range-dtype')
                continue
            xa = rng.integers(-5, 6, size=shape).astype(ddt) if np.dtype(ddt).kind == 'i' else rng.normal(size=shape).astype(ddt)
            x = dom.element(xa)
            y = np.asarray(op(x))
            offs = tuple(int(o) for o in op.offset)
            padw = [(o, r - k - o) for o, r, k in zip(offs, rshape, shape)]
            npmode = {'constant': 'constant', 'order0': 'edge', 'periodic': 'wrap'}[mode]
            ref = np.pad(xa.astype(rdt), padw, mode=npmode, **({'constant_values': np.dtype(rdt).type(const)} if mode == 'constant' else {}))
            if y.dtype != np.dtype(rdt) or not np.array_equal(y, ref):
                ctx.violation('ResizingOperator', 'dtype-change;' + cfg, 'value!=numpy.pad-in-the-range-dtype',
                              maxdiff=float(np.abs(y.astype(complex) - ref.astype(complex)).max()))
        except Exception as e:
            ctx.violation('ResizingOperator', 'dtype-change;' + cfg, 'raises:' + type(e).__name__, message=str(e)[:200])


def run(ctx):
    ctx.note('rule', 'one case = (old shape, new shape, offsets, pad mode, dtype/layout); the lattice per-axis '
                     '{grow, shrink, same} x offsets {0, max, interior} x 5 modes x ndim 1..3 is enumerated, plus seeded '
                     'random shapes; inadmissible paddings (Appendix B) are skipped and counted; ResizingOperator range geometry for every '
                     'nodes_on_bdry choice x split kind x grow/shrink; distinct = distinct tuples')
    from odl.util import numerics
    cov = cover.Cover()
    for f in ('resize_array', '_apply_padding', '_padding_slices_outer', '_padding_slices_inner', '_intersection_slice_tuples', '_assign_intersection'):
        cov.add(getattr(numerics, f, None), f)
    cov.arm()
    run_resize_array(ctx)
    run_operator(ctx)
    run_range_geometry(ctx)
    run_explicit_range(ctx)
    run_offset_refusal(ctx)
    run_tiny_pad_const(ctx)
    run_unsafe_pad_const(ctx)
    run_adjoint_wider_out(ctx)
    run_foreign_range(ctx)
    run_dtype_change(ctx)
    cov.disarm()
    n_exec, n_hit, unreached = cov.report()
    ctx.note('line_coverage', {'executable': n_exec, 'hit': n_hit})
    for u in unreached:
        ctx.note_set('unreached_lines', u)
