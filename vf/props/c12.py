"""C12 -- solvers decrease what they promise to decrease and converge to optimality.

Deciding monitors (offline checkers over callback traces; reference quantities in NumPy, spaces' own geometry)
  monotone          : CG energy-norm error, CGN / Landweber (explicit and default omega) residual, Kaczmarz distance
                      to the solution of a consistent system, steepest descent / Newton + backtracking objective --
                      never increase (relative slack 1e-9).
  bounded-progress  : convergence restated as bounded progress on problems with kappa <= 5:
                      CG / CGN within 1e-6 after 3*dim steps, Landweber and Kaczmarz within 1e-6 after 1000 steps;
                      planted non-smooth problems (lasso, box-constrained least squares; plain and constant-weighted
                      spaces): ||x_N - x*|| <= 1e-6 ||x_0 - x*|| for N = 500 for PDHG (explicit / default / partly
                      given steps), Douglas-Rachford (1-3 operators), forward-backward, proximal gradient and its
                      accelerated form, linearized ADMM.
  kkt               : first-order optimality through sub-gradient inclusion at x_N (not a stored answer).
  fixed-point       : started at the planted (x*, y*) each solver stays within 1e-8.
  stepsize-contract : pdhg_stepsize / douglas_rachford_pd_stepsize for every subset of given parameters return
                      admissible steps (tau sigma ||L||^2 < 1, tau sum sigma_i ||L_i||^2 < 4) and keep given ones.
  opnorm            : power_method_opnorm never exceeds the true norm (SVD in the weighted geometry).
"""

import itertools

import numpy as np
import odl

from .. import cover, sanitize, trace, util
from .c09 import WMat

SHARDS = {'quick': 8, 'thorough': 16}
THOROUGH_ROUNDS = 3
S = odl.solvers


def mat(rng, m, n, cond):
    U, _ = np.linalg.qr(rng.normal(size=(m, m)))
    V, _ = np.linalg.qr(rng.normal(size=(n, n)))
    k = min(m, n)
    s = np.geomspace(1, 1 / cond, k)
    return (U[:, :k] * s) @ V[:, :k].T


def wconst(sp):
    return float(getattr(sp.weighting, 'const', 1.0))


def opnorm(Am, X, Y):
    return float(np.linalg.norm(Am * np.sqrt(wconst(Y)) / np.sqrt(wconst(X)), 2))


def condclass(c):
    return 'kappa<=5' if c <= 5 else 'kappa>5'


# ---------------------------------------------------------------------------------------------------------------
# linear solvers


def run_linear(ctx, idx0):
    idx = idx0
    for weighted in (False, True):
        for cc in ('well', 'ill'):
            for rep in range(ctx.reps(6, 40)):
                idx += 1
                if not ctx.mine(idx):
                    continue
                rng = ctx.rng('linear', weighted, cc, rep)
                n = int(rng.integers(2, 7))
                m = n + int(rng.integers(0, 4))
                cond = float(rng.uniform(1, 5)) if cc == 'well' else float(10 ** rng.uniform(1, 3))
                X = odl.rn(n, weighting=float(rng.uniform(0.3, 3))) if weighted else odl.rn(n)
                Y = odl.rn(m)
                Am = mat(rng, m, n, cond)
                A = WMat(Am, X, Y)
                xs = rng.normal(size=n)
                cfg = '%s;%s' % ('weighted' if weighted else 'plain', condclass(cond))
                ctx.case('linear;' + cfg, rep)
                wX = wconst(X)
                try:
                    # --- conjugate gradient on an SPD operator (self-adjoint in the space's geometry)
                    Q = Am.T @ Am + 1e-3 * np.eye(n)
                    Xe = odl.rn(n)
                    Qop = odl.MatrixOperator(Q, domain=Xe, range=Xe)
                    rhs = Q @ xs
                    r = trace.Recorder()
                    x = Xe.zero()
                    S.conjugate_gradient(Qop, x, Xe.element(rhs), 3 * n, callback=r)
                    en = [float(xs @ Q @ xs)] + [float((it - xs) @ Q @ (it - xs)) for it in r.iterates]
                    ctx.ev('monotone')
                    k = next((i for i in range(1, len(en)) if en[i] > en[i - 1] * (1 + 1e-8) + 1e-14 * en[0]), None)
                    if k is not None:
                        ctx.violation('conjugate_gradient', cfg, 'monotone:energy-error-increased', at=k)
                    if cc == 'well':
                        ctx.ev('bounded-progress')
                        if not en[-1] <= 1e-12 * en[0]:
                            ctx.violation('conjugate_gradient', cfg, 'progress', rel=float(np.sqrt(en[-1] / en[0])))
                    # --- CGN and Landweber residuals
                    b = Y.element(Am @ xs + 0.1 * rng.normal(size=m))
                    ba = np.asarray(b)
                    xls = np.linalg.lstsq(Am, ba, rcond=None)[0]
                    r = trace.Recorder()
                    x = X.zero()
                    S.conjugate_gradient_normal(A, x, b, 3 * n, callback=r)
                    rs = [np.linalg.norm(Am @ it - ba) for it in [np.zeros(n)] + r.iterates]
                    ctx.ev('monotone')
                    if trace.nonincreasing(rs) is not None:
                        ctx.violation('conjugate_gradient_normal', cfg, 'monotone:residual-increased', at=trace.nonincreasing(rs))
                    if cc == 'well':
                        ctx.ev('bounded-progress')
                        e = np.linalg.norm(np.asarray(x) - xls) / max(1e-12, np.linalg.norm(xls))
                        if not e <= 1e-6:
                            ctx.violation('conjugate_gradient_normal', cfg, 'progress', rel=float(e))
                    nrm = opnorm(Am, X, Y)
                    om = float(rng.uniform(0.1, 1.9)) / nrm ** 2
                    r = trace.Recorder()
                    x = X.zero()
                    S.landweber(A, x, b, 50, omega=om, callback=r)
                    rs = [np.linalg.norm(Am @ it - ba) for it in [np.zeros(n)] + r.iterates]
                    ctx.ev('monotone')
                    if trace.nonincreasing(rs) is not None:
                        ctx.violation('landweber', cfg + ';omega=given', 'monotone:residual-increased', at=trace.nonincreasing(rs))
                    np.random.seed(idx)
                    r = trace.Recorder()
                    x = X.zero()
                    S.landweber(A, x, b, 30, callback=r)
                    rs = [np.linalg.norm(Am @ it - ba) for it in [np.zeros(n)] + r.iterates]
                    ctx.ev('monotone')
                    if trace.nonincreasing(rs) is not None:
                        ctx.violation('landweber', cfg + ';omega=default', 'monotone:residual-increased', at=trace.nonincreasing(rs))
                    if cc == 'well':
                        ctx.ev('bounded-progress')
                        x = X.zero()
                        S.landweber(A, x, b, 1000, omega=1.0 / nrm ** 2)
                        e = np.linalg.norm(np.asarray(x) - xls) / max(1e-12, np.linalg.norm(xls))
                        if not e <= 1e-6:
                            ctx.violation('landweber', cfg, 'progress', rel=float(e))
                    # --- power method
                    for mi in (2, 4, 10, 100):
                        np.random.seed(idx + mi)
                        ctx.ev('opnorm')
                        est = odl.power_method_opnorm(A, maxiter=mi)
                        if est > nrm * (1 + 1e-9):
                            ctx.violation('power_method_opnorm', cfg, 'opnorm-exceeds-true-norm', est=float(est), true=nrm, maxiter=mi)
                    # user-supplied start vectors: along the dominant / a weak singular direction, of lengths near the norm, its
                    # square, 1 (a start of "lucky" length must not stop the iteration on a value that is no lower bound)
                    U_, sv_, Vt_ = np.linalg.svd(Am * np.sqrt(wconst(Y)) / np.sqrt(wX), full_matrices=False)
                    for direction, vec in (('dominant', Vt_[0] / np.sqrt(wX)), ('weakest', Vt_[-1] / np.sqrt(wX)), ('generic', rng.normal(size=n))):
                        unit = vec / np.sqrt(np.sum(wX * vec ** 2))
                        for L in (nrm * (1 + 5e-6), nrm ** 2 * (1 + 5e-6), nrm * 1.02, nrm ** 2 * 1.03, 1.0, 3.7 * nrm, nrm):
                            for kw in ({}, {'rtol': 0.05}):
                                ctx.ev('opnorm')
                                try:
                                    est = odl.power_method_opnorm(A, xstart=X.element(unit * L), maxiter=20, **kw)
                                except ValueError:
                                    continue      # e.g. a start vector in the null space: refused
                                if est > nrm * (1 + 1e-9):
                                    ctx.violation('power_method_opnorm', cfg + ';xstart=' + direction, 'opnorm-exceeds-true-norm', est=float(est), true=nrm, length=float(L), **kw)
                    # Landweber with the default relaxation from a structured start (a weak singular direction): the default
                    # must still be an admissible step
                    for direction, vec in (('weakest', Vt_[-1] / np.sqrt(wX)), ('second', Vt_[min(1, len(sv_) - 1)] / np.sqrt(wX))):
                        np.random.seed(idx + 7)
                        r = trace.Recorder()
                        x = X.element(vec * 2.0)
                        r0 = np.linalg.norm(Am @ np.asarray(x) - ba)
                        S.landweber(A, x, b, 30, callback=r)
                        rs = [r0] + [np.linalg.norm(Am @ it - ba) for it in r.iterates]
                        ctx.ev('monotone')
                        if trace.nonincreasing(rs) is not None:
                            ctx.violation('landweber', cfg + ';omega=default;start=' + direction, 'monotone:residual-increased', at=trace.nonincreasing(rs))
                    # an operator that is its own adjoint *object* takes the plain power iteration (odd iteration counts allowed):
                    # symmetric matrices on the (constant-weighted) domain - definite, indefinite with eigenvalues +-lambda, rank one
                    for skind in ('psd', 'indefinite', 'plus-minus', 'rank-one'):
                        Bm = rng.normal(size=(n, n))
                        if skind == 'psd':
                            Sm = Bm @ Bm.T
                        elif skind == 'indefinite':
                            Sm = Bm + Bm.T
                        elif skind == 'plus-minus':
                            Q_, _r = np.linalg.qr(Bm)
                            Sm = Q_ @ np.diag([2.0, -2.0] + [0.3] * (n - 2))[:n, :n] @ Q_.T if n >= 2 else Bm + Bm.T
                        else:
                            Sm = np.outer(Bm[0], Bm[0])
                        Sop = SelfAdjointMat(Sm, X)
                        true = float(np.abs(np.linalg.eigvalsh((Sm + Sm.T) / 2)).max())
                        for mi in (1, 3, 10, 101):
                            np.random.seed(idx + mi)
                            ctx.ev('opnorm')
                            try:
                                est = odl.power_method_opnorm(Sop, maxiter=mi)
                            except ValueError:
                                continue
                            if est > true * (1 + 1e-9):
                                ctx.violation('power_method_opnorm', cfg + ';self-adjoint-object;' + skind, 'opnorm-exceeds-true-norm', est=float(est), true=true, maxiter=mi)
                    # documented: maxiter=None iterates until the stopping rule fires
                    np.random.seed(idx + 11)
                    ctx.ev('opnorm')
                    try:
                        est = odl.power_method_opnorm(A, maxiter=None)
                        if est > nrm * (1 + 1e-9):
                            ctx.violation('power_method_opnorm', cfg + ';maxiter=None', 'opnorm-exceeds-true-norm', est=float(est), true=nrm)
                    except Exception as e:
                        ctx.violation('power_method_opnorm', cfg + ';maxiter=None', 'raises:' + type(e).__name__, message=str(e)[:200])
                    np.random.seed(idx)
                    est = odl.power_method_opnorm(A, maxiter=2000, rtol=1e-12)
                    if not (nrm * (1 - 1e-3) <= est <= nrm * (1 + 1e-9)) and cc == 'well':
                        ctx.violation('power_method_opnorm', cfg, 'opnorm-does-not-approach-true-norm', est=float(est), true=nrm)
                    # --- Kaczmarz on a consistent system
                    bc = Am @ xs
                    rows = [ix for ix in np.array_split(np.arange(m), 2) if len(ix)]
                    ops = [WMat(Am[ix], X, odl.rn(len(ix))) for ix in rows]
                    rh = [odl.rn(len(ix)).element(bc[ix]) for ix in rows]
                    oms = [float(rng.uniform(0.2, 1.9)) / np.linalg.norm(Am[ix] / np.sqrt(wX), 2) ** 2 for ix in rows]
                    for loop in ('inner', 'outer'):
                        r = trace.Recorder()
                        x = X.element(rng.normal(size=n))
                        x00 = np.asarray(x).copy()
                        S.kaczmarz(ops, x, rh, 20, omega=oms, callback=r, callback_loop=loop)
                        ds = [np.linalg.norm(it - xs) for it in [x00] + r.iterates]
                        ctx.ev('monotone')
                        if trace.nonincreasing(ds) is not None:
                            ctx.violation('kaczmarz', cfg + ';loop=' + loop, 'monotone:distance-increased', at=trace.nonincreasing(ds))
                        want = 20 * len(ops) if loop == 'inner' else 20
                        if len(r) != want:
                            ctx.violation('kaczmarz', cfg + ';loop=' + loop, 'callback-count', got=len(r), want=want)
                    # random order, three blocks of very different scale, per-operator relaxation (each omega_i is admissible for
                    # its own block only: used with another block it overshoots)
                    rows3 = [ix for ix in np.array_split(np.arange(m), 3) if len(ix)]
                    scl = [1.0, 30.0, 0.05][:len(rows3)]
                    ops3 = [WMat(sc_ * Am[ix], X, odl.rn(len(ix))) for sc_, ix in zip(scl, rows3)]
                    rh3 = [odl.rn(len(ix)).element(sc_ * bc[ix]) for sc_, ix in zip(scl, rows3)]
                    oms3 = [1.9 / np.linalg.norm(sc_ * Am[ix] / np.sqrt(wX), 2) ** 2 for sc_, ix in zip(scl, rows3)]
                    for trial in range(3):
                        np.random.seed(1000 * idx + trial)
                        r = trace.Recorder()
                        x = X.element(rng.normal(size=n))
                        x00 = np.asarray(x).copy()
                        S.kaczmarz(ops3, x, rh3, 6, omega=oms3, random=True, callback=r, callback_loop='inner')
                        ds = [np.linalg.norm(it - xs) for it in [x00] + r.iterates]
                        ctx.ev('monotone')
                        if trace.nonincreasing(ds) is not None:
                            ctx.violation('kaczmarz', cfg + ';random-order', 'monotone:distance-increased', at=trace.nonincreasing(ds))
                            break
                    if cc == 'well':
                        ctx.ev('bounded-progress')
                        x = X.element(rng.normal(size=n))
                        e0 = np.linalg.norm(np.asarray(x) - xs)
                        S.kaczmarz(ops, x, rh, 1000, omega=[1.0 / np.linalg.norm(Am[ix] / np.sqrt(wX), 2) ** 2 for ix in rows])
                        e = np.linalg.norm(np.asarray(x) - xs) / max(e0, 1e-12)
                        if not e <= 1e-6:
                            ctx.violation('kaczmarz', cfg, 'progress', rel=float(e))
                    # --- steepest descent / Newton with backtracking
                    f = S.L2NormSquared(Y).translated(b) * A + 0.1 * S.L2NormSquared(X)
                    ls_kinds = (('default', lambda: S.BacktrackingLineSearch(f)),
                                ('estimate_step', lambda: S.BacktrackingLineSearch(f, estimate_step=True)),
                                ('tau=0.3;discount=0.1;alpha=2', lambda: S.BacktrackingLineSearch(f, tau=0.3, discount=0.1, alpha=2.0)),
                                ('estimate_step;alpha=4', lambda: S.BacktrackingLineSearch(f, estimate_step=True, alpha=4.0, tau=0.7)))
                    for (sname, solver), (lk, mkls) in itertools.product((('steepest_descent', S.steepest_descent), ('newtons_method', S.newtons_method)), ls_kinds):
                        # one line-search object serves several runs from unrelated starting points (multi-start / sweeps):
                        # whatever it remembers from the previous run must not decide the next one
                        ls = mkls()
                        lcfg = cfg if lk == 'default' else cfg + ';line-search=' + lk
                        for run_no in range(3 if lk != 'default' else 1):
                            r = trace.Recorder()
                            x = X.element(rng.normal(size=n) * (1.0, 4.0, 0.3)[run_no])
                            v0 = f(x)
                            try:
                                solver(f, x, line_search=ls, maxiter=30, tol=1e-9, callback=r)
                            except (NotImplementedError, odl.OpNotImplementedError):
                                break
                            vals = [v0] + [f(X.element(it)) for it in r.iterates]
                            ctx.ev('monotone')
                            k = next((i for i in range(1, len(vals)) if vals[i] > vals[i - 1] + 1e-12 * abs(vals[i - 1])), None)
                            if k is not None:
                                ctx.violation(sname, lcfg + (';reused-object' if run_no else ''), 'monotone:objective-increased', at=k, run=run_no)
                                break
                except Exception as e:
                    ctx.violation('linear-solvers', cfg, 'raises:' + type(e).__name__, message=str(e)[:300])
    return idx


# ---------------------------------------------------------------------------------------------------------------
# planted non-smooth problems


class Planted(object):
    """min f(x) + g(Ax) with known optimum x* (and dual y*), constant-weighted X, kappa(A) <= 5."""

    def __init__(self, rng, kind, weighted):
        n = int(rng.integers(2, 7))
        m = n + int(rng.integers(0, 4))
        self.cond = float(rng.uniform(1, 5))
        self.X = odl.rn(n, weighting=float(rng.uniform(0.4, 2.5))) if weighted else odl.rn(n)
        self.Y = odl.rn(m)
        c = wconst(self.X)
        Am = mat(rng, m, n, self.cond)
        self.Am = Am
        self.A = WMat(Am, self.X, self.Y)
        self.L = opnorm(Am, self.X, self.Y)
        self.kind = kind
        if kind == 'lasso':
            lam = float(rng.uniform(0.1, 1.0))
            xstar = rng.normal(size=n)
            xstar[rng.random(n) < 0.4] = 0
            s = np.sign(xstar)
            z = (xstar == 0)
            s[z] = rng.uniform(-0.9, 0.9, size=int(z.sum()))
            # optimality in the X inner product: A*(2(Ax - b)) + lam s = 0 with A* = A^T / c
            rr = -Am @ np.linalg.solve(Am.T @ Am, c * lam * s / 2)
            self.b = self.Y.element(Am @ xstar - rr)
            self.f = lam * S.L1Norm(self.X)
            self.lam = lam
        elif kind == 'elastic-net':
            # f = lam ||x||_1 + q ||x||^2 (2q-strongly convex in the X geometry): admits pdhg's primal acceleration
            lam = float(rng.uniform(0.1, 1.0))
            q = float(rng.uniform(0.2, 1.0))
            xstar = rng.normal(size=n)
            xstar[rng.random(n) < 0.4] = 0
            s = np.sign(xstar)
            z = (xstar == 0)
            s[z] = rng.uniform(-0.9, 0.9, size=int(z.sum()))
            # optimality in the X inner product: A*(2(Ax - b)) + lam s + 2 q x = 0 with A* = A^T / c
            rr = -Am @ np.linalg.solve(Am.T @ Am, c * (lam * s + 2 * q * xstar) / 2)
            self.b = self.Y.element(Am @ xstar - rr)
            self.f = S.FunctionalQuadraticPerturb(lam * S.L1Norm(self.X), quadratic_coeff=q)
            self.lam, self.q = lam, q
        else:  # box-constrained least squares
            lo, hi = -0.5, 0.7
            xstar = rng.uniform(lo, hi, size=n)
            s = np.zeros(n)
            for i in range(n):
                u = rng.random()
                if u < 0.3:
                    xstar[i] = lo
                    s[i] = -rng.uniform(0.1, 1.0)
                elif u < 0.6:
                    xstar[i] = hi
                    s[i] = rng.uniform(0.1, 1.0)
            rr = -Am @ np.linalg.solve(Am.T @ Am, c * s / 2)
            self.b = self.Y.element(Am @ xstar - rr)
            self.f = S.IndicatorBox(self.X, lo, hi)
            self.lo, self.hi = lo, hi
        self.g = S.L2NormSquared(self.Y).translated(self.b)
        self.xstar = xstar
        self.ystar = self.Y.element(2 * (Am @ xstar - np.asarray(self.b)))     # grad g(A x*)
        self.c = c

    def kkt_residual(self, x):
        """Distance of -A* grad g(Ax) to the subdifferential of f at x (X geometry), relative."""
        xa = np.asarray(x)
        q = -(self.Am.T @ (2 * (self.Am @ xa - np.asarray(self.b)))) / self.c
        tol0 = 1e-7 * max(1.0, np.abs(xa).max())
        if self.kind in ('lasso', 'elastic-net'):
            lam = self.lam
            if self.kind == 'elastic-net':
                q = q - 2 * self.q * xa
            d = np.where(np.abs(xa) > tol0, np.abs(q - lam * np.sign(xa)), np.maximum(np.abs(q) - lam, 0))
        else:
            d = np.where(np.abs(xa - self.lo) <= tol0, np.maximum(q, 0),
                         np.where(np.abs(xa - self.hi) <= tol0, np.maximum(-q, 0), np.abs(q)))
            if np.any(xa < self.lo - 1e-9) or np.any(xa > self.hi + 1e-9):
                return float('inf')
        return float(np.abs(d).max() / max(1.0, np.abs(q).max()))


def solvers_for(Pb, nops):
    """(name, run(x, niter, y0) ) for the planted problem; nops = number of operator blocks for DR / FB."""
    X, Y, A, f, g, L = Pb.X, Pb.Y, Pb.A, Pb.f, Pb.g, Pb.L
    out = []
    out.append(('pdhg;steps=explicit', lambda x, k, y0=None: S.pdhg(x, f, g, A, k, tau=0.9 / L, sigma=0.9 / L, **({'y': y0} if y0 is not None else {}))))
    out.append(('pdhg;steps=default', lambda x, k, y0=None: S.pdhg(x, f, g, A, k, **({'y': y0} if y0 is not None else {}))))
    out.append(('pdhg;steps=tau-given', lambda x, k, y0=None: S.pdhg(x, f, g, A, k, tau=0.5 / L, **({'y': y0} if y0 is not None else {}))))
    out.append(('pdhg;steps=sigma-given', lambda x, k, y0=None: S.pdhg(x, f, g, A, k, sigma=0.5 / L, **({'y': y0} if y0 is not None else {}))))
    # documented options that change the iteration but not its limit
    out.append(('pdhg;gamma_dual', lambda x, k, y0=None: S.pdhg(x, f, g, A, k, tau=0.9 / L, sigma=0.9 / L, gamma_dual=0.25, **({'y': y0} if y0 is not None else {}))))
    out.append(('pdhg;gamma_dual=0', lambda x, k, y0=None: S.pdhg(x, f, g, A, k, tau=0.9 / L, sigma=0.9 / L, gamma_dual=0.0, **({'y': y0} if y0 is not None else {}))))
    out.append(('pdhg;gamma_primal=0', lambda x, k, y0=None: S.pdhg(x, f, g, A, k, tau=0.9 / L, sigma=0.9 / L, gamma_primal=0.0, **({'y': y0} if y0 is not None else {}))))
    out.append(('pdhg;x_relax-given', lambda x, k, y0=None: S.pdhg(x, f, g, A, k, tau=0.9 / L, sigma=0.9 / L, x_relax=x.copy(), **({'y': y0} if y0 is not None else {}))))
    if Pb.kind == 'elastic-net':
        out.append(('pdhg;gamma_primal', lambda x, k, y0=None: S.pdhg(x, f, g, A, k, tau=0.9 / L, sigma=0.9 / L, gamma_primal=1.8 * Pb.q, **({'y': y0} if y0 is not None else {}))))
    out.append(('admm_linearized', lambda x, k, y0=None: S.admm_linearized(x, f, g, A, tau=0.9 / L ** 2, sigma=1.0, niter=k)))
    out.append(('proximal_gradient', lambda x, k, y0=None: S.proximal_gradient(x, f, g * A, gamma=0.45 / L ** 2, niter=k)))
    out.append(('proximal_gradient;lam=0.5', lambda x, k, y0=None: S.proximal_gradient(x, f, g * A, gamma=0.45 / L ** 2, niter=k, lam=0.5)))
    out.append(('proximal_gradient;lam=callable', lambda x, k, y0=None: S.proximal_gradient(x, f, g * A, gamma=0.45 / L ** 2, niter=k,
                                                                                            lam=lambda k_: 0.5 + 0.4 / (k_ + 1.0))))
    out.append(('accelerated_proximal_gradient', lambda x, k, y0=None: S.accelerated_proximal_gradient(x, f, g * A, gamma=0.45 / L ** 2, niter=k)))
    # Douglas-Rachford / forward-backward with the data term split into nops row blocks
    m = Y.size
    rows = [ix for ix in np.array_split(np.arange(m), nops) if len(ix)]
    Ls = [WMat(Pb.Am[ix], X, odl.rn(len(ix))) for ix in rows]
    gl = [S.L2NormSquared(odl.rn(len(ix))).translated(np.asarray(Pb.b)[ix]) for ix in rows]
    nr = [max(1e-12, opnorm(Pb.Am[ix], X, odl.rn(len(ix)))) for ix in rows]
    tau = 1.0 / L
    sig = [1.9 / (L * len(rows)) * (L / n_) ** 2 / (L / n_) for n_ in nr]   # tau * sum sigma_i ||L_i||^2 < 4
    sig = [min(s_, 3.8 / (tau * len(rows) * n_ ** 2)) for s_, n_ in zip(sig, nr)]
    out.append(('douglas_rachford_pd;ops=%d;steps=explicit' % len(rows), lambda x, k, y0=None: S.douglas_rachford_pd(x, f, gl, Ls, k, tau=tau, sigma=sig)))
    out.append(('douglas_rachford_pd;ops=%d;steps=default' % len(rows), lambda x, k, y0=None: S.douglas_rachford_pd(x, f, gl, Ls, k)))
    out.append(('douglas_rachford_pd;ops=%d;steps=tau-given' % len(rows), lambda x, k, y0=None: S.douglas_rachford_pd(x, f, gl, Ls, k, tau=tau)))
    out.append(('douglas_rachford_pd;ops=%d;steps=sigma-given' % len(rows), lambda x, k, y0=None: S.douglas_rachford_pd(x, f, gl, Ls, k, sigma=sig)))
    for lname, lam_ in (('lam=0.5', 0.5), ('lam=1.5', 1.5), ('lam=callable', lambda k_: 1.0 + 0.5 / (k_ + 1.0))):
        out.append(('douglas_rachford_pd;ops=%d;%s' % (len(rows), lname),
                    lambda x, k, y0=None, lam_=lam_: S.douglas_rachford_pd(x, f, gl, Ls, k, tau=tau, sigma=sig, lam=lam_)))
    lz = [S.IndicatorZero(op_.range) for op_ in Ls]      # g box l = g for l = indicator of {0}
    out.append(('douglas_rachford_pd;ops=%d;l=IndicatorZero' % len(rows), lambda x, k, y0=None: S.douglas_rachford_pd(x, f, gl, Ls, k, tau=tau, sigma=sig, l=lz)))
    sfb = [0.9 / (tau_ * len(rows) * n_ ** 2) for tau_, n_ in zip([0.5 / L] * len(rows), nr)]
    out.append(('forward_backward_pd;ops=%d' % len(rows), lambda x, k, y0=None: S.forward_backward_pd(x, f, gl, Ls, S.ZeroFunctional(X), tau=0.5 / L, sigma=sfb, niter=k)))
    out.append(('forward_backward_pd;ops=%d;l=IndicatorZero' % len(rows),
                lambda x, k, y0=None: S.forward_backward_pd(x, f, gl, Ls, S.ZeroFunctional(X), tau=0.5 / L, sigma=sfb, niter=k, l=lz)))
    if len(rows) >= 2:
        # first data block as the smooth term h (gradient 2 ||L_0||^2-Lipschitz), step rule of the documentation:
        # 2 min(1/tau, 1/sigma_i) eta sqrt(1 - tau sum sigma_i ||L_i||^2) > 1
        h = gl[0] * Ls[0]
        st = 0.25 / max(1.0, L ** 2)
        out.append(('forward_backward_pd;ops=%d;h=block0' % len(rows),
                    lambda x, k, y0=None: S.forward_backward_pd(x, f, gl[1:], Ls[1:], h, tau=st, sigma=[st] * (len(rows) - 1), niter=k)))
    return out


def run_planted(ctx, idx0):
    idx = idx0
    N = 500
    for kind in ('lasso', 'box-ls', 'elastic-net'):
        for weighted in (False, True):
            for nops in (1, 2, 3):
                for rep in range(ctx.reps(2, 8)):
                    idx += 1
                    if not ctx.mine(idx):
                        continue
                    rng = ctx.rng('planted', kind, weighted, nops, rep)
                    Pb = Planted(rng, kind, weighted)
                    cfgp = '%s;%s' % (kind, 'weighted' if weighted else 'plain')
                    ctx.case('planted;%s;ops=%d' % (cfgp, nops), rep)
                    if idx % 7 == 0:
                        ctx.sample({'planted': kind, 'space': util.srepr(Pb.X, 40), 'kappa': Pb.cond, 'x_star': Pb.xstar})
                    for vi, (name, run) in enumerate(solvers_for(Pb, nops)):
                        if nops > 1 and not name.startswith(('douglas', 'forward')):
                            continue
                        if (vi + idx) % (2 if ctx.thorough else 3):
                            continue   # every variant on every third (quick) / second (thorough) problem instance
                        comp, _, var = name.partition(';')
                        # accelerated PDHG converges like O(1/N^2), not linearly: bounded progress is restated accordingly
                        accel = ('gamma_primal' in name or 'gamma_dual' in name) and '=0' not in name
                        tol_e, tol_k = (5e-2, 2e-1) if accel else (1e-6, 1e-5)
                        if 'h=block0' in name:
                            tol_e, tol_k = 5e-2, 2e-1     # the documented step rule with a smooth term forces small steps (slow, not wrong)
                        if name.startswith('proximal_gradient;lam'):
                            tol_e, tol_k = 1e-2, 5e-2     # under-relaxed steps: half the contraction per iteration
                        cfg = '%s;%s' % (cfgp, var) if var else cfgp
                        for start in ('zero', 'random'):
                            x = Pb.X.zero() if start == 'zero' else Pb.X.element(rng.normal(size=Pb.X.size))
                            e0 = np.linalg.norm(np.asarray(x) - Pb.xstar)
                            np.random.seed(idx)
                            ctx.ev('bounded-progress')
                            try:
                                run(x, N)
                            except Exception as e:
                                ctx.violation(comp, cfg, 'raises:' + type(e).__name__, message=str(e)[:200])
                                break
                            e = np.linalg.norm(np.asarray(x) - Pb.xstar) / max(e0, 1e-12)
                            if not e <= tol_e:
                                ctx.violation(comp, cfg, 'progress', rel=float(e), N=N, kappa=Pb.cond)
                            ctx.ev('kkt')
                            kr = Pb.kkt_residual(x)
                            if not kr <= tol_k:
                                ctx.violation(comp, cfg, 'kkt', residual=kr)
                        # fixed point
                        ctx.ev('fixed-point')
                        try:
                            x = Pb.X.element(Pb.xstar.copy())
                            np.random.seed(idx)
                            if comp == 'pdhg':
                                run(x, 5, Pb.ystar.copy())
                            elif comp in ('proximal_gradient', 'accelerated_proximal_gradient'):
                                run(x, 5)
                            else:
                                continue   # the others start their dual / auxiliary variables at zero internally
                            d = np.linalg.norm(np.asarray(x) - Pb.xstar)
                            if d > 1e-8 * max(1.0, np.linalg.norm(Pb.xstar)):
                                ctx.violation(comp, cfg, 'fixed-point', moved=float(d))
                        except Exception as e:
                            ctx.violation(comp, cfg, 'raises:' + type(e).__name__, message=str(e)[:200], probe='fixed-point')
    return idx


def run_illconditioned(ctx, idx0):
    """kappa up to 1e3: only claims with a theorem irrespective of conditioning (proximal gradient objective)."""
    idx = idx0
    for rep in range(ctx.reps(4, 24)):
        idx += 1
        if not ctx.mine(idx):
            continue
        rng = ctx.rng('ill', rep)
        n = int(rng.integers(2, 7))
        m = n + int(rng.integers(0, 4))
        cond = float(10 ** rng.uniform(1, 3))
        X, Y = odl.rn(n), odl.rn(m)
        Am = mat(rng, m, n, cond)
        A = WMat(Am, X, Y)
        b = Y.element(rng.normal(size=m))
        L = np.linalg.norm(Am, 2)
        lam = 0.3
        f = lam * S.L1Norm(X)
        g = S.L2NormSquared(Y).translated(b) * A
        r = trace.Recorder()
        x = X.element(rng.normal(size=n))
        obj0 = f(x) + g(x)
        ctx.case('ill-conditioned;proximal_gradient', rep)
        ctx.ev('monotone')
        try:
            S.proximal_gradient(x, f, g, gamma=0.45 / L ** 2, niter=100, callback=r)
            vals = [obj0] + [f(X.element(it)) + g(X.element(it)) for it in r.iterates]
            k = trace.nonincreasing(vals, 1e-10)
            if k is not None:
                ctx.violation('proximal_gradient', 'kappa>5', 'monotone:objective-increased', at=k)
        except Exception as e:
            ctx.violation('proximal_gradient', 'kappa>5', 'raises:' + type(e).__name__, message=str(e)[:200])
    return idx


def run_stepsizes(ctx):
    from odl.solvers.nonsmooth.primal_dual_hybrid_gradient import pdhg_stepsize
    from odl.solvers.nonsmooth.douglas_rachford import douglas_rachford_pd_stepsize
    for L in (0.1, 1.0, 7.0):
        for given in ('neither', 'tau', 'sigma', 'both'):
            for val in (0.05, 0.9, 3.0):
                ctx.ev('stepsize-contract')
                ctx.case('pdhg_stepsize;%s' % given, (L, val))
                tau = val if given in ('tau', 'both') else None
                sigma = val / 2 if given in ('sigma', 'both') else None
                try:
                    t, s = pdhg_stepsize(L, tau=tau, sigma=sigma)
                    if tau is not None and t != tau:
                        ctx.violation('pdhg_stepsize', 'given=' + given, 'given-parameter-changed', which='tau')
                    if sigma is not None and s != sigma:
                        ctx.violation('pdhg_stepsize', 'given=' + given, 'given-parameter-changed', which='sigma')
                    if given != 'both' and not (t > 0 and s > 0 and t * s * L ** 2 < 1):
                        ctx.violation('pdhg_stepsize', 'given=' + given, 'inadmissible-steps', tau=t, sigma=s, L=L)
                except Exception as e:
                    ctx.violation('pdhg_stepsize', 'given=' + given, 'raises:' + type(e).__name__, message=str(e)[:200])
    rng = ctx.rng('stepsizes')
    for nops in (1, 2, 3):
        for given in ('neither', 'tau', 'sigma', 'both'):
            for rep in range(4):
                ctx.ev('stepsize-contract')
                ctx.case('douglas_rachford_pd_stepsize;%s;ops=%d' % (given, nops), rep)
                Ls = [float(rng.choice([0.1, 1.0, 7.0])) for _ in range(nops)]
                tau = float(rng.choice([0.05, 0.9, 3.0])) if given in ('tau', 'both') else None
                sigma = [float(rng.choice([0.05, 0.4, 2.0])) for _ in range(nops)] if given in ('sigma', 'both') else None
                try:
                    t, s = douglas_rachford_pd_stepsize(Ls, tau=tau, sigma=sigma)
                    s = list(s)
                    if tau is not None and t != tau:
                        ctx.violation('douglas_rachford_pd_stepsize', 'given=%s;ops=%d' % (given, nops), 'given-parameter-changed', which='tau')
                    if sigma is not None and list(s) != list(sigma):
                        ctx.violation('douglas_rachford_pd_stepsize', 'given=%s;ops=%d' % (given, nops), 'given-parameter-changed', which='sigma')
                    if given != 'both' and not (t > 0 and all(si > 0 for si in s) and t * sum(si * Li ** 2 for si, Li in zip(s, Ls)) < 4):
                        ctx.violation('douglas_rachford_pd_stepsize', 'given=%s;ops=%d' % (given, nops), 'inadmissible-steps', tau=t, sigma=s, L=Ls)
                except Exception as e:
                    ctx.violation('douglas_rachford_pd_stepsize', 'given=%s;ops=%d' % (given, nops), 'raises:' + type(e).__name__, message=str(e)[:200])


def run_overiteration(ctx):
    """Krylov solvers run far beyond the dimension (3-4 x dim iterations) on many tiny problems: after convergence the
    recurrences operate on rounding noise; the residual / energy error must still never increase and the converged solution
    must survive.  Breakdowns are rare events (order 1e-4 per problem), so the reach comes from the number of problems."""
    N = 1000 if not ctx.thorough else 2500
    rng = ctx.rng('overiteration')
    for t in range(N):
        n = int(rng.integers(1, 7))
        m = n + int(rng.integers(0, 4))
        dt = 'float64' if t % 4 else 'float32'
        tol = 1e-6 if dt == 'float64' else 2e-2
        Am = rng.normal(size=(m, n)).astype(dt)
        X, Y = odl.rn(n, dtype=dt), odl.rn(m, dtype=dt)
        A = odl.MatrixOperator(Am, X, Y)
        ba = (Am @ rng.normal(size=n) + (0.1 * rng.normal(size=m) if t % 3 else 0.0)).astype(dt)
        b = Y.element(ba)
        niter = int(rng.integers(2 * n + 1, 4 * n + 2))
        cfg = '%s;overiterated' % dt
        if t % 50 == 0:
            ctx.case('overiteration;cgn;%s' % dt, t)
        r = trace.Recorder()
        x = X.zero()
        try:
            S.conjugate_gradient_normal(A, x, b, niter, callback=r)
        except Exception as e:
            ctx.violation('conjugate_gradient_normal', cfg, 'raises:' + type(e).__name__, message=str(e)[:200])
            continue
        A64, b64 = Am.astype(float), ba.astype(float)
        rs = [np.linalg.norm(A64 @ np.asarray(it, dtype=float) - b64) for it in [np.zeros(n)] + r.iterates]
        ctx.ev('monotone')
        xls = np.linalg.lstsq(A64, b64, rcond=None)[0]
        # fluctuations at the rounding level of the residual itself (eps * (|A| |x| + |b|)) are not increases
        slack = 64 * float(np.finfo(dt).eps) * (np.linalg.norm(A64, 2) * np.linalg.norm(xls) + rs[0])
        k = next((i for i in range(1, len(rs)) if rs[i] > rs[i - 1] * (1 + (1e-9 if dt == 'float64' else 1e-4)) + slack), None)
        if k is not None:
            ctx.violation('conjugate_gradient_normal', cfg, 'monotone:residual-increased', at=k, n=n, m=m, niter=niter, residuals=rs[max(0, k - 2):k + 2])
        if np.linalg.cond(A64) < 30:
            ctx.ev('bounded-progress')
            e = np.linalg.norm(np.asarray(x, dtype=float) - xls) / max(1e-12, np.linalg.norm(xls))
            if not e <= tol:
                ctx.violation('conjugate_gradient_normal', cfg, 'progress', rel=float(e), n=n, m=m, niter=niter)
        # plain CG on the SPD normal matrix
        Q = (A64.T @ A64 + 1e-3 * np.eye(n)).astype(dt)
        Qop = odl.MatrixOperator(Q, X, X)
        xs = rng.normal(size=n)
        rhs = X.element((Q.astype(float) @ xs).astype(dt))
        r = trace.Recorder()
        x = X.zero()
        try:
            S.conjugate_gradient(Qop, x, rhs, niter, callback=r)
        except Exception as e:
            ctx.violation('conjugate_gradient', cfg, 'raises:' + type(e).__name__, message=str(e)[:200])
            continue
        Q64 = Q.astype(float)
        xe = np.linalg.solve(Q64, np.asarray(rhs, dtype=float))
        en = [float(xe @ Q64 @ xe)] + [float((np.asarray(it, dtype=float) - xe) @ Q64 @ (np.asarray(it, dtype=float) - xe)) for it in r.iterates]
        ctx.ev('monotone')
        slack = 1e-14 if dt == 'float64' else 1e-5
        k = next((i for i in range(1, len(en)) if en[i] > en[i - 1] * (1 + 1e-8) + slack * en[0]), None)
        if k is not None:
            ctx.violation('conjugate_gradient', cfg, 'monotone:energy-error-increased', at=k, n=n, niter=niter)
        if np.linalg.cond(Q64) < 1e3:
            ctx.ev('bounded-progress')
            if not en[-1] <= (1e-12 if dt == 'float64' else 1e-4) * max(en[0], 1e-300):
                ctx.violation('conjugate_gradient', cfg, 'progress', rel=float(np.sqrt(en[-1] / max(en[0], 1e-300))), n=n, niter=niter)


def run_exact_start(ctx):
    """Started at an exact solution (integer data, residual exactly zero) the Krylov solvers have nothing to reduce: the
    iterate stays put, stays finite, and no callback reports a step that was not taken."""
    rng = ctx.rng('exact-start')
    for rep in range(ctx.reps(20, 100)):
        n = int(rng.integers(2, 6))
        X = odl.rn(n)
        x0 = rng.integers(-3, 4, size=n).astype(float)
        B = rng.integers(-3, 4, size=(n, n)).astype(float)
        Q = B.T @ B + np.eye(n)
        M = rng.integers(-3, 4, size=(n + int(rng.integers(0, 3)), n)).astype(float)
        for name, A, solver in (('conjugate_gradient', WMat(Q, X, X), S.conjugate_gradient),
                                ('conjugate_gradient_normal', WMat(M, X, odl.rn(M.shape[0])), S.conjugate_gradient_normal)):
            ctx.case('exact-start;' + name, rep)
            ctx.ev('monotone')
            r = trace.Recorder()
            x = X.element(x0)
            try:
                solver(A, x, A(X.element(x0)), 7, callback=r)
            except Exception as e:
                ctx.violation(name, 'start=exact-solution', 'raises:' + type(e).__name__, message=str(e)[:200])
                continue
            xa = np.asarray(x)
            if not np.all(np.isfinite(xa)):
                ctx.violation(name, 'start=exact-solution', 'not-finite')
            elif not np.array_equal(xa, x0):
                ctx.violation(name, 'start=exact-solution', 'monotone:left-the-solution', maxdiff=float(np.abs(xa - x0).max()))
            if any(not np.array_equal(it, x0) for it in r.iterates):
                ctx.violation(name, 'start=exact-solution', 'callback-saw-another-point')


class SelfAdjointMat(WMat):
    """Symmetric matrix on a constant-weighted space: self-adjoint, and says so by returning itself."""

    def __init__(self, M, dom):
        super(SelfAdjointMat, self).__init__((np.asarray(M) + np.asarray(M).T) / 2, dom, dom)

    @property
    def adjoint(self):
        return self


def run(ctx):
    ctx.note('rule', 'one case = one seeded problem instance (solver family x plain / constant-weighted space x conditioning class '
                     'x planted problem kind x number of operator blocks x step rule x start point); conditioning classes, '
                     'problem kinds (lasso, box-ls, elastic-net), step rules and documented solver options (lam, l, h, gamma_primal, gamma_dual, '
                     'x_relax) are enumerated; plus 1000-2500 tiny over-iterated Krylov problems per shard; distinct = distinct case keys')
    ctx.note('assumptions', ['convergence is restated as bounded progress on kappa <= 5 problems (thresholds leave >= 3 orders of '
                             'margin on the unchanged tree)', 'harness operator WMat has an exact adjoint in weighted spaces',
                             'NumPy SVD / lstsq are the reference for norms and least-squares solutions'])
    import odl.solvers.iterative.iterative as _it, odl.solvers.smooth.gradient as _gr, odl.solvers.smooth.nonlinear_cg as _ncg, \
        odl.solvers.smooth.newton as _nw, odl.solvers.nonsmooth.primal_dual_hybrid_gradient as _pd, odl.solvers.nonsmooth.douglas_rachford as _dr, \
        odl.solvers.nonsmooth.forward_backward as _fb, odl.solvers.nonsmooth.proximal_gradient_solvers as _pg, odl.solvers.nonsmooth.admm as _ad, \
        odl.solvers.util.steplen as _sl, odl.operator.oputils as _ou
    cov = cover.module_cover([_it, _gr, _pd, _dr, _fb, _pg, _ad, _sl])
    cov.add(_ou.power_method_opnorm, 'power_method_opnorm')
    cov.arm()
    sanitize.poison_on()
    idx = run_linear(ctx, 0)
    idx = run_planted(ctx, idx)
    idx = run_illconditioned(ctx, idx)
    run_overiteration(ctx)
    if ctx.shard == 0:
        run_stepsizes(ctx)
    if ctx.shard == ctx.nshards - 1:
        run_exact_start(ctx)
    cover.report_to(ctx, cov)
    for m in ('monotone', 'bounded-progress', 'kkt', 'fixed-point', 'opnorm'):
        ctx.ev(m, 0)
