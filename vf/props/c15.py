"""C15 -- sampling and interpolation reproduce the function at the nodes and between them.

Deciding monitors
  sampling        : space.element(func).asarray() == func evaluated point by point on space.points(),
                    for every kind of callable (vectorised, odl.vectorize, broadcasting, in-place, dual-use,
                    constants, complex, kwargs).
  interpolation   : nearest / linear / per-axis interpolators against an independent multilinear model at
                    nodes, midpoints (ties), interior points and just outside the hull.
  conventions     : single point == point array == mesh grid (1e-14), with and without out.
  exactness       : node values reproduced; affine functions reproduced inside the hull (linear).
  resampling      : Resampling(...) and linear_deform(...) against the same model.
"""

import itertools

import numpy as np
import odl
from odl.discr import discr_utils
from odl.discr.discr_utils import linear_interpolator, nearest_interpolator, per_axis_interpolator
from odl.discr.grid import sparse_meshgrid

from .. import cover, util

SHARDS = {'quick': 4, 'thorough': 16}


# ---------------------------------------------------------------------------------------------
# reference model (Appendix C)


def w1d(cv, x, scheme):
    """List of acceptable weight lists [(idx, w), ...] for one axis (first entry = documented choice)."""
    n = len(cv)
    if scheme == 'nearest':
        d = np.abs(cv - x)
        m = d.min()
        near = np.where(d <= m + 1e-12 * max(1.0, abs(x), np.abs(cv).max()))[0]
        exact = np.where(d == m)[0]
        prim = int(exact.max())            # right neighbour on exact ties
        return [[(prim, 1.0)]] + [[(int(i), 1.0)] for i in near if int(i) != prim]
    if x <= cv[0]:
        t = (cv[0] - x) / (cv[1] - cv[0])
        return [[(0, 1 - t)]]
    if x >= cv[-1]:
        t = (x - cv[-1]) / (cv[-1] - cv[-2])
        return [[(n - 1, 1 - t)]]
    i = int(np.searchsorted(cv, x, side='right') - 1)
    t = (x - cv[i]) / (cv[i + 1] - cv[i])
    return [[(i, 1 - t), (i + 1, t)]]


def ref_vals(f, cvs, pt, schemes):
    per_axis = [w1d(cv, x, s) for cv, x, s in zip(cvs, pt, schemes)]
    outs = []
    for choice in itertools.product(*per_axis):
        tot = 0
        for combo in itertools.product(*choice):
            idx = tuple(c[0] for c in combo)
            wt = np.prod([c[1] for c in combo])
            tot = tot + wt * f[idx]
        outs.append(tot)
    return outs


def ref_nearest_index(cvs, pt):
    """Acceptable index tuples for nearest-neighbour lookup (non-numeric values)."""
    per_axis = [[w[0][0] for w in w1d(cv, x, 'nearest')] for cv, x in zip(cvs, pt)]
    return list(itertools.product(*per_axis))


# ---------------------------------------------------------------------------------------------


def make_cvs(rng, shape, uniform, far=False):
    """Coordinate vectors; ``far``: a grid with small cells far from the origin (offset ~1e3, cells ~1e-2), where the
    coordinates only make sense in double precision whatever the dtype of the data."""
    cvs = []
    for k in shape:
        if far:
            off = rng.choice([-1, 1]) * rng.uniform(900, 1100)
            cv = off + (rng.uniform(0.005, 0.02) * np.arange(k) if uniform else np.sort(rng.uniform(0, 0.05, size=k)) + np.arange(k) * 0.002)
        elif uniform:
            cv = rng.uniform(-2, 2) + rng.uniform(0.2, 1.5) * np.arange(k)
        else:
            cv = np.sort(rng.uniform(-2, 2, size=k)) + np.arange(k) * 0.05
        cvs.append(cv)
    return cvs


def point_kinds(rng, cvs):
    """One point per kind; returns list of (kind, point)."""
    out = []
    for kind in ('node', 'midpoint', 'interior', 'interior', 'mixed', 'outside-low', 'outside-high', 'next-to-node', 'next-to-node'):
        p = []
        for cv in cvs:
            k = kind
            if kind == 'mixed':
                k = ['node', 'midpoint', 'interior'][int(rng.integers(3))]
            if k == 'node':
                p.append(float(cv[rng.integers(len(cv))]))
            elif k == 'midpoint':
                i = rng.integers(len(cv) - 1)
                p.append(float((cv[i] + cv[i + 1]) / 2))
            elif k == 'interior':
                p.append(float(rng.uniform(cv[0], cv[-1])))
            elif k == 'next-to-node':
                # 1e-9 .. 1e-12 cell widths beside a node, not on it: the far neighbour still enters with its (tiny) weight
                i = int(rng.integers(len(cv) - 1))
                h_ = cv[i + 1] - cv[i]
                delta = h_ * 10.0 ** rng.uniform(-12, -9)
                p.append(float(cv[i] + delta) if rng.random() < 0.5 else float(cv[i + 1] - delta))
            elif k == 'outside-low':
                p.append(float(cv[0] - rng.uniform(0.01, 0.49) * (cv[1] - cv[0])))
            else:
                p.append(float(cv[-1] + rng.uniform(0.01, 0.49) * (cv[-1] - cv[-2])))
        out.append((kind, p))
    return out


def run_interpolators(ctx):
    rng = ctx.rng('interp')
    idx = 0
    for nd in (1, 2, 3):
        all_schemes = list(itertools.product(['nearest', 'linear'], repeat=nd))
        for uniform, dt, kind in itertools.product((True, False), ('float64', 'float32', 'complex128'), ('nearest', 'linear', 'peraxis')):
            sch_list = [('nearest',) * nd] if kind == 'nearest' else [('linear',) * nd] if kind == 'linear' else all_schemes
            for schemes in sch_list:
                idx += 1
                if not ctx.mine(idx):
                    continue
                for rep in range(ctx.reps(4, 30)):
                    shape = tuple(int(k) for k in rng.integers(2, 6, size=nd))
                    far = (rep % 3 == 2)
                    cvs = make_cvs(rng, shape, uniform, far)
                    f = rng.normal(size=shape).astype(dt)
                    if dt == 'complex128':
                        f = f + 1j * rng.normal(size=shape)
                    if rep % 3 == 1 and dt != 'float32':
                        # neighbouring values of very different magnitude (a small value next to a huge one)
                        f = f * (10.0 ** rng.integers(-3, 7, size=shape)).astype(f.real.dtype)
                    comp = {'nearest': 'nearest_interpolator', 'linear': 'linear_interpolator', 'peraxis': 'per_axis_interpolator'}[kind]
                    mixed = len(set(schemes)) > 1
                    cfgb = '%dd;%s%s;%s;%s' % (nd, 'uniform' if uniform else 'nonuniform', ',far' if far else '', np.dtype(dt).kind + str(np.dtype(dt).itemsize),
                                              'mixed' if mixed else schemes[0])
                    ctx.case('interp;%s;%s' % (comp, cfgb), (schemes, rep))
                    try:
                        interp = nearest_interpolator(f, cvs) if kind == 'nearest' else linear_interpolator(f, cvs) if kind == 'linear' \
                            else per_axis_interpolator(f, cvs, schemes)
                    except Exception as e:
                        ctx.violation(comp, cfgb, 'ctor-raises:' + type(e).__name__, message=str(e)[:200])
                        continue
                    if idx % 17 == 0 and rep == 0:
                        ctx.sample({'interpolator': comp, 'schemes': schemes, 'coord_vecs': cvs, 'dtype': dt})
                    fref = f.astype('complex128' if dt == 'complex128' else 'float64')
                    tol = 1e-5 if dt == 'float32' else 1e-12
                    # conditioning of the normalised distance (x - x_i) / (x_{i+1} - x_i) in double precision
                    tol += 16 * np.finfo(float).eps * max(float(np.abs(cv).max()) / float(np.diff(cv).min()) for cv in cvs)
                    sc = max(1.0, float(np.abs(f).max()))
                    singles = []
                    pts = point_kinds(rng, cvs)
                    for pkind, p in pts:
                        outside = pkind.startswith('outside')
                        if outside and 'nearest' in schemes:
                            singles.append(None)    # only the linear zero-extension is documented
                            continue
                        ctx.ev('interpolation')
                        acc = ref_vals(fref, cvs, p, schemes)
                        try:
                            v = interp(np.array(p) if nd > 1 else p[0])
                        except Exception as e:
                            ctx.violation(comp, cfgb + ';' + pkind, 'raises:' + type(e).__name__, message=str(e)[:200])
                            singles.append(None)
                            continue
                        singles.append(v)
                        if not any(abs(v - a) <= tol * sc for a in acc):
                            ctx.violation(comp, cfgb + ';' + pkind, 'value!=multilinear-model', point=p, got=v, ref=acc[0], coord_vecs=cvs)
                        if pkind == 'node' and 'nearest' not in schemes or (pkind == 'node' and kind == 'nearest'):
                            ctx.ev('exactness')
                            ni = tuple(int(np.argmin(np.abs(cv - x))) for cv, x in zip(cvs, p))
                            if abs(v - fref[ni]) > tol * sc:
                                ctx.violation(comp, cfgb + ';node', 'node-value-not-reproduced', point=p, got=v, ref=fref[ni])
                    ok = [i for i, v in enumerate(singles) if v is not None]
                    if ok:
                        ctx.ev('conventions')
                        order = np.lexsort([[pts[i][1][a] for i in ok] for a in range(nd)][::-1])
                        # point arrays must be sorted ascending per axis (documented): sort each axis independently
                        arr = np.array([pts[i][1] for i in ok]).T        # (nd, N)
                        arr_sorted = np.sort(arr, axis=1)
                        try:
                            va = np.asarray(interp(arr_sorted if nd > 1 else arr_sorted[0]))
                            for k in range(arr_sorted.shape[1]):
                                p = arr_sorted[:, k]
                                outside = any(x < cv[0] or x > cv[-1] for x, cv in zip(p, cvs))
                                if outside and 'nearest' in schemes:
                                    continue
                                v1 = interp(np.array(p) if nd > 1 else p[0])
                                if not (abs(va[k] - v1) <= 1e-13 * max(1.0, abs(v1))):
                                    ctx.violation(comp, cfgb, 'array!=single', point=p, got=va[k], ref=v1)
                                    break
                            out = np.full(arr_sorted.shape[1], complex(np.nan, np.nan) if va.dtype.kind == 'c' else np.nan, dtype=va.dtype)
                            r = interp(arr_sorted if nd > 1 else arr_sorted[0], out=out)
                            if not np.array_equal(out, va, equal_nan=True):
                                ctx.violation(comp, cfgb, 'out=!=oop')
                        except Exception as e:
                            ctx.violation(comp, cfgb, 'array-raises:' + type(e).__name__, message=str(e)[:200])
                    # mesh grid
                    ctx.ev('conventions')
                    mesh_axes = [np.sort(rng.uniform(cv[0], cv[-1], size=3)) for cv in cvs]
                    try:
                        vm = np.asarray(interp(sparse_meshgrid(*mesh_axes)))
                        if vm.shape != (3,) * nd:
                            ctx.violation(comp, cfgb, 'mesh-shape', got=vm.shape)
                        else:
                            for ix in itertools.product(*[range(3)] * nd):
                                p = [mesh_axes[a][ix[a]] for a in range(nd)]
                                v = interp(np.array(p) if nd > 1 else p[0])
                                if abs(vm[ix] - v) > 1e-13 * max(1.0, abs(v)):
                                    ctx.violation(comp, cfgb, 'mesh!=single', point=p, got=vm[ix], ref=v)
                                    break
                    except Exception as e:
                        ctx.violation(comp, cfgb, 'mesh-raises:' + type(e).__name__, message=str(e)[:200])
                    # mesh grids with vectors of different lengths, incl. a single point in one position (first, middle, last)
                    if nd >= 2:
                        ctx.ev('conventions')
                        for pos in range(nd):
                            lens = [1 if a == pos else 2 + a for a in range(nd)]
                            axes_ = [np.sort(rng.uniform(cv[0], cv[-1], size=k_)) for cv, k_ in zip(cvs, lens)]
                            try:
                                vm = np.asarray(interp(sparse_meshgrid(*axes_)))
                                if vm.shape != tuple(lens):
                                    ctx.violation(comp, cfgb, 'mesh-shape', got=vm.shape, want=tuple(lens))
                                    continue
                                for ix in itertools.product(*[range(k_) for k_ in lens]):
                                    p = [axes_[a][ix[a]] for a in range(nd)]
                                    v = interp(np.array(p))
                                    if abs(vm[ix] - v) > 1e-13 * max(1.0, abs(v)):
                                        ctx.violation(comp, cfgb, 'mesh!=single', point=p, got=vm[ix], ref=v)
                                        break
                            except Exception as e:
                                ctx.violation(comp, cfgb, 'mesh-raises:' + type(e).__name__, message=str(e)[:200], vector_lengths=lens)
                    # affine exactness (linear in every axis)
                    if all(s == 'linear' for s in schemes) and dt != 'float32':
                        ctx.ev('exactness')
                        coef = rng.normal(size=nd)
                        c0 = rng.normal()
                        mesh = np.meshgrid(*cvs, indexing='ij')
                        g = c0 + sum(c * m for c, m in zip(coef, mesh))
                        li = linear_interpolator(g, cvs) if kind == 'linear' else per_axis_interpolator(g, cvs, schemes)
                        for _ in range(5):
                            p = [float(rng.uniform(cv[0], cv[-1])) for cv in cvs]
                            v = li(np.array(p) if nd > 1 else p[0])
                            e = c0 + float(np.dot(coef, p))
                            if abs(v - e) > 1e-12 * max(1.0, abs(e), np.abs(g).max()):
                                ctx.violation(comp, cfgb, 'affine-not-reproduced', point=p, got=v, ref=e)
                                break


def run_single_node_axis(ctx):
    """Grids with an axis of a single node (a slice of a volume kept as an array with one more axis): at points whose coordinate
    on that axis is the node, the value is the interpolation over the remaining axes - in particular node values are reproduced."""
    rng = ctx.rng('single-node-axis')
    idx = 70000
    for nd, dt in itertools.product((2, 3), ('float64', 'complex128')):
        for schemes in itertools.product(['nearest', 'linear'], repeat=nd):
            for ax1 in range(nd):
                idx += 1
                if not ctx.mine(idx):
                    continue
                shape = tuple(1 if a == ax1 else int(rng.integers(2, 5)) for a in range(nd))
                cvs = make_cvs(rng, tuple(max(k, 2) for k in shape), True)
                cvs = [cv[:1] if a == ax1 else cv[:shape[a]] for a, cv in enumerate(cvs)]
                f = rng.normal(size=shape).astype(dt)
                if dt == 'complex128':
                    f = f + 1j * rng.normal(size=shape)
                mixed = len(set(schemes)) > 1
                cfg = '%dd;single-node-axis;%s' % (nd, 'mixed' if mixed else schemes[0])
                ctx.case('single-node-axis;%s;%d' % ('-'.join(schemes), ax1), (shape, dt))
                ctx.ev('interpolation')
                try:
                    if not mixed:
                        itp = (discr_utils.nearest_interpolator if schemes[0] == 'nearest' else discr_utils.linear_interpolator)(f, cvs)
                        comp = schemes[0] + '_interpolator'
                    else:
                        itp = discr_utils.per_axis_interpolator(f, cvs, list(schemes))
                        comp = 'per_axis_interpolator'
                    rest = [a for a in range(nd) if a != ax1]
                    fr = np.squeeze(f, axis=ax1)
                    for kind in ('node', 'interior'):
                        pt = [float(cvs[ax1][0]) if a == ax1 else (float(cvs[a][rng.integers(len(cvs[a]))]) if kind == 'node' else float(rng.uniform(cvs[a][0], cvs[a][-1])))
                              for a in range(nd)]
                        got = np.asarray(itp(np.array(pt).reshape(nd, 1))).ravel()[0]
                        acc = ref_vals(fr, [cvs[a] for a in rest], [pt[a] for a in rest], tuple(schemes[a] for a in rest))
                        if not any(abs(got - a_) <= 1e-12 * max(1.0, np.abs(f).max()) for a_ in acc):
                            ctx.violation(comp, cfg + ';' + kind, 'value!=multilinear-model', point=pt, got=str(got), ref=str(acc[0]))
                            break
                except Exception as e:
                    ctx.violation('interpolators', cfg, 'raises:' + type(e).__name__, message=str(e)[:200])


def run_nonnumeric(ctx):
    """Integer and string values with nearest interpolation."""
    rng = ctx.rng('nonnumeric')
    for nd in (1, 2):
        for vals in ('int', 'str'):
            for rep in range(ctx.reps(6, 40)):
                shape = tuple(int(k) for k in rng.integers(2, 6, size=nd))
                cvs = make_cvs(rng, shape, bool(rep % 2))
                if vals == 'int':
                    f = rng.integers(-9, 10, size=shape)
                else:
                    f = np.array(['s%d' % i for i in range(int(np.prod(shape)))]).reshape(shape)
                cfg = '%dd;%s' % (nd, vals)
                ctx.case('nearest-nonnumeric;' + cfg, rep)
                try:
                    interp = nearest_interpolator(f, cvs)
                    for pkind, p in point_kinds(rng, cvs)[:5]:
                        ctx.ev('interpolation')
                        v = interp(np.array(p) if nd > 1 else p[0])
                        acc = [f[i] for i in ref_nearest_index(cvs, p)]
                        if not any(v == a for a in acc):
                            ctx.violation('nearest_interpolator', cfg + ';' + pkind, 'value!=nearest-node', point=p, got=str(v), ref=str(acc[0]))
                except Exception as e:
                    ctx.violation('nearest_interpolator', cfg, 'raises:' + type(e).__name__, message=str(e)[:200])


def sampling_funcs(nd, cplx):
    c = (1 + 0.5j) if cplx else 1.0
    yield 'vectorised-all-coords', (lambda x: c * sum((i + 1) * xi for i, xi in enumerate(x))), (lambda p: c * sum((i + 1) * pi for i, pi in enumerate(p)))
    yield 'broadcast-first-coord', (lambda x: c * x[0] ** 2), (lambda p: c * p[0] ** 2)
    yield 'broadcast-last-coord', (lambda x: c * np.cos(x[nd - 1])), (lambda p: c * np.cos(p[nd - 1]))
    yield 'python-constant', (lambda x: 3.5 * c), (lambda p: 3.5 * c)
    yield 'zero-dim-array-constant', (lambda x: np.array(2.0) * c), (lambda p: 2.0 * c)

    def inplace(x, out):
        out[:] = c * (x[0] - 2 * x[nd - 1])
    yield 'in-place-only', inplace, (lambda p: c * (p[0] - 2 * p[nd - 1]))

    def dual(x, out=None):
        r = c * (x[0] * x[nd - 1])
        if out is None:
            return r
        out[:] = r
    yield 'dual-use', dual, (lambda p: c * p[0] * p[nd - 1])
    if cplx:
        yield 'odl.vectorize', odl.util.vectorize(otypes=['complex128'])(lambda x: complex(np.sin(x[0]) + 1j * x[nd - 1])), \
            (lambda p: np.sin(p[0]) + 1j * p[nd - 1])
    else:
        yield 'odl.vectorize', odl.util.vectorize(lambda x: float(np.sin(x[0]) + x[nd - 1])), (lambda p: np.sin(p[0]) + p[nd - 1])
    yield 'odl.vectorize-branchy', odl.util.vectorize(lambda x: (1.5 if x[0] > 0.3 else -0.25) * (1 if not cplx else 1j)), \
        (lambda p: (1.5 if p[0] > 0.3 else -0.25) * (1 if not cplx else 1j))
    # the decorator's other documented spellings: numpy.vectorize options given positionally / by keyword / empty call.
    # The functions return a "smaller" type at the first grid points (int 0, a real number), so the declared output type
    # is what makes the sampled values right.
    if cplx:
        yield 'odl.vectorize(positional-otypes)', odl.util.vectorize(['complex128'])(lambda x: 2 if x[0] < 0.3 else 1j * float(x[0]) + 0.25), \
            (lambda p: 2 if p[0] < 0.3 else 1j * p[0] + 0.25)
    else:
        yield 'odl.vectorize(positional-otypes)', odl.util.vectorize(['float64'])(lambda x: 0 if x[0] < 0.3 else float(x[0]) + 0.25), \
            (lambda p: 0 if p[0] < 0.3 else p[0] + 0.25)
        yield 'odl.vectorize(keyword-otypes)', odl.util.vectorize(otypes=['float64'])(lambda x: 0 if x[0] < 0.3 else float(x[0]) + 0.25), \
            (lambda p: 0 if p[0] < 0.3 else p[0] + 0.25)
    yield 'odl.vectorize()', odl.util.vectorize()(lambda x: c * float(x[0] - x[nd - 1] ** 2)), (lambda p: c * (p[0] - p[nd - 1] ** 2))
    if nd == 1:
        yield 'numpy-ufunc', np.exp, (lambda p: np.exp(p[0]))
    yield 'default-kwarg', (lambda x, k=2.0: c * k * x[0]), (lambda p: c * 2.0 * p[0])
    yield 'mixed-coords-product', (lambda x: c * x[0] * x[nd // 2] + x[nd - 1]), (lambda p: c * p[0] * p[nd // 2] + p[nd - 1])


def run_sampling(ctx):
    idx = 0
    for nd in (1, 2, 3):
        for shape in [(1,) * nd, (4, 3, 2)[:nd], (2,) * nd, (5, 1, 3)[:nd]]:
            for dt in ('float64', 'float32', 'complex128'):
                for nob in (False, True):
                    idx += 1
                    if not ctx.mine(idx):
                        continue
                    sp = odl.uniform_discr([-1] * nd, [1.0, 2.0, 0.5][:nd], shape, dtype=dt, nodes_on_bdry=nob)
                    pts = sp.points()
                    for name, f, ref in sampling_funcs(nd, dt == 'complex128'):
                        ctx.ev('sampling')
                        cfg = '%dd;%s;%s' % (nd, np.dtype(dt).kind + str(np.dtype(dt).itemsize), 'len1' if 1 in shape else 'len>=2')
                        ctx.case('sampling;%s;%s' % (name, cfg), (shape, nob))
                        try:
                            el = sp.element(f)
                            exp = np.array([ref(p) for p in pts]).reshape(shape)
                            tol = 1e-6 if dt == 'float32' else 1e-13
                            if el.asarray().shape != shape or not np.allclose(el.asarray(), exp.astype(dt), rtol=tol, atol=tol):
                                ctx.violation('element(func)', cfg + ';' + name, 'values!=pointwise', shape=shape, got=el.asarray(), ref=exp)
                            if el not in sp:
                                ctx.violation('element(func)', cfg + ';' + name, 'not-in-space')
                        except Exception as e:
                            ctx.violation('element(func)', cfg + ';' + name, 'raises:' + type(e).__name__, message=str(e)[:200], shape=shape)
    # one vectorised function object used again and again with keyword arguments that change the type of its values
    # (int, float, int again, complex): what it remembers from earlier calls must not leak into later ones
    if ctx.shard == 0:
        @odl.util.vectorize
        def step(x, height=1, thr=0.0):
            # one type per call (numpy.vectorize takes the output type from the first point, as documented)
            return height if x[0] > thr else type(height)(0)
        hist = [dict(height=1), dict(height=0.5), dict(height=2), dict(height=-0.25, thr=0.3), dict(height=3), dict(height=1.5 + 0.5j)]
        for sname, sp in (('1d', odl.uniform_discr(-1, 1, 6)), ('2d', odl.uniform_discr([-1, 0], [1, 1], (4, 3))), ('1d-c', odl.uniform_discr(-1, 1, 5, dtype=complex))):
            for k, kw in enumerate(hist):
                if isinstance(kw['height'], complex) and not sp.is_complex:
                    continue
                ctx.ev('sampling')
                ctx.case('sampling-history;%s' % sname, k)
                try:
                    el = sp.element(step, **kw)
                    exp = np.array([kw['height'] if p[0] > kw.get('thr', 0.0) else 0 for p in sp.points()]).reshape(sp.shape)
                    if not np.allclose(el.asarray(), exp, rtol=1e-13, atol=1e-13):
                        ctx.violation('element(func)', 'reused odl.vectorize function;%s' % sname, 'values!=pointwise', call=k, kwargs=str(kw),
                                      got=el.asarray().ravel()[:6], ref=exp.ravel()[:6])
                        break
                except Exception as e:
                    ctx.violation('element(func)', 'reused odl.vectorize function;%s' % sname, 'raises:' + type(e).__name__, message=str(e)[:200], call=k)
                    break
    # non-uniform partitions
    rng = ctx.rng('sampling-nonuniform')
    if ctx.shard == 0:
        for nd in (1, 2):
            cvs = [np.sort(rng.uniform(-1, 1, size=k)) + 0.05 * np.arange(k) for k in (4, 3)[:nd]]
            part = odl.nonuniform_partition(*cvs)
            sp = odl.uniform_discr_frompartition(part) if False else odl.DiscretizedSpace(part, odl.rn(part.shape))
            pts = sp.points()
            for name, f, ref in sampling_funcs(nd, False):
                ctx.ev('sampling')
                ctx.case('sampling-nonuniform;%s;%dd' % (name, nd), 0)
                try:
                    el = sp.element(f)
                    exp = np.array([ref(p) for p in pts]).reshape(part.shape)
                    if not np.allclose(el.asarray(), exp, rtol=1e-13, atol=1e-13):
                        ctx.violation('element(func)', '%dd;nonuniform;%s' % (nd, name), 'values!=pointwise')
                except Exception as e:
                    ctx.violation('element(func)', '%dd;nonuniform;%s' % (nd, name), 'raises:' + type(e).__name__, message=str(e)[:200])


def run_resampling(ctx):
    rng = ctx.rng('resampling')
    idx = 0
    for nd in (1, 2, 3):
        scheme_list = [('nearest',) * nd, ('linear',) * nd] + [s_ for s_ in itertools.product(['nearest', 'linear'], repeat=nd) if len(set(s_)) > 1]
        for schemes in scheme_list:
            for rep in range(5 if nd < 3 else 2):
                idx += 1
                if not ctx.mine(idx):
                    continue
                shape1 = tuple(int(k) for k in rng.integers(3, 8, size=nd))
                shape2 = tuple(int(k) for k in rng.integers(3, 10, size=nd))
                lo = list(rng.uniform(-2, 2, size=nd)) if rep else [0.0] * nd
                hi = [l + float(rng.uniform(0.5, 3)) for l in lo]
                d1 = odl.uniform_discr(lo, hi, shape1)
                d2 = odl.uniform_discr(lo, hi, shape2)
                same_shape = ''
                if rep % 3 == 2:
                    # same set, same number of cells, other nodes (grid points on the boundary / on one side only)
                    d2 = odl.uniform_discr(lo, hi, shape1, nodes_on_bdry=True if rep % 2 == 0 else [(True, False)] * nd)
                    same_shape = ';same-shape-other-nodes'
                elif rep % 3 == 1 and nd <= 2:
                    d1 = odl.uniform_discr(lo, hi, shape1, nodes_on_bdry=[(False, True)] * nd)
                    d2 = odl.uniform_discr(lo, hi, shape1)
                    same_shape = ';same-shape-other-nodes'
                mixed = len(set(schemes)) > 1
                # the scheme is given as a single string (all axes equal, rep even), or as a per-axis sequence
                interp = schemes[0] if (not mixed and rep % 2 == 0) else list(schemes)
                cfg = '%dd;%s;%s' % (nd, 'mixed' if mixed else schemes[0], 'string' if isinstance(interp, str) else 'sequence') + same_shape
                ctx.case('resampling;' + cfg, (shape1, shape2, schemes))
                ctx.ev('resampling')
                try:
                    op = odl.Resampling(d1, d2, interp)
                    x = util.rand_element(d1, rng)
                    y = op(x)
                    out = util.fill(d2.element(), 'nan')
                    op(x, out=out)
                    if not np.allclose(np.asarray(out), np.asarray(y), rtol=1e-13, atol=1e-13):
                        ctx.violation('Resampling', cfg, 'inplace!=oop')
                    if tuple(op.interp_byaxis) != tuple(schemes):
                        ctx.violation('Resampling', cfg, 'interp_byaxis-not-as-given', got=op.interp_byaxis)
                    cvs = [np.asarray(cv) for cv in d1.grid.coord_vectors]
                    f = np.asarray(x)
                    ya = np.asarray(y)
                    for ix in np.ndindex(*d2.shape):
                        p = [d2.grid.coord_vectors[a][ix[a]] for a in range(nd)]
                        acc = ref_vals(f, cvs, p, schemes)
                        if not any(abs(ya[ix] - a) <= 1e-12 * max(1.0, np.abs(f).max()) for a in acc):
                            ctx.violation('Resampling', cfg, 'value!=multilinear-model', point=p, got=ya[ix], ref=acc[0])
                            break
                    # the operators derived from it resample back with the same per-axis schemes
                    for dname in ('inverse', 'adjoint'):
                        try:
                            back = getattr(op, dname)
                        except (NotImplementedError, odl.OpNotImplementedError):
                            continue
                        ctx.ev('resampling')
                        z = np.asarray(back(y))
                        cvs2 = [np.asarray(cv) for cv in d2.grid.coord_vectors]
                        for ix in np.ndindex(*d1.shape):
                            p = [d1.grid.coord_vectors[a][ix[a]] for a in range(nd)]
                            acc = ref_vals(ya, cvs2, p, schemes)
                            if not any(abs(z[ix] - a) <= 1e-12 * max(1.0, np.abs(ya).max()) for a in acc):
                                ctx.violation('Resampling.' + dname, cfg, 'value!=multilinear-model', point=p, got=z[ix], ref=acc[0])
                                break
                except Exception as e:
                    ctx.violation('Resampling', cfg, 'raises:' + type(e).__name__, message=str(e)[:200])
    # linear_deform with small displacements (points stay inside the hull)
    from odl.deform import linear_deform
    for nd, interp, dlayout in [(n_, i_, l_) for n_ in (1, 2, 3) for i_ in ('nearest', 'linear') for l_ in ('C', 'F', 'mixed') if not (n_ == 1 and l_ != 'C')]:
        if True:
            idx += 1
            if not ctx.mine(idx):
                continue
            sp = odl.uniform_discr([0.0] * nd, [1.0, 2.0, 1.5][:nd], (6, 5, 4)[:nd])
            cfg = '%dd;%s' % (nd, interp) + ('' if dlayout == 'C' else ';displacement-layout=' + dlayout)
            ctx.case('linear_deform;' + cfg, 0)
            ctx.ev('resampling')
            try:
                templ = util.rand_element(sp, rng)
                if dlayout != 'C':
                    templ = sp.element(np.asfortranarray(np.asarray(templ)))
                h = sp.cell_sides
                # displacement components stored in C order, Fortran order, or one of each
                disp = sp.tangent_bundle.element([sp.element(np.asarray(rng.uniform(-0.4, 0.4, size=sp.shape) * h[a],
                                                                        order='F' if (dlayout == 'F' or (dlayout == 'mixed' and a == 0)) else 'C'))
                                                  for a in range(nd)])
                res = linear_deform(templ, disp, interp)
                out = np.full(sp.shape, np.nan)
                r2 = linear_deform(templ, disp, interp, out=out)
                if r2 is not out or not np.allclose(out, res, rtol=1e-13, atol=1e-13):
                    ctx.violation('linear_deform', cfg, 'out=!=oop')
                # `out` in other memory layouts (Fortran order, strided view of a larger array)
                big = np.full(tuple(2 * k for k in sp.shape), np.nan)
                for lname, o2 in (('F', np.full(sp.shape, np.nan, order='F')), ('strided', big[tuple(slice(None, None, 2) for _ in sp.shape)])):
                    ctx.ev('resampling')
                    r3 = linear_deform(templ, disp, interp, out=o2)
                    if r3 is not o2 or not np.allclose(o2, res, rtol=1e-13, atol=1e-13, equal_nan=False):
                        ctx.violation('linear_deform', cfg + ';out-layout=' + lname, 'out=!=oop')
                cvs = [np.asarray(cv) for cv in sp.grid.coord_vectors]
                f = np.asarray(templ)
                for ix in np.ndindex(*sp.shape):
                    p = [cvs[a][ix[a]] + np.asarray(disp[a])[ix] for a in range(nd)]
                    outside = any(x < cv[0] or x > cv[-1] for x, cv in zip(p, cvs))
                    if outside and interp == 'nearest':
                        continue
                    acc = ref_vals(f, cvs, p, (interp,) * nd)
                    if not any(abs(res[ix] - a) <= 1e-12 * max(1.0, np.abs(f).max()) for a in acc):
                        ctx.violation('linear_deform', cfg, 'value!=multilinear-model', point=p, got=res[ix], ref=acc[0])
                        break
            except Exception as e:
                ctx.violation('linear_deform', cfg, 'raises:' + type(e).__name__, message=str(e)[:200])


def run_lindeform_ops(ctx):
    """LinDeformFixedDisp(displacement, interp=...) and the operators derived from it: op(f) is f interpolated with the given
    per-axis schemes at x + v(x); op.inverse does the same with -v and the *same* schemes (documented approximation of the
    inverse map, exact statement about what it evaluates); op.adjoint = exp(-div v) * op.inverse."""
    from odl.deform import LinDeformFixedDisp
    rng = ctx.rng('lindeform-ops')
    idx = 30000
    for nd in (1, 2):
        for schemes in [s_ for s_ in itertools.product(['nearest', 'linear'], repeat=nd)]:
            idx += 1
            if not ctx.mine(idx):
                continue
            sp = odl.uniform_discr([0.0] * nd, [1.0, 2.0][:nd], (6, 5)[:nd])
            interp = schemes[0] if len(set(schemes)) == 1 else list(schemes)
            cfg = '%dd;%s' % (nd, 'mixed' if len(set(schemes)) > 1 else schemes[0])
            ctx.case('LinDeformFixedDisp;' + cfg, 0)
            try:
                h = sp.cell_sides
                # a quarter to 0.4 cells: nearest and linear give different answers
                disp = sp.tangent_bundle.element([sp.element(rng.uniform(0.2, 0.4, size=sp.shape) * rng.choice([-1, 1], size=sp.shape) * h[a]) for a in range(nd)])
                op = LinDeformFixedDisp(disp, interp=interp)
                templ = util.rand_element(sp, rng)
                f = np.asarray(templ)
                cvs = [np.asarray(cv) for cv in sp.grid.coord_vectors]
                for oname, o, sign in (('LinDeformFixedDisp', op, +1), ('LinDeformFixedDisp.inverse', op.inverse, -1)):
                    ctx.ev('resampling')
                    res = np.asarray(o(templ))
                    for ix in np.ndindex(*sp.shape):
                        pnt = [cvs[a][ix[a]] + sign * np.asarray(disp[a])[ix] for a in range(nd)]
                        if any(x < cv[0] or x > cv[-1] for x, cv in zip(pnt, cvs)) and 'nearest' in schemes:
                            continue
                        acc = ref_vals(f, cvs, pnt, schemes)
                        if not any(abs(res[ix] - a) <= 1e-12 * max(1.0, np.abs(f).max()) for a in acc):
                            ctx.violation(oname, cfg, 'value!=multilinear-model', point=pnt, got=res[ix], ref=acc[0])
                            break
                ctx.ev('resampling')
                jac = np.exp(-np.asarray(odl.Divergence(domain=disp.space, method='forward', pad_mode='symmetric')(disp)))
                adj = np.asarray(op.adjoint(templ))
                if not np.allclose(adj, jac * np.asarray(op.inverse(templ)), rtol=1e-12, atol=1e-12):
                    ctx.violation('LinDeformFixedDisp.adjoint', cfg, 'value!=jacobian*inverse')
            except Exception as e:
                ctx.violation('LinDeformFixedDisp', cfg, 'raises:' + type(e).__name__, message=str(e)[:200])


def run_lindeform_templ(ctx):
    """LinDeformFixedTempl(template, interp=...): op(v) is the template interpolated with the given per-axis schemes at
    x + v(x); op.derivative(v)(u) = sum_a [grad_a template](x + v(x)) u_a(x) with the template gradient (central differences,
    symmetric padding, as documented in the code) sampled with the *same* schemes."""
    from odl.deform import LinDeformFixedTempl
    rng = ctx.rng('lindeform-templ')
    idx = 40000
    for nd in (1, 2):
        for schemes in [s_ for s_ in itertools.product(['nearest', 'linear'], repeat=nd)]:
            idx += 1
            if not ctx.mine(idx):
                continue
            sp = odl.uniform_discr([0.0] * nd, [1.0, 2.0][:nd], (6, 5)[:nd])
            interp = schemes[0] if len(set(schemes)) == 1 else list(schemes)
            cfg = '%dd;%s' % (nd, 'mixed' if len(set(schemes)) > 1 else schemes[0])
            ctx.case('LinDeformFixedTempl;' + cfg, 0)
            try:
                h = sp.cell_sides
                templ = util.rand_element(sp, rng)
                op = LinDeformFixedTempl(templ, interp=interp)
                disp = op.domain.element([sp.element(rng.uniform(0.2, 0.4, size=sp.shape) * rng.choice([-1, 1], size=sp.shape) * h[a]) for a in range(nd)])
                u = util.rand_element(op.domain, rng)
                cvs = [np.asarray(cv) for cv in sp.grid.coord_vectors]
                gt = odl.Gradient(domain=sp, method='central', pad_mode='symmetric')(templ)
                got_val = np.asarray(op(disp))
                got_der = np.asarray(op.derivative(disp)(u))
                ctx.ev('resampling', 2)
                bad_v = bad_d = None
                for ix in np.ndindex(*sp.shape):
                    pnt = [cvs[a][ix[a]] + np.asarray(disp[a])[ix] for a in range(nd)]
                    if any(x < cv[0] or x > cv[-1] for x, cv in zip(pnt, cvs)) and 'nearest' in schemes:
                        continue
                    acc = ref_vals(np.asarray(templ), cvs, pnt, schemes)
                    if bad_v is None and not any(abs(got_val[ix] - a) <= 1e-12 * max(1.0, np.abs(np.asarray(templ)).max()) for a in acc):
                        bad_v = (pnt, got_val[ix], acc[0])
                    # at exact ties of the nearest rule either neighbour is accepted, per gradient component
                    accs = [ref_vals(np.asarray(gt[a]), cvs, pnt, schemes) for a in range(nd)]
                    cands = [sum(c[a] * np.asarray(u[a])[ix] for a in range(nd)) for c in itertools.product(*accs)]
                    scale = max(1.0, max(np.abs(np.asarray(g)).max() for g in gt))
                    if bad_d is None and not any(abs(got_der[ix] - c) <= 1e-11 * scale for c in cands):
                        bad_d = (pnt, got_der[ix], cands[0])
                if bad_v:
                    ctx.violation('LinDeformFixedTempl', cfg, 'value!=multilinear-model', point=bad_v[0], got=bad_v[1], ref=bad_v[2])
                if bad_d:
                    ctx.violation('LinDeformFixedTempl.derivative', cfg, 'value!=interpolated-template-gradient', point=bad_d[0], got=bad_d[1], ref=bad_d[2])
            except Exception as e:
                ctx.violation('LinDeformFixedTempl', cfg, 'raises:' + type(e).__name__, message=str(e)[:200])


def run(ctx):
    ctx.note('rule', 'interpolation: one case = (interpolator kind, per-axis scheme tuple, dimension, uniform/non-uniform, '
                     'value dtype, repetition) evaluated at 7 point kinds and through 3 calling conventions; sampling: one '
                     'case = (callable kind, space); all scheme tuples (2^n) and callable kinds are enumerated; a third of the grids lie far '
                     'from the origin (offset ~1e3, cells ~1e-2); Resampling in 1-3d with every scheme tuple and its inverse / adjoint; distinct = '
                     'distinct case keys')
    cov = cover.Cover()
    for name in ('_find_indices', '_compute_nearest_weights_edge', '_compute_linear_weights_edge', '_create_weight_edge_lists',
                 '_normalize_interp', 'nearest_interpolator', 'linear_interpolator', 'per_axis_interpolator', 'point_collocation',
                 'make_func_for_sampling', '_check_func_out_arg', '_func_out_type'):
        cov.add(getattr(discr_utils, name, None), name)
    for cname in ('_Interpolator', '_NearestInterpolator', '_LinearInterpolator', '_PerAxisInterpolator'):
        cov.add(getattr(discr_utils, cname, None), cname)
    cov.arm()
    run_interpolators(ctx)
    run_single_node_axis(ctx)
    run_sampling(ctx)
    run_resampling(ctx)
    run_lindeform_ops(ctx)
    run_lindeform_templ(ctx)
    if ctx.shard == 0:
        run_nonnumeric(ctx)
    cov.disarm()
    n_exec, n_hit, unreached = cov.report()
    ctx.note('line_coverage', {'executable': n_exec, 'hit': n_hit})
    for u in unreached:
        ctx.note_set('unreached_lines', u)
