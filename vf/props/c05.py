"""C05 -- every exposed adjoint satisfies <Ax,y> = <x,A*y> in the spaces' own inner products.

Deciding monitors
  gram-identity   : A on every real-linear basis vector of the domain, A.adjoint on every one of the range;
                    M1[i,j] = Re<A x_j, y_i>_ran vs M2[i,j] = Re<x_j, A* y_i>_dom with the spaces' own inner
                    products -> decides the identity for all x, y (given linearity, which is sampled).
  adjoint-typing  : adjoint.domain == range, adjoint.range == domain, adjoint is an Operator.
  adjoint-adjoint : A.adjoint.adjoint acts like A on the basis.
  linearity       : A(a x + y) = a A(x) + A(y) for real a, for A and A* (licenses the basis argument).
Failed identities are classified by the weaker facts "plain conjugate transpose" / "holds without
boundary fractions" (mechanism: missing weighting correction) -- see vf/adjoint.py.
"""

import numpy as np
import odl
from odl.operator.operator import Operator

from .. import adjoint, cover, registry, util
from . import c04

SHARDS = {'quick': 4, 'thorough': 16}
THOROUGH_ROUNDS = 4

EXEMPT = ('Resampling', 'RayTransform', 'LinDeform')   # documented approximate adjoints


def split_name(name):
    parts = name.split('/')
    if parts[0] == 'expr':
        return 'expr:' + parts[1], '/'.join(parts[2:-1]), parts[-1]
    return parts[0], '/'.join(parts[1:-1]), parts[-1]


def check_operator(ctx, name, A, rng, comp=None, variant=None, lin_tol=1e-9):
    if comp is None:
        comp, variant, _tag = split_name(name)
    if not A.is_linear:
        ctx.skip('not linear (affine variant)')
        return
    try:
        At = A.adjoint
    except (odl.OpNotImplementedError, NotImplementedError):
        ctx.skip('no adjoint offered')
        return
    except Exception as e:
        ctx.ev('adjoint-typing')
        ctx.violation(comp, variant, 'adjoint-raises:' + type(e).__name__, name=name, message=str(e)[:200])
        return
    ctx.ev('adjoint-typing')
    rel = adjoint.weights_relation(A.domain, A.range)
    cfgv = '%s;%s' % (variant, rel) if variant else rel
    if not isinstance(At, Operator):
        ctx.violation(comp, cfgv, 'adjoint-not-an-operator', name=name, got=type(At).__name__)
        return
    ctx.case('adjoint;%s;%s' % (comp, variant), name)
    if At.domain != A.range:
        ctx.violation(comp, cfgv, 'adjoint-domain!=range', name=name, got=util.srepr(At.domain, 80), want=util.srepr(A.range, 80))
        return
    if At.range != A.domain:
        ctx.violation(comp, cfgv, 'adjoint-range!=domain', name=name, got=util.srepr(At.range, 80), want=util.srepr(A.domain, 80))
        return
    if not At.is_linear:
        ctx.violation(comp, cfgv, 'adjoint-not-flagged-linear', name=name)
    if util.real_dim(A.domain) > 40 or util.real_dim(A.range) > 40:
        ctx.skip('space too large for the full Gram matrix')
        return
    try:
        # linearity (real scalars) of A and A*
        ctx.ev('linearity')
        for op, side in ((A, 'operator'), (At, 'adjoint')):
            x = util.rand_element(op.domain, rng)
            y = util.rand_element(op.domain, rng)
            a = 1.7
            lhs = util.to_cvec(op.range, op(a * x + y))
            rhs = a * util.to_cvec(op.range, op(x)) + util.to_cvec(op.range, op(y))
            if not np.allclose(lhs, rhs, rtol=lin_tol, atol=lin_tol * max(1.0, np.abs(rhs).max() if rhs.size else 1.0)):
                ctx.violation(comp, cfgv, side + '-not-additive', name=name)
                return
        ctx.ev('gram-identity')
        rep = adjoint.gram_report(A, At)
        if rep['relerr'] > 1e-10:
            kind = adjoint.failure_kind(rep)
            if kind == 'identity-fails/not-a-transpose' and adjoint.adjoint_is_inverse(A, At):
                # Fourier-type: the adjoint offered is the inverse, which is not the adjoint in these spaces
                ctx.violation(comp, 'adjoint-is-the-inverse', 'identity-fails/inverse-is-not-the-adjoint-in-these-spaces',
                              name=name, relerr=rep['relerr'])
            elif kind == 'identity-fails/not-a-transpose':
                ctx.violation(comp, cfgv, kind, name=name, relerr=rep['relerr'])
            else:
                ctx.violation(comp, rel, kind, name=name, relerr=rep['relerr'])
        # adjoint of the adjoint
        ctx.ev('adjoint-adjoint')
        try:
            Att = At.adjoint
            if not isinstance(Att, Operator):
                ctx.violation(comp, cfgv, 'adjoint.adjoint-not-an-operator', name=name)
            else:
                sc = max([1.0] + [float(np.abs(util.to_cvec(A.range, ax)).max()) for ax in rep['AX'] if util.to_cvec(A.range, ax).size])
                d = max([0.0] + [float(np.abs(util.to_cvec(A.range, Att(x)) - util.to_cvec(A.range, ax)).max())
                                 for x, ax in zip(rep['X'], rep['AX']) if util.to_cvec(A.range, ax).size])
                if d > 1e-10 * sc:
                    ctx.violation(comp, cfgv, 'adjoint.adjoint-differs', name=name, maxdiff=d)
                if Att.domain != A.domain or Att.range != A.range:
                    ctx.violation(comp, cfgv, 'adjoint.adjoint-domain/range', name=name)
        except (odl.OpNotImplementedError, NotImplementedError):
            ctx.skip('adjoint has no adjoint')
        except Exception as e:
            ctx.violation(comp, cfgv, 'adjoint.adjoint-raises:' + type(e).__name__, name=name, message=str(e)[:200])
    except Exception as e:
        ctx.violation(comp, cfgv, 'raises:' + type(e).__name__, name=name, message=str(e)[:300])


def wrapper_rules(ctx, name, A, rng):
    """The arithmetic wrappers' adjoints follow the algebraic rules *relative to the adjoint the leaf offers*:
    (sA)* = conj(s) A*, (As)* = conj(s) A*, (A+A)* = 2A*, (-A)* = -A*, (vA)* = A*(conj(v) .), (Aw)* = conj(w) A*(.),
    (BA)* = A* B*.  Independent of whether the leaf's own adjoint is exact, so listed leaf findings do not propagate."""
    comp0, variant, _tag = split_name(name)
    if not A.is_linear or util.is_field(A.range) or util.is_field(A.domain):
        return
    try:
        At = A.adjoint
    except Exception:
        return
    if util.real_dim(A.domain) > 200 or util.real_dim(A.range) > 200:
        return
    cplx = (getattr(A.range, 'field', None) == odl.ComplexNumbers()) and (getattr(A.domain, 'field', None) == odl.ComplexNumbers())
    s = (1.5 - 0.5j) if cplx else -2.5
    rc = getattr(A.range, 'field', None) == odl.ComplexNumbers()
    dc = getattr(A.domain, 'field', None) == odl.ComplexNumbers()
    try:
        v = util.rand_element(A.range, rng)
        w = util.rand_element(A.domain, rng)
    except Exception:
        return
    rules = [('s*', lambda: s * A, lambda y: np.conj(s) * At(y)),
             ('*s', lambda: A * s, lambda y: np.conj(s) * At(y)),
             ('+op', lambda: A + A, lambda y: 2 * At(y)),
             ('neg', lambda: -A, lambda y: -1 * At(y)),
             ('v*', lambda: v * A, lambda y: At(v.conj() * y if rc else v * y)),
             ('*w', lambda: A * w, lambda y: (w.conj() if dc else w) * At(y)),
             ('Bo', lambda: odl.MultiplyOperator(v, domain=A.range, range=A.range) * A,
              lambda y: At(odl.MultiplyOperator(v, domain=A.range, range=A.range).adjoint(y))),
             ('oB', lambda: A * odl.MultiplyOperator(w, domain=A.domain, range=A.domain),
              lambda y: odl.MultiplyOperator(w, domain=A.domain, range=A.domain).adjoint(At(y))),
             ('s*(+op)*s', lambda: (s * (A + A)) * s, lambda y: np.conj(s) * np.conj(s) * 2 * At(y))]
    for tag, mk, rule in rules:
        try:
            W = mk()
        except Exception:
            continue    # the wrapper is not offered for this leaf (checked by C04)
        ctx.ev('wrapper-adjoint-rule')
        ctx.case('wrapper-rule;%s;%s' % (comp0, tag), name)
        cfg = '%s;%s' % ('complex' if cplx else 'real', adjoint.weights_relation(A.domain, A.range))
        try:
            Wt = W.adjoint
        except (odl.OpNotImplementedError, NotImplementedError):
            ctx.skip('wrapper offers no adjoint')
            continue
        except Exception as e:
            ctx.violation('wrapper:' + tag, cfg, 'adjoint-raises:' + type(e).__name__, name=name, message=str(e)[:200])
            continue
        try:
            if Wt.domain != A.range or Wt.range != A.domain:
                ctx.violation('wrapper:' + tag, cfg, 'adjoint-domain/range', name=name)
                continue
            for _ in range(2):
                y = util.rand_element(A.range, rng)
                got = util.to_cvec(A.domain, Wt(y))
                ref = util.to_cvec(A.domain, rule(y))
                if not np.allclose(got, ref, rtol=1e-10, atol=1e-10 * max(1.0, float(np.abs(ref).max()) if ref.size else 1.0)):
                    ctx.violation('wrapper:' + tag, cfg, 'adjoint!=rule-applied-to-leaf-adjoint', name=name,
                                  maxdiff=float(np.abs(got - ref).max()))
                    break
        except Exception as e:
            ctx.violation('wrapper:' + tag, cfg, 'raises:' + type(e).__name__, name=name, message=str(e)[:200])


def run_registry(ctx):
    rng = ctx.rng('registry')
    crng = ctx.crng('registry-ctor')
    for i, (name, thunk) in enumerate(registry.linear_population(crng, ctx.thorough)):
        if not ctx.mine(i):
            continue
        if any(name.startswith(e) for e in EXEMPT):
            continue
        comp, variant, tag = split_name(name)
        try:
            A = thunk()
        except Exception as e:
            ctx.ev('adjoint-typing')
            ctx.violation(comp, variant, 'ctor-raises:' + type(e).__name__, name=name, message=str(e)[:200])
            continue
        if i % 61 == 0:
            ctx.sample({'operator': name, 'domain': util.srepr(A.domain, 80), 'range': util.srepr(A.range, 80)})
        check_operator(ctx, name, A, rng)
        wrapper_rules(ctx, name, A, rng)


def run_explicit_spaces(ctx):
    """Operators built with an explicitly given second space that is *not* the default one: a single-precision twin of the
    domain on dyadic grids (all stencil values are exactly representable, so the Gram matrices stay exact), and block
    operators with an explicitly given constant-weighted product space (refused today: if one is accepted, its adjoint has to
    satisfy the identity in those weighted spaces)."""
    rng = ctx.rng('explicit-spaces')
    recipes = []
    for n, sp in (('d4', odl.uniform_discr(0, 2, 4)), ('d24', odl.uniform_discr([0, 0], [1, 2], (2, 4))), ('d4c', odl.uniform_discr(0, 2, 4, dtype=complex))):
        lo = sp.astype('complex64' if sp.is_complex else 'float32')
        for pad in ('constant', 'symmetric', 'periodic', 'order0'):
            recipes.append(('Laplacian/range=single-twin/%s/%s' % (pad, n), lambda sp=sp, lo=lo, pad=pad: odl.Laplacian(sp, range=lo, pad_mode=pad)))
            recipes.append(('PartialDerivative/range=single-twin/%s/%s' % (pad, n), lambda sp=sp, lo=lo, pad=pad: odl.PartialDerivative(sp, axis=sp.ndim - 1, range=lo, pad_mode=pad)))
            recipes.append(('Gradient/range=single-twin/%s/%s' % (pad, n), lambda sp=sp, lo=lo, pad=pad: odl.Gradient(sp, range=lo ** sp.ndim, pad_mode=pad)))
            recipes.append(('Divergence/range=single-twin/%s/%s' % (pad, n), lambda sp=sp, lo=lo, pad=pad: odl.Divergence(domain=sp ** sp.ndim, range=lo, pad_mode=pad)))
            recipes.append(('Laplacian/domain=single-twin/%s/%s' % (pad, n), lambda sp=sp, lo=lo, pad=pad: odl.Laplacian(lo, range=sp, pad_mode=pad)))
    r3, r2 = odl.rn(3), odl.rn(2)
    A = odl.MatrixOperator(rng.normal(size=(2, 3)), r3, r2)
    B = odl.MatrixOperator(rng.normal(size=(3, 3)), r3, r3)
    I2 = odl.IdentityOperator(r2)
    for wd, wr in ((2.5, None), (None, 0.4), (2.5, 2.5), (2.5, 0.4)):
        kw = {}
        if wd is not None:
            kw['domain'] = odl.ProductSpace(r3, r2, weighting=wd)
        if wr is not None:
            kw['range'] = odl.ProductSpace(r2, r3, weighting=wr)
        tag = 'dom-w=%s;ran-w=%s' % (wd, wr)
        recipes.append(('ProductSpaceOperator/explicit-const-weighted/' + tag, lambda kw=kw: odl.ProductSpaceOperator([[A, 0], [B, 0]], **kw)))
        recipes.append(('ProductSpaceOperator/explicit-const-weighted-full/' + tag, lambda kw=kw: odl.ProductSpaceOperator([[A, I2], [B, A.adjoint]], **kw)))
    for wd in (2.5, 0.4):
        recipes.append(('DiagonalOperator/explicit-const-weighted/dom-w=%s' % wd,
                        lambda wd=wd: odl.DiagonalOperator(A, I2, domain=odl.ProductSpace(r3, r2, weighting=wd))))
    for i, (name, thunk) in enumerate(recipes):
        if not ctx.mine(i):
            continue
        try:
            op = thunk()
        except (NotImplementedError, odl.OpNotImplementedError):
            ctx.skip('construction with these explicit spaces is refused (not implemented)')
            continue
        except Exception as e:
            ctx.ev('adjoint-typing')
            ctx.violation(name.split('/')[0], '/'.join(name.split('/')[1:-1]), 'ctor-raises:' + type(e).__name__, name=name, message=str(e)[:200])
            continue
        check_operator(ctx, name, op, rng, lin_tol=1e-5 if 'single-twin' in name else 1e-9)


def run_derivatives(ctx):
    """Derivatives of the non-linear operators are linear operators that return adjoints (between a complex and a real space
    for the modulus operators: compared in real part): the same contract applies to them."""
    rng = ctx.rng('derivatives')
    crng = ctx.crng('derivatives-ctor')
    for i, (name, thunk) in enumerate(registry.nonlinear_population(crng, ctx.thorough)):
        if not ctx.mine(i):
            continue
        if any(e in name for e in EXEMPT):
            continue
        try:
            op = thunk()
            if registry.needs_positive(name):
                x = registry.rel(op.domain, rng, True)
            else:
                x = util.rand_element(op.domain, rng)
            D = op.derivative(x)
            D.adjoint
        except Exception:
            continue        # no derivative / no adjoint offered here: C06's and C03's business
        if not isinstance(D, Operator) or not D.is_linear:
            continue
        comp, variant, _tag = split_name(name)
        ctx.case('derivative-of;' + name, 0)
        check_operator(ctx, name + '.derivative(x)', D, rng, comp=comp + '.derivative(x)', variant=variant, lin_tol=1e-7)


def run_trees(ctx):
    """Random linear expression trees from the C04 generator (linear leaves only)."""
    rng = ctx.rng('trees')
    n = ctx.reps(120, 1200)
    for t in range(n):
        field = 'C' if rng.random() < 0.5 else 'R'
        env = c04.Env(field, rng)
        lin_leaves = [l for l in env.leaves() if l[5]]
        env.leaves = lambda lin_leaves=lin_leaves: lin_leaves
        depth = int(rng.integers(1, ctx.reps(4, 6)))
        try:
            node, trail = c04.gen_tree(env, depth, rng)
        except Exception as e:
            continue
        op = node[0]
        if not op.is_linear or not trail:
            continue
        comp = 'tree:%s(%s)' % (trail[-1], trail[-2] if len(trail) > 1 else 'leaf')
        check_operator(ctx, node[3], op, rng, comp=comp, variant=field)


def run(ctx):
    ctx.note('rule', 'one case = one linear operator instance (class x construction variant x space: real/complex, none/'
                     'const/array weighting, boundary nodes, product spaces) decided on full bases of domain and range '
                     '(<= 40 real dimensions); plus seeded random linear expression trees; plus 9 arithmetic wrappers per leaf whose '
                     'adjoint must equal the algebraic rule applied to the leaf adjoint; distinct = distinct recipe '
                     'names / expression texts')
    ctx.note('exempt', list(EXEMPT))
    cov = cover.Cover()
    from odl.operator import operator as opm, default_ops, tensor_ops, pspace_ops
    from odl.discr import diff_ops, discr_ops
    from odl.trafos import fourier, wavelet
    for mod in (opm, default_ops, tensor_ops, pspace_ops, diff_ops, discr_ops, fourier, wavelet):
        for cname, c in vars(mod).items():
            if isinstance(c, type) and issubclass(c, Operator) and c.__module__ == mod.__name__:
                cov.add(vars(c).get('adjoint'), '%s.adjoint' % cname)
    cov.arm()
    run_registry(ctx)
    run_explicit_spaces(ctx)
    run_derivatives(ctx)
    run_trees(ctx)
    cov.disarm()
    n_exec, n_hit, unreached = cov.report()
    ctx.note('line_coverage', {'executable': n_exec, 'hit': n_hit})
    for u in unreached:
        ctx.note_set('unreached_lines', u)
