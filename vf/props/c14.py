"""C14 -- partitions tile their domain: cells, nodes, indices and slices stay consistent.

Deciding monitors
  tiling-invariant   : structural invariants, evaluated on *every* RectPartition constructed anywhere
                       in the workload (post-condition on RectPartition.__init__) and explicitly on
                       every partition the workload obtains.
  uniform-model      : cell side x (n - boundary nodes/2) == extent, nodes_on_bdry reproduced,
                       parameter-subset equivalence, fromintv / fromgrid.
  index-model        : index(p) / index(p, floating=True) against a searchsorted-free model.
  slice-model        : grid points / cell boundaries of sub-partitions, insert / append / squeeze / byaxis.
"""

import functools
import itertools

import numpy as np
import odl
from odl.discr import partition as pmod
from odl.discr.partition import RectPartition

from .. import cover, util

SHARDS = {'quick': 4, 'thorough': 16}
THOROUGH_ROUNDS = 4


def axcls(p, ax):
    n = p.shape[ax]
    return 'len1' if n == 1 else ('len2' if n == 2 else 'len>=3')


def tiling(ctx, p, origin):
    """Structural invariants of one partition. `origin` names how it was obtained."""
    ctx.ev('tiling-invariant')
    try:
        bvs = p.cell_boundary_vecs
        cvs = p.grid.coord_vectors
        csv = p.cell_sizes_vecs
        fr = p.boundary_cell_fractions
        for ax in range(p.ndim):
            b = np.asarray(bvs[ax])
            cv = np.asarray(cvs[ax])
            cfg = '%s;%s;%s' % (origin, 'uniform' if p.is_uniform_byaxis[ax] else 'nonuniform', axcls(p, ax))
            comp = 'RectPartition'
            if len(cv) == 0:
                continue
            if len(b) != len(cv) + 1:
                ctx.violation(comp, cfg, 'boundary-count')
                continue
            if b[0] != p.min_pt[ax] or b[-1] != p.max_pt[ax]:
                ctx.violation(comp, cfg, 'boundaries-do-not-end-at-domain-limits', b=b, min=p.min_pt[ax], max=p.max_pt[ax])
            ext = p.max_pt[ax] - p.min_pt[ax]
            if ext > 0 and not np.all(np.diff(b) > 0):
                if not (len(cv) > 1 and (cv[0] == p.min_pt[ax] or cv[-1] == p.max_pt[ax]) and np.all(np.diff(b) >= 0) and False):
                    ctx.violation(comp, cfg, 'boundaries-not-strictly-increasing', b=b)
            if not (np.all(b[:-1] <= cv) and np.all(cv <= b[1:])):
                ctx.violation(comp, cfg, 'grid-point-outside-own-cell', b=b, cv=cv)
            cs = np.asarray(csv[ax])
            tol = 1e-12 * max(1.0, np.abs(b).max())
            if len(cs) != len(cv):
                ctx.violation(comp, cfg, 'cell_sizes-length')
            elif len(cv) == 1 and ext > 0 and cs[0] == 0.0:
                # one mechanism, one signature (independent of how the partition was obtained)
                ctx.violation('RectPartition.cell_sizes_vecs', 'length-1 axis', 'reports-0.0-instead-of-extent')
            else:
                if not np.allclose(cs, np.diff(b), rtol=0, atol=tol):
                    ctx.violation(comp, cfg, 'cell_sizes!=diff(boundaries)', cs=cs, diff=np.diff(b))
                if abs(cs.sum() - ext) > tol * len(cs):
                    ctx.violation(comp, cfg, 'cell_sizes-sum!=extent', sum=float(cs.sum()), extent=float(ext))
            if abs(np.diff(b).sum() - ext) > tol * len(cv):
                ctx.violation(comp, cfg, 'cells-do-not-cover-extent')
            # boundary_cell_fractions vs documented formula
            if len(cv) == 1:
                efl, efr = 1.0, 1.0
            else:
                efl = 0.5 + (cv[0] - p.min_pt[ax]) / (cv[1] - cv[0])
                efr = 0.5 + (p.max_pt[ax] - cv[-1]) / (cv[-1] - cv[-2])
            if not (np.isclose(fr[ax][0], efl, rtol=1e-12, atol=1e-12) and np.isclose(fr[ax][1], efr, rtol=1e-12, atol=1e-12)):
                ctx.violation(comp, cfg, 'boundary_cell_fractions', got=fr[ax], ref=(efl, efr))
    except Exception as e:
        ctx.violation('RectPartition', origin, 'raises:' + type(e).__name__, message=str(e)[:200])


class InitHook(object):
    def __init__(self, ctx):
        self.ctx = ctx
        self.origin = 'ctor'
        self.busy = False

    def install(self):
        h = self
        orig = RectPartition.__init__

        @functools.wraps(orig)
        def __init__(self, *a, **kw):
            orig(self, *a, **kw)
            if not h.busy:
                h.busy = True
                try:
                    h.ctx.note_add('partitions_seen_by_init_hook')
                    tiling(h.ctx, self, 'hook:' + h.origin)
                finally:
                    h.busy = False
        RectPartition.__init__ = __init__


def nob_arg(nob, nd):
    return nob if nd > 1 else [nob[0]]


def ref_index(b, val, n):
    """Cell containing val: right cell on interior edges, last cell at the upper limit."""
    k = int(np.sum(b[1:-1] <= val))      # number of interior boundaries <= val
    k = min(k, n - 1)
    if b[k + 1] > b[k]:
        fl = k + (val - b[k]) / (b[k + 1] - b[k])
    else:
        fl = float(k)
    return k, fl


def check_index(ctx, p, rng, origin):
    nd = p.ndim
    mn, mx = np.asarray(p.min_pt, float), np.asarray(p.max_pt, float)
    bvs = [np.asarray(b) for b in p.cell_boundary_vecs]
    for rep in range(7):
        pt = rng.uniform(mn, mx)
        kind = 'interior'
        if rep == 0:
            pt = mn.copy()
            kind = 'lower-limit'
        elif rep == 1:
            pt = mx.copy()
            kind = 'upper-limit'
        elif rep == 2:
            ax = int(rng.integers(nd))
            if len(bvs[ax]) > 2:
                pt[ax] = bvs[ax][int(rng.integers(1, len(bvs[ax]) - 1))]
                kind = 'interior-edge'
        elif rep == 3:
            ax = int(rng.integers(nd))
            pt[ax] = p.grid.coord_vectors[ax][int(rng.integers(p.shape[ax]))]
            kind = 'node'
        cfg = '%s;%s' % (origin, kind)
        ctx.ev('index-model')
        try:
            arg = pt if nd > 1 else pt[0]
            idx = p.index(arg)
            fl = p.index(arg, floating=True)
            idx = (idx,) if nd == 1 else idx
            fl = (fl,) if nd == 1 else fl
            for ax in range(nd):
                b = bvs[ax]
                k, f = ref_index(b, pt[ax], p.shape[ax])
                if not (0 <= idx[ax] < p.shape[ax]):
                    ctx.violation('index', cfg, 'out-of-range', idx=idx[ax], n=p.shape[ax])
                    continue
                if not (b[idx[ax]] <= pt[ax] <= b[idx[ax] + 1]):
                    ctx.violation('index', cfg, 'point-not-in-returned-cell', pt=pt[ax], b=b, idx=idx[ax])
                elif idx[ax] != k:
                    ctx.violation('index', cfg, 'wrong-cell-on-edge', pt=pt[ax], b=b, idx=idx[ax], ref=k)
                if not np.isclose(fl[ax], f, atol=1e-9, rtol=1e-9):
                    ctx.violation('index', cfg, 'floating-index', got=fl[ax], ref=f, pt=pt[ax], b=b)
                if not isinstance(idx[ax], (int, np.integer)):
                    ctx.violation('index', cfg, 'index-not-int', type=type(idx[ax]).__name__)
        except Exception as e:
            ctx.violation('index', cfg, 'raises:' + type(e).__name__, message=str(e)[:200])


def rand_index(rng, k):
    c = int(rng.integers(6))
    if c == 0:
        return int(rng.integers(-k, k)), 'int'
    if c == 1:
        a = int(rng.integers(0, k))
        return slice(a, int(rng.integers(a + 1, k + 1))), 'slice'
    if c == 2:
        return slice(None), 'slice'
    if c == 3:
        a = int(rng.integers(0, k))
        return slice(a, None, int(rng.integers(1, 4))), 'stepslice'
    if c == 4:
        a = int(rng.integers(0, k))
        e = int(rng.integers(a + 1, k + 1))
        return slice(a - k, e if rng.random() < 0.5 else e - k - 1 if e - k - 1 < 0 and (e - k - 1) % k > a else e, None), 'negslice'
    a = int(rng.integers(0, k))
    return slice(None, a + 1, int(rng.integers(1, 3))), 'stepslice'


def check_slicing(ctx, p, rng, origin):
    nd = p.ndim
    shape = p.shape
    idxs, kinds = [], []
    for k in shape:
        ix, kd = rand_index(rng, k)
        idxs.append(ix)
        kinds.append(kd)
    use_ellipsis = nd > 1 and rng.random() < 0.3
    expr = tuple(idxs)
    if use_ellipsis:
        # replace a run of full slices by an ellipsis where possible
        cut = int(rng.integers(1, nd + 1))
        expr = tuple(idxs[:cut]) + (Ellipsis,)
        idxs = idxs[:cut] + [slice(None)] * (nd - cut)
        kinds = kinds[:cut] + ['slice'] * (nd - cut)
    cfg = '%s;%s' % (origin, '+'.join(sorted(set(kinds))) + (',ellipsis' if use_ellipsis else ''))
    ctx.ev('slice-model')
    try:
        sub = p[expr] if (nd > 1 or use_ellipsis) else p[expr[0]]
    except Exception as e:
        sel0 = [np.arange(s)[ix] if isinstance(ix, slice) else np.array([np.arange(s)[ix]]) for s, ix in zip(shape, idxs)]
        if any(len(s) == 0 for s in sel0):
            ctx.skip('empty selection')
            return
        ctx.violation('__getitem__', cfg, 'raises:' + type(e).__name__, message=str(e)[:200], idx=str(expr))
        return
    tiling(ctx, sub, 'slice')
    for ax, ix in enumerate(idxs):
        sel = np.arange(shape[ax])[ix] if isinstance(ix, slice) else np.array([np.arange(shape[ax])[ix]])
        if len(sel) == 0:
            continue
        if not np.array_equal(sub.grid.coord_vectors[ax], p.grid.coord_vectors[ax][sel]):
            ctx.violation('__getitem__', cfg, 'grid-points!=selected', idx=str(expr))
        b = np.asarray(p.cell_boundary_vecs[ax])
        sb = np.asarray(sub.cell_boundary_vecs[ax])
        step = ix.step if isinstance(ix, slice) and ix.step else 1
        if step == 1:
            if not np.array_equal(sb, b[sel[0]:sel[-1] + 2]):
                ctx.violation('__getitem__', cfg, 'cells!=selected-cells', idx=str(expr), got=sb, ref=b[sel[0]:sel[-1] + 2])
        else:
            # documented: stride does not change the hull of the un-stepped slice
            full = np.arange(shape[ax])[slice(ix.start, ix.stop, None)]
            if sb[0] != b[full[0]] or sb[-1] != b[full[-1] + 1]:
                ctx.violation('__getitem__', cfg, 'stepped-slice-hull', idx=str(expr), got=(sb[0], sb[-1]), ref=(b[full[0]], b[full[-1] + 1]))
    # list index along first axis (entries may be negative, as for NumPy arrays; kept in increasing cell order)
    if shape[0] >= 2 and rng.random() < 0.6:
        lst = sorted(set(int(i) for i in rng.integers(0, shape[0], size=int(rng.integers(1, 4)))))
        neg = rng.random() < 0.5
        if neg:
            # write some (the last ones, possibly all) entries as negative indices
            kneg = int(rng.integers(1, len(lst) + 1))
            lst_given = lst[:len(lst) - kneg] + [i - shape[0] for i in lst[len(lst) - kneg:]]
        else:
            lst_given = list(lst)
        ctx.ev('slice-model')
        lcfg = origin + (';list-with-negative-entries' if neg else ';list')
        try:
            subl = p[lst_given]
            tiling(ctx, subl, 'listindex')
            if not np.array_equal(subl.grid.coord_vectors[0], p.grid.coord_vectors[0][lst]):
                ctx.violation('__getitem__', lcfg, 'grid-points!=selected', idx=str(lst_given))
            b = np.asarray(p.cell_boundary_vecs[0])
            sb = np.asarray(subl.cell_boundary_vecs[0])
            if sb[0] != b[lst[0]] or sb[-1] != b[lst[-1] + 1]:
                ctx.violation('__getitem__', lcfg, 'hull', idx=str(lst_given), got=(float(sb[0]), float(sb[-1])), ref=(float(b[lst[0]]), float(b[lst[-1] + 1])))
        except Exception as e:
            ctx.violation('__getitem__', lcfg, 'raises:' + type(e).__name__, message=str(e)[:200], idx=str(lst_given))


def check_index_refusal(ctx, p, rng, origin):
    """An integer index outside [-n, n) selects no cell: it must be refused (IndexError), never answered with another cell."""
    shape = p.shape
    ax = int(rng.integers(0, p.ndim))
    n = shape[ax]
    for bad in (n, n + 3, -n - 1, -n - 2, -2 * n - 1):
        expr = tuple(bad if a == ax else slice(None) for a in range(p.ndim))
        ctx.ev('slice-model')
        try:
            sub = p[expr] if p.ndim > 1 else p[bad]
        except IndexError:
            continue
        except Exception as e:
            ctx.violation('__getitem__', origin + ';int-out-of-range', 'wrong-exception:' + type(e).__name__, idx=str(expr), message=str(e)[:200])
            continue
        ctx.violation('__getitem__', origin + ';int-out-of-range', 'bad-input-accepted', idx=str(expr), n=n, got=util.srepr(sub, 100))


def check_structure_ops(ctx, p, rng, origin):
    nd = p.ndim
    shape = p.shape
    ctx.ev('slice-model')
    try:
        sq = p.squeeze()
        tiling(ctx, sq, 'squeeze')
        keep = [i for i in range(nd) if shape[i] > 1]
        if sq.shape != tuple(shape[i] for i in keep):
            ctx.violation('squeeze', origin, 'shape')
        for j, i in enumerate(keep):
            if not np.array_equal(sq.cell_boundary_vecs[j], p.cell_boundary_vecs[i]):
                ctx.violation('squeeze', origin, 'cells-differ')
        if nd > 1:
            perm = list(rng.permutation(nd))
            ba = p.byaxis[perm]
            tiling(ctx, ba, 'byaxis')
            for j, i in enumerate(perm):
                if not np.array_equal(ba.cell_boundary_vecs[j], p.cell_boundary_vecs[i]):
                    ctx.violation('byaxis', origin, 'cells-differ')
            ba1 = p.byaxis[int(perm[0])]
            if not np.array_equal(ba1.cell_boundary_vecs[0], p.cell_boundary_vecs[perm[0]]):
                ctx.violation('byaxis', origin, 'cells-differ')
            bas = p.byaxis[1:]
            if bas.ndim != nd - 1 or not np.array_equal(bas.cell_boundary_vecs[0], p.cell_boundary_vecs[1]):
                ctx.violation('byaxis', origin, 'slice-cells-differ')
        other = odl.uniform_partition(0, 1, 3, nodes_on_bdry=bool(rng.integers(2)))
        pos = int(rng.integers(-nd, nd + 1))
        ins = p.insert(pos, other)
        tiling(ctx, ins, 'insert')
        ipos = pos if pos >= 0 else nd + pos
        exp = list(p.cell_boundary_vecs[:ipos]) + list(other.cell_boundary_vecs) + list(p.cell_boundary_vecs[ipos:])
        if ins.ndim != nd + 1 or not all(np.array_equal(a, b) for a, b in zip(ins.cell_boundary_vecs, exp)):
            ctx.violation('insert', origin, 'cells-differ', pos=pos)
        app = p.append(other, other)
        tiling(ctx, app, 'append')
        exp = list(p.cell_boundary_vecs) + list(other.cell_boundary_vecs) * 2
        if app.ndim != nd + 2 or not all(np.array_equal(a, b) for a, b in zip(app.cell_boundary_vecs, exp)):
            ctx.violation('append', origin, 'cells-differ')
    except Exception as e:
        ctx.violation('squeeze/byaxis/insert/append', origin, 'raises:' + type(e).__name__, message=str(e)[:200])


def rand_part(rng, nd):
    """Random uniform or non-uniform partition with per-axis distinct limits (so that mixed-up axes are visible)."""
    if rng.integers(2):
        mn = rng.uniform(-5, 5, size=nd)
        mx = mn + rng.uniform(0.3, 3, size=nd)
        shape = tuple(int(k) for k in rng.integers(1, 5, size=nd))
        nob = [(bool(rng.integers(2)), bool(rng.integers(2))) if k > 1 else (False, False) for k in shape]
        return odl.uniform_partition(mn, mx, shape, nodes_on_bdry=nob_arg(nob, nd))
    shape = tuple(int(k) for k in rng.integers(2, 5, size=nd))
    off = rng.uniform(-5, 5, size=nd)
    cvs = [np.sort(rng.uniform(0, 2, size=k)) + 0.05 * np.arange(k) + o for k, o in zip(shape, off)]
    return odl.nonuniform_partition(*cvs)


def check_multipart(ctx, p, rng, origin):
    """insert / append of several parts of mixed dimension (1-3 each): axis order, limits, grid and cells of the
    result are the concatenation of the parts' in order."""
    ctx.ev('slice-model')
    nparts = int(rng.integers(2, 4))
    dims = [int(rng.integers(1, 4)) for _ in range(nparts)]
    cfg = '%s;parts=%s' % (origin, 'all-1d' if all(d == 1 for d in dims) else ('multi-d-not-last' if any(d > 1 for d in dims[:-1]) else 'multi-d-last'))
    try:
        parts = [rand_part(rng, d) for d in dims]
    except Exception as e:
        ctx.note_add('monitor-exception:rand_part:' + type(e).__name__)
        return
    nd = p.ndim
    pos = int(rng.integers(-nd, nd + 1))
    ipos = pos if pos >= 0 else nd + pos
    for opname in ('insert', 'append'):
        try:
            if opname == 'insert':
                r = p.insert(pos, *parts)
                at = ipos
            else:
                r = p.append(*parts)
                at = nd
        except Exception as e:
            ctx.violation(opname, cfg, 'raises:' + type(e).__name__, message=str(e)[:200], dims=dims, pos=pos)
            continue
        tiling(ctx, r, opname + '-multipart')

        def cat(get):
            mid = [v for q in parts for v in get(q)]
            return list(get(p))[:at] + mid + list(get(p))[at:]
        ok = r.ndim == nd + sum(dims)
        ok = ok and all(np.array_equal(a, b) for a, b in zip(r.cell_boundary_vecs, cat(lambda q: q.cell_boundary_vecs)))
        ok = ok and all(np.array_equal(a, b) for a, b in zip(r.grid.coord_vectors, cat(lambda q: q.grid.coord_vectors)))
        ok = ok and np.array_equal(r.min_pt, np.array(cat(lambda q: q.min_pt))) and np.array_equal(r.max_pt, np.array(cat(lambda q: q.max_pt)))
        ok = ok and r.shape == tuple(cat(lambda q: q.shape))
        if not ok:
            ctx.violation(opname, cfg, 'cells-differ', dims=dims, pos=pos)


PART_PROPS = ('min_pt', 'max_pt', 'extent', 'cell_sides', 'cell_volume', 'cell_boundary_vecs', 'cell_sizes_vecs',
              'boundary_cell_fractions', 'shape', 'nodes_on_bdry_byaxis', 'is_uniform_byaxis')
GRID_PROPS = ('min_pt', 'max_pt', 'extent', 'stride', 'coord_vectors', 'shape', 'mid_pt')
SET_PROPS = ('min_pt', 'max_pt', 'extent', 'mid_pt', 'volume')


def _state(p):
    st = {}
    for obj, props, tag in ((p, PART_PROPS, 'partition.'), (p.grid, GRID_PROPS, 'grid.'), (p.set, SET_PROPS, 'set.')):
        for name in props:
            try:
                v = getattr(obj, name)
            except Exception as e:
                v = 'raises:' + type(e).__name__
            st[tag + name] = repr(np.array(v, dtype=object).tolist() if isinstance(v, tuple) else np.array(v).tolist())
    return st


def _arrays(v):
    if isinstance(v, np.ndarray):
        yield v
    elif isinstance(v, (tuple, list)):
        for u in v:
            for a in _arrays(u):
                yield a


def check_private_state(ctx, p, rng, origin):
    """What a partition reports must not depend on what was read before or on what a caller did with the arrays it was
    handed: (a) reading every property twice gives the same answers, (b) a second partition over the same grid object
    (length-1 axes get their cell side from the partition, not the grid) is not influenced by reads of the first,
    (c) writing into a returned (writeable) array does not change any reported quantity."""
    ctx.ev('private-state')
    s0 = _state(p)
    s1 = _state(p)
    for k in s0:
        if s0[k] != s1[k]:
            ctx.violation('RectPartition', 'read-twice', 'state-changed-by-reading', prop=k)
    # (b) two partitions sharing one grid object
    try:
        mn2 = p.min_pt - rng.uniform(0.5, 1.5, size=p.ndim)
        mx2 = p.max_pt + rng.uniform(0.5, 1.5, size=p.ndim)
        first, second = (odl.RectPartition(odl.IntervalProd(p.min_pt, p.max_pt), p.grid), odl.RectPartition(odl.IntervalProd(mn2, mx2), p.grid))
        if rng.integers(2):
            first, second = second, first
        _state(first)
        fresh = odl.RectPartition(second.set, odl.RectGrid(*[cv.copy() for cv in p.grid.coord_vectors]))
        a, b = _state(second), _state(fresh)
        for k in a:
            if a[k] != b[k]:
                ctx.violation('RectPartition', 'shared-grid;%s' % ('len1' if 1 in p.shape else 'len>=2'), 'state-depends-on-reads-of-another-partition', prop=k)
                break
        tiling(ctx, second, 'shared-grid')
    except Exception as e:
        ctx.violation('RectPartition', 'shared-grid', 'raises:' + type(e).__name__, message=str(e)[:200])
    # (c) writes into returned arrays
    q = odl.RectPartition(odl.IntervalProd(p.min_pt, p.max_pt), odl.RectGrid(*[cv.copy() for cv in p.grid.coord_vectors]))
    base = _state(q)
    for props, tag in ((PART_PROPS, 'partition.'), (GRID_PROPS, 'grid.'), (SET_PROPS, 'set.')):
        for name in props:
            obj = {'partition.': q, 'grid.': q.grid, 'set.': q.set}[tag]
            try:
                v = getattr(obj, name)
            except Exception:
                continue
            wrote = False
            for a in _arrays(v):
                if a.flags.writeable and a.size:
                    try:
                        a[...] = a * 2 + 1
                        wrote = True
                    except Exception:
                        pass
            if not wrote:
                continue
            after = _state(q)
            changed = [k for k in base if base[k] != after[k]]
            if changed:
                ctx.violation(tag + name, 'returned-array', 'write-through-to-internal-state', changed=changed[:4])
                # restore a clean object for the remaining properties
                q = odl.RectPartition(odl.IntervalProd(p.min_pt, p.max_pt), odl.RectGrid(*[cv.copy() for cv in p.grid.coord_vectors]))
                base = _state(q)


LIMITS = [('generic', lambda rng, nd: (rng.uniform(-3, 3, size=nd), rng.uniform(0.1, 4, size=nd))),
          ('negative', lambda rng, nd: (rng.uniform(-50, -40, size=nd), rng.uniform(0.5, 2, size=nd))),
          ('tiny', lambda rng, nd: (rng.uniform(-1e-6, 1e-6, size=nd), rng.uniform(1e-7, 1e-6, size=nd))),
          ('huge-offset', lambda rng, nd: (rng.uniform(1e6, 2e6, size=nd), rng.uniform(0.5, 3, size=nd))),
          ('integer', lambda rng, nd: (rng.integers(-3, 3, size=nd).astype(float), rng.integers(1, 5, size=nd).astype(float)))]


def run_uniform(ctx, hook):
    rng = ctx.rng('uniform')
    idx = 0
    nobs1 = [(False, False), (True, False), (False, True), (True, True)]
    for nd in (1, 2, 3):
        shapes = [(1,), (2,), (3,), (6,)] if nd == 1 else ([(1, 4), (3, 1), (2, 5), (4, 3)] if nd == 2 else [(2, 1, 3), (1, 1, 2), (3, 4, 2)])
        for shape in shapes:
            for nob in itertools.product(nobs1, repeat=nd):
                for lname, lfn in LIMITS:
                    idx += 1
                    if not ctx.mine(idx):
                        continue
                    if nd == 3 and not ctx.thorough and idx % 3:
                        continue
                    for rep in range(ctx.reps(1, 4)):
                        mn, ext = lfn(rng, nd)
                        mx = mn + ext
                        nob_l = [tuple(t) for t in nob]
                        cls = 'uniform;%dd;%s;len1=%s' % (nd, lname, any(s == 1 for s in shape))
                        ctx.case(cls, (shape, nob, rep))
                        hook.origin = 'uniform_partition'
                        ctx.ev('uniform-model')
                        try:
                            p = odl.uniform_partition(mn, mx, shape, nodes_on_bdry=nob_arg(nob_l, nd))
                        except Exception as e:
                            ctx.violation('uniform_partition', '%dd;%s' % (nd, lname), 'raises:' + type(e).__name__, message=str(e)[:200], shape=shape, nob=nob_l)
                            continue
                        if idx % 61 == 0:
                            ctx.sample({'uniform_partition': {'min_pt': mn, 'max_pt': mx, 'shape': shape, 'nodes_on_bdry': nob_l}})
                        tiling(ctx, p, 'uniform_partition')
                        for ax in range(nd):
                            k = shape[ax]
                            cfg = '%s;%s' % (lname, 'len1' if k == 1 else 'len>=2')
                            if k > 1:
                                eff = k - sum(nob_l[ax]) / 2
                                if not np.isclose(p.cell_sides[ax] * eff, p.extent[ax], rtol=1e-9):
                                    ctx.violation('uniform_partition', cfg, 'cell_side*count!=extent', shape=shape, nob=nob_l)
                                if tuple(p.nodes_on_bdry_byaxis[ax]) != tuple(nob_l[ax]):
                                    ctx.violation('uniform_partition', cfg, 'nodes_on_bdry-not-reproduced', got=p.nodes_on_bdry_byaxis[ax], want=nob_l[ax])
                                cv = p.grid.coord_vectors[ax]
                                if nob_l[ax][0] and not np.isclose(cv[0], mn[ax], rtol=1e-12, atol=1e-12 * abs(ext[ax])):
                                    ctx.violation('uniform_partition', cfg, 'node-not-on-lower-boundary')
                                if nob_l[ax][1] and not np.isclose(cv[-1], mx[ax], rtol=1e-12, atol=1e-12 * abs(ext[ax])):
                                    ctx.violation('uniform_partition', cfg, 'node-not-on-upper-boundary')
                                if not nob_l[ax][0] and not np.isclose(cv[0] - mn[ax], p.cell_sides[ax] / 2, rtol=1e-6, atol=1e-9 * abs(ext[ax])):
                                    ctx.violation('uniform_partition', cfg, 'first-node-not-half-cell-inside')
                            else:
                                if not np.isclose(p.cell_sides[ax], p.extent[ax], rtol=1e-12):
                                    ctx.violation('uniform_partition', cfg, 'len1-cell_side!=extent')
                        hook.origin = 'derived'
                        check_index(ctx, p, rng, 'uniform')
                        check_slicing(ctx, p, rng, 'uniform')
                        check_index_refusal(ctx, p, rng, 'uniform')
                        check_structure_ops(ctx, p, rng, 'uniform')
                        check_multipart(ctx, p, rng, 'uniform')
                        check_private_state(ctx, p, rng, 'uniform')
                        # parameter-subset equivalence (Appendix B: only axes with >= 2 points or no boundary node)
                        admissible = all(k >= 2 or not any(nb) for k, nb in zip(shape, nob_l))
                        if admissible:
                            ctx.ev('uniform-model')
                            try:
                                cs = p.cell_sides
                                kw = dict(nodes_on_bdry=nob_arg(nob_l, nd))
                                alts = {'min,max,cell_sides': odl.uniform_partition(min_pt=mn, max_pt=mx, cell_sides=cs, **kw),
                                        'min,shape,cell_sides': odl.uniform_partition(min_pt=mn, shape=shape, cell_sides=cs, **kw),
                                        'max,shape,cell_sides': odl.uniform_partition(max_pt=mx, shape=shape, cell_sides=cs, **kw)}
                                # limits handed in are the limits of the partition, exactly - also when the cell sides given with
                                # them are only approximately (max - min) / n (the node count is documented to be rounded)
                                alts['min,max,cell_sides(1+4e-8)'] = odl.uniform_partition(min_pt=mn, max_pt=mx, cell_sides=cs * (1 + 4e-8), **kw)
                                alts['min,max,cell_sides(1-3e-7)'] = odl.uniform_partition(min_pt=mn, max_pt=mx, cell_sides=cs * (1 - 3e-7), **kw)
                                # all four given: consistent values are accepted and mean the same partition ...
                                alts['min,max,shape,cell_sides'] = odl.uniform_partition(min_pt=mn, max_pt=mx, shape=shape, cell_sides=cs, **kw)
                                # ... inconsistent ones (upper limit off by 0.3 cells) are refused
                                try:
                                    odl.uniform_partition(min_pt=mn, max_pt=np.asarray(mx, float) + 0.3 * np.asarray(cs), shape=shape, cell_sides=cs, **kw)
                                    ctx.violation('uniform_partition', '%s;min,max,shape,cell_sides' % lname, 'bad-input-accepted', what='max_pt off by 0.3 cells')
                                except ValueError:
                                    pass
                                for name, q in alts.items():
                                    if q.shape != p.shape or not q.approx_equals(p, atol=1e-9 * max(1.0, np.abs(mx).max(), np.abs(mn).max())):
                                        ctx.violation('uniform_partition', '%s;%s' % (lname, name), 'parameter-subset-differs', shape=shape, nob=nob_l)
                                    if name.startswith('min,max') and (not np.array_equal(q.min_pt, np.asarray(mn, float)) or not np.array_equal(q.max_pt, np.asarray(mx, float))):
                                        ctx.violation('uniform_partition', '%s;%s' % (lname, name.split('(')[0]), 'requested-limits-not-exactly-kept',
                                                      got=(q.min_pt.tolist(), q.max_pt.tolist()), want=(list(map(float, mn)), list(map(float, mx))))
                            except Exception as e:
                                ctx.violation('uniform_partition', lname + ';completion', 'raises:' + type(e).__name__, message=str(e)[:200], shape=shape, nob=nob_l, mn=mn, mx=mx)
                        # fromintv / fromgrid
                        ctx.ev('uniform-model')
                        try:
                            q = odl.uniform_partition_fromintv(odl.IntervalProd(mn, mx), shape, nodes_on_bdry=nob_arg(nob_l, nd))
                            if q != p:
                                ctx.violation('uniform_partition_fromintv', lname, 'differs-from-uniform_partition')
                            if all(k >= 2 for k in shape):
                                g = odl.uniform_partition_fromgrid(p.grid, min_pt=mn, max_pt=mx)
                                if not g.approx_equals(p, atol=1e-12 * max(1.0, np.abs(mx).max())):
                                    ctx.violation('uniform_partition_fromgrid', lname, 'differs')
                                # limits given as {axis: value} dicts, axes counted from the front or (negative keys) from the back
                                for spelling in ('nonnegative-keys', 'negative-keys'):
                                    axk = int(rng.integers(nd))
                                    key = axk if spelling == 'nonnegative-keys' else axk - nd
                                    for which in ('min_pt', 'max_pt'):
                                        lim = float(mn[axk]) if which == 'min_pt' else float(mx[axk])
                                        given = {key: lim}
                                        gd = odl.uniform_partition_fromgrid(p.grid, **{which: given})
                                        if given != {key: lim}:
                                            ctx.violation('uniform_partition_fromgrid', '%s;dict;%s' % (lname, spelling), 'caller-argument-modified', after=str(given))
                                        got = gd.min_pt[axk] if which == 'min_pt' else gd.max_pt[axk]
                                        if got != lim:
                                            ctx.violation('uniform_partition_fromgrid', '%s;dict;%s' % (lname, spelling), 'requested-limit-not-used', which=which, got=float(got), want=lim)
                                        tiling(ctx, gd, 'fromgrid-dict')
                                g2 = odl.uniform_partition_fromgrid(p.grid)
                                tiling(ctx, g2, 'fromgrid-default')
                                if nd >= 2:
                                    # a limit vector shorter than the number of axes describes no interval: refused, never completed
                                    for which in ('min_pt', 'max_pt'):
                                        short = (np.asarray(mn)[:nd - 1] if which == 'min_pt' else np.asarray(mx)[:nd - 1])
                                        for arg in (short.tolist(), float(short[0]) if nd == 2 else short):
                                            try:
                                                bad = odl.uniform_partition_fromgrid(p.grid, **{which: arg})
                                                ctx.violation('uniform_partition_fromgrid', lname + ';limit-vector-too-short', 'bad-input-accepted', got=util.srepr(bad, 120))
                                            except (ValueError, TypeError, IndexError):
                                                pass
                                for ax in range(nd):
                                    h = p.grid.stride[ax]
                                    if not (np.isclose(g2.min_pt[ax], p.grid.min_pt[ax] - h / 2, rtol=1e-9, atol=1e-12) and
                                            np.isclose(g2.max_pt[ax], p.grid.max_pt[ax] + h / 2, rtol=1e-9, atol=1e-12)):
                                        ctx.violation('uniform_partition_fromgrid', lname, 'default-limits-not-half-cell-outside')
                        except Exception as e:
                            ctx.violation('uniform_partition_from*', lname, 'raises:' + type(e).__name__, message=str(e)[:200])


def run_nonuniform(ctx, hook):
    rng = ctx.rng('nonuniform')
    idx = 0
    nobs1 = [(False, False), (True, False), (False, True), (True, True)]
    for nd in (1, 2, 3):
        for rep in range(ctx.reps(40, 200)):
            idx += 1
            if not ctx.mine(idx):
                continue
            shape = tuple(int(k) for k in rng.integers(1, 7, size=nd))
            nob = [nobs1[int(rng.integers(4))] for _ in range(nd)]
            cvs = [np.sort(rng.uniform(-2, 2, size=k)) + 0.05 * np.arange(k) for k in shape]
            if rep % 4 == 3:
                # measured sampling points: equidistant up to a relative 1e-6 .. 1e-5 of the spacing (classified uniform by the
                # grid, yet every cell has its own size)
                shape = tuple(max(k, 3) + 2 for k in shape)
                cvs = []
                for k in shape:
                    h_ = rng.uniform(0.1, 1.0)
                    cvs.append(rng.uniform(-2, 2) + h_ * np.arange(k) + h_ * rng.uniform(-4e-6, 4e-6, size=k))
            cls = 'nonuniform;%dd;len1=%s' % (nd, any(s == 1 for s in shape)) + (';almost-equidistant' if rep % 4 == 3 else '')
            ctx.case(cls, (shape, tuple(nob), rep))
            hook.origin = 'nonuniform_partition'
            ctx.ev('uniform-model')
            try:
                mode = int(rng.integers(3))
                if mode == 0:
                    q = odl.nonuniform_partition(*cvs, nodes_on_bdry=nob_arg(nob, nd))
                elif mode == 1:
                    mn = [cv[0] - rng.uniform(0.01, 1) for cv in cvs]
                    mx = [cv[-1] + rng.uniform(0.01, 1) for cv in cvs]
                    q = odl.nonuniform_partition(*cvs, min_pt=mn, max_pt=mx)
                else:
                    q = odl.nonuniform_partition(*cvs)
            except Exception as e:
                if any(k == 1 for k in shape) and mode != 1:
                    ctx.skip('nonuniform_partition: length-1 axis needs explicit limits')
                    continue
                ctx.violation('nonuniform_partition', '%dd' % nd, 'raises:' + type(e).__name__, message=str(e)[:200], shape=shape, nob=nob)
                continue
            tiling(ctx, q, 'nonuniform_partition')
            for ax in range(nd):
                cv = cvs[ax]
                if mode == 0 and len(cv) > 1:
                    want_min = cv[0] if nob[ax][0] else cv[0] - (cv[1] - cv[0]) / 2
                    want_max = cv[-1] if nob[ax][1] else cv[-1] + (cv[-1] - cv[-2]) / 2
                    if not (np.isclose(q.min_pt[ax], want_min) and np.isclose(q.max_pt[ax], want_max)):
                        ctx.violation('nonuniform_partition', 'nodes_on_bdry', 'limits', got=(q.min_pt[ax], q.max_pt[ax]), ref=(want_min, want_max))
                b = np.asarray(q.cell_boundary_vecs[ax])
                if len(cv) > 1 and not np.allclose(b[1:-1], (cv[:-1] + cv[1:]) / 2, rtol=1e-14, atol=1e-14):
                    ctx.violation('nonuniform_partition', 'boundaries', 'interior-boundaries-not-midpoints')
            hook.origin = 'derived'
            check_index(ctx, q, rng, 'nonuniform')
            check_slicing(ctx, q, rng, 'nonuniform')
            check_index_refusal(ctx, q, rng, 'nonuniform')
            check_structure_ops(ctx, q, rng, 'nonuniform')
            check_multipart(ctx, q, rng, 'nonuniform')
            check_private_state(ctx, q, rng, 'nonuniform')


def run_construction_contract(ctx, hook):
    """What the constructors promise about their arguments: (a) a grid with an outermost node outside the interval product -
    by however little, at unit or at nanometre scale - is refused (every grid point lies in its own cell only if it lies in
    the set); (b) the objects keep private copies of the arrays they were built from: writing into the caller's buffers
    afterwards changes nothing."""
    rng = ctx.rng('construction-contract')
    hook.origin = 'construction-contract'
    for scale in (1.0, 1e-9, 1e6):
        for nd in (1, 2):
            for side, rel_out in itertools.product(('low', 'high'), (1e-3, 1e-9, 1e-12)):
                ctx.ev('uniform-model')
                ctx.case('construction;node-outside;%dd' % nd, (scale, side, rel_out))
                shape = (4, 3)[:nd]
                mn = np.array([0.0, -1.0][:nd]) * scale
                mx = np.array([1.0, 2.0][:nd]) * scale
                p0 = odl.uniform_partition(mn, mx, shape, nodes_on_bdry=True)
                cvs = [np.array(cv, copy=True) for cv in p0.grid.coord_vectors]
                h = cvs[0][1] - cvs[0][0]
                if side == 'low':
                    cvs[0][0] -= rel_out * h
                else:
                    cvs[0][-1] += rel_out * h
                if not (cvs[0][0] < mn[0] or cvs[0][-1] > mx[0]):
                    ctx.skip('perturbation below the resolution of the coordinates')
                    continue
                cfg = 'scale=%g;outside-by=%g-cells' % (scale, rel_out)
                try:
                    bad = odl.RectPartition(odl.IntervalProd(mn, mx), odl.RectGrid(*cvs))
                    ctx.violation('RectPartition', cfg, 'bad-input-accepted', min_pt=mn, node=float(cvs[0][0] if side == 'low' else cvs[0][-1]))
                except ValueError:
                    pass
                except Exception as e:
                    ctx.violation('RectPartition', cfg, 'wrong-exception:' + type(e).__name__)
    # (b) argument privacy
    for nd in (1, 2, 3):
        ctx.ev('private-state')
        ctx.case('construction;argument-privacy;%dd' % nd, 0)
        try:
            box = np.array([rng.uniform(-2, -1, size=nd), rng.uniform(1, 2, size=nd)])     # rows are float64 views of one buffer
            cvs = [np.linspace(-0.9, 0.9, int(k)) for k in rng.integers(2, 5, size=nd)]
            intv = odl.IntervalProd(box[0], box[1])
            grid = odl.RectGrid(*cvs)
            part = odl.RectPartition(intv, grid)
            part2 = odl.uniform_partition(box[0], box[1], tuple(int(k) for k in rng.integers(2, 5, size=nd)))
            shp = np.array([3] * nd)
            part3 = odl.uniform_partition_fromintv(odl.IntervalProd(box[0], box[1]), shp)
            before = [_state(part), _state(part2), _state(part3), repr(intv), repr(grid)]
            box *= 3.0
            box += 0.25
            for cv in cvs:
                cv *= 2.0
            shp += 1
            after = [_state(part), _state(part2), _state(part3), repr(intv), repr(grid)]
            names = ['RectPartition(IntervalProd(arrays), RectGrid(arrays))', 'uniform_partition(arrays)', 'uniform_partition_fromintv', 'IntervalProd(arrays)', 'RectGrid(arrays)']
            for nm, b_, a_ in zip(names, before, after):
                if b_ != a_:
                    ctx.violation(nm.split('(')[0], 'constructor-arguments', 'state-follows-the-callers-buffer', how=nm)
            tiling(ctx, part, 'argument-privacy')
        except Exception as e:
            ctx.violation('RectPartition', 'constructor-arguments', 'raises:' + type(e).__name__, message=str(e)[:200])


def run_ambient(ctx, hook):
    """Partitions the library builds for itself (discretizations, resize, Fourier range) via the init hook."""
    hook.origin = 'library-internal'
    try:
        sp = odl.uniform_discr([0, -1], [1, 2], (4, 5), nodes_on_bdry=[(True, False), (False, True)])
        odl.ResizingOperator(sp, ran_shp=(7, 3))
        odl.trafos.FourierTransform(odl.uniform_discr(-1, 1, 8))
        odl.trafos.FourierTransform(odl.uniform_discr([-1, -1], [1, 1], (4, 5)), halfcomplex=False)
        odl.Resampling(odl.uniform_discr(0, 1, 6), odl.uniform_discr(0, 1, 9), 'linear')
        odl.tomo.parallel_beam_geometry(odl.uniform_discr([-1, -1], [1, 1], (8, 8)), 5)
        odl.tomo.cone_beam_geometry(odl.uniform_discr([-1, -1, -1], [1, 1, 1], (4, 4, 4)), 3, 3)
    except Exception as e:
        ctx.note('ambient_exception', '%s: %s' % (type(e).__name__, str(e)[:200]))


def run(ctx):
    ctx.note('rule', 'one case = one constructed partition (dimension x shape incl. length-1 axes x per-side '
                     'nodes_on_bdry flags x limit class x uniform/non-uniform x repetition); each case is followed by '
                     '7 located points, random index expressions, the structural operations (incl. insert / append of several parts of mixed '
                     'dimension) and the private-state probes (read twice, shared grid, writes into returned arrays); distinct = distinct '
                     '(class, shape, flags, repetition)')
    cov = cover.Cover()
    for m in ('boundary_cell_fractions', 'cell_sizes_vecs', 'cell_sides', '__getitem__', 'insert', 'squeeze', 'index', 'cell_boundary_vecs'):
        cov.add(vars(RectPartition).get(m), 'RectPartition.' + m)
    for f in ('uniform_partition_fromintv', 'uniform_partition_fromgrid', 'uniform_partition', 'nonuniform_partition'):
        cov.add(getattr(pmod, f, None), f)
    cov.arm()
    hook = InitHook(ctx)
    hook.install()
    run_uniform(ctx, hook)
    run_nonuniform(ctx, hook)
    if ctx.shard == 0:
        run_construction_contract(ctx, hook)
        run_ambient(ctx, hook)
    cov.disarm()
    n_exec, n_hit, unreached = cov.report()
    ctx.note('line_coverage', {'executable': n_exec, 'hit': n_hit})
    for u in unreached:
        ctx.note_set('unreached_lines', u)
