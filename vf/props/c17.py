"""C17 -- NumPy ufuncs on elements behave like NumPy on the underlying arrays.

Deciding monitor
  differential : the same call on elements and on copies of the underlying arrays -- __call__, reduce,
                 accumulate, outer, at, reduceat; out= as element / ndarray (both outputs for two-output
                 ufuncs); operands element / array / scalar in either order; axis, dtype, keepdims; legacy
                 x.ufuncs.<name>().  If NumPy raises, ODL must raise; otherwise values bit-equal (NaN-aware),
                 dtype and shape equal, wrapped in a space of the same kind, out returned by identity.
  memory       : element(arr) shares memory for matching dtype/shape; asarray() round trip.
"""

import itertools

import numpy as np
import odl
from odl.set.space import LinearSpaceElement

from .. import cover, util

SHARDS = {'quick': 4, 'thorough': 16}

UFUNCS = sorted((getattr(np, n) for n in dir(np) if isinstance(getattr(np, n), np.ufunc)), key=lambda u: u.__name__)
UFUNCS = [u for u in UFUNCS if u.signature is None]   # gufuncs (matmul, vecdot ...) are not element-wise
_seen = set()
UFUNCS = [u for u in UFUNCS if not (u.__name__ in _seen or _seen.add(u.__name__))]

FAMILY = {}
for _n in ('equal', 'not_equal', 'less', 'less_equal', 'greater', 'greater_equal'):
    FAMILY[_n] = 'comparison'
for _n in ('logical_and', 'logical_or', 'logical_xor', 'logical_not'):
    FAMILY[_n] = 'logical'
for _n in ('bitwise_and', 'bitwise_or', 'bitwise_xor', 'invert', 'left_shift', 'right_shift', 'bitwise_count'):
    FAMILY[_n] = 'bitwise'
for _n in ('isfinite', 'isinf', 'isnan', 'isnat', 'signbit'):
    FAMILY[_n] = 'classification'
for _n in ('modf', 'frexp', 'divmod'):
    FAMILY[_n] = 'two-output'


def family(uf):
    return FAMILY.get(uf.__name__, 'arith')


def spaces():
    for dt in ('float64', 'float32', 'complex128', 'int64', 'bool'):
        yield 'tensor1d;' + np.dtype(dt).kind, odl.tensor_space(4, dtype=dt)
        yield 'tensor2d;' + np.dtype(dt).kind, odl.tensor_space((2, 3), dtype=dt)
    yield 'tensor2d-weighted;f', odl.rn((2, 3), weighting=2.0)
    yield 'tensor3d;f', odl.rn((2, 3, 2))
    yield 'discr1d;f', odl.uniform_discr(0, 1, 4)
    yield 'discr2d;f', odl.uniform_discr([0, 0], [1, 2], (2, 3))
    yield 'discr2d;c', odl.uniform_discr([0, 0], [1, 2], (2, 3), dtype=complex)
    yield 'discr2d-f32;f', odl.uniform_discr([0, 0], [1, 2], (3, 2), dtype='float32')


VALUE_CLASSES = ['generic', 'special']      # special = exact zeros, negative values, +-inf and NaN entries (floats)


def rnd(sp, rng, vcls='generic'):
    k = np.dtype(sp.dtype).kind
    if vcls == 'special' and k in 'fc':
        a = rng.uniform(0.2, 2, size=sp.shape) * rng.choice([-1, 1], size=sp.shape)
        flat = a.ravel()
        pool = np.array([0.0, -0.0, np.inf, -np.inf, np.nan, 1.0, -1.0, 1e300, 1e-300])
        idx = rng.integers(0, flat.size, size=max(1, flat.size // 2))
        flat[idx] = rng.choice(pool, size=len(idx))
        a = flat.reshape(sp.shape)
        if k == 'c':
            a = a + 1j * rng.choice([0.0, 1.0, -2.0, np.inf, np.nan], size=sp.shape)
        return sp.element(a.astype(sp.dtype))
    if vcls == 'special' and k == 'i':
        return sp.element(rng.choice([0, 1, -1, 7, -8, 2 ** 31, -2 ** 31], size=sp.shape).astype(sp.dtype))
    if k == 'f':
        a = rng.uniform(0.2, 2, size=sp.shape) * rng.choice([-1, 1], size=sp.shape)
    elif k == 'c':
        a = rng.normal(size=sp.shape) + 1j * rng.normal(size=sp.shape)
    elif k == 'b':
        a = rng.random(sp.shape) < 0.5
    else:
        a = rng.integers(1, 9, size=sp.shape)
    return sp.element(a.astype(sp.dtype))


def same(a, b):
    a = np.asarray(a)
    b = np.asarray(b)
    if a.shape != b.shape or a.dtype != b.dtype:
        return False
    if a.dtype.kind in 'fc':
        return bool(np.array_equal(a, b, equal_nan=True))
    return bool(np.array_equal(a, b))


def call(f):
    try:
        with np.errstate(all='ignore'):
            return 'ok', f()
    except Exception as e:
        return 'exc', e


class Checker(object):
    def __init__(self, ctx, sname, sp, uf):
        self.ctx = ctx
        self.sname = sname
        self.sp = sp
        self.uf = uf
        self.cfg = '%s;%s' % (sname, family(uf))

    def chk(self, tag, fo, fn, wrap=True, documented_unsupported=False):
        ctx = self.ctx
        ctx.ev('differential')
        ctx.case('%s;%s' % (tag, self.sname), self.uf.__name__)
        ro = call(fo)
        rn = call(fn)
        if rn[0] == 'exc':
            if ro[0] != 'exc':
                ctx.violation(tag, self.cfg, 'accepts-where-numpy-raises:' + type(rn[1]).__name__, ufunc=self.uf.__name__)
            return None
        if ro[0] == 'exc':
            if documented_unsupported:
                ctx.skip('documented non-support: ' + tag)
                return None
            ctx.violation(tag, self.cfg, 'raises:' + type(ro[1]).__name__, ufunc=self.uf.__name__, message=str(ro[1])[:200])
            return None
        o, n = ro[1], rn[1]
        outs_o = o if isinstance(o, tuple) else (o,)
        outs_n = n if isinstance(n, tuple) else (n,)
        if len(outs_o) != len(outs_n):
            ctx.violation(tag, self.cfg, 'number-of-outputs', ufunc=self.uf.__name__)
            return o
        for oo, nn in zip(outs_o, outs_n):
            if np.ndim(nn) == 0:
                if not np.allclose(oo, nn, equal_nan=True):
                    ctx.violation(tag, self.cfg, 'value', ufunc=self.uf.__name__, got=oo, ref=nn)
                continue
            oa = np.asarray(oo)
            if oa.shape != np.shape(nn):
                ctx.violation(tag, self.cfg, 'shape', ufunc=self.uf.__name__, got=oa.shape, ref=np.shape(nn))
            elif oa.dtype != nn.dtype:
                ctx.violation(tag, self.cfg, 'dtype', ufunc=self.uf.__name__, got=str(oa.dtype), ref=str(nn.dtype))
            elif not same(oa, nn):
                ctx.violation(tag, self.cfg, 'value', ufunc=self.uf.__name__, got=oa, ref=nn)
            elif wrap and not isinstance(oo, LinearSpaceElement):
                ctx.violation(tag, self.cfg, 'not-wrapped', ufunc=self.uf.__name__, type=type(oo).__name__)
            elif wrap and (oo.space.shape != nn.shape or oo.space.dtype != nn.dtype):
                ctx.violation(tag, self.cfg, 'space-shape/dtype', ufunc=self.uf.__name__)
            elif wrap and nn.shape == self.sp.shape and type(oo.space) is not type(self.sp):
                ctx.violation(tag, self.cfg, 'space-kind', ufunc=self.uf.__name__, got=type(oo.space).__name__)
        return o


_OTHER = {'float64': 'float32', 'float32': 'float64', 'complex128': 'complex64', 'complex64': 'complex128',
          'int64': 'int32', 'int32': 'int64'}


def out_dtype_lattice(ctx, C, uf, sp, x, xa, y, ya):
    """out= given as element or ndarray x out dtype in {result dtype, the other width of its kind} x dtype= keyword in
    {absent, result dtype, other width} x method in {__call__, reduce, accumulate}: the given object is returned and
    holds exactly what NumPy writes into an array of the same dtype for the same call (NumPy raising => not compared)."""
    name = uf.__name__
    args_o, args_n = ((x,), (xa,)) if uf.nin == 1 else ((x, y), (xa, ya))
    r = call(lambda: uf(*args_n))
    if r[0] != 'ok' or uf.nout != 1:
        return
    base = np.dtype(r[1].dtype)
    other = np.dtype(_OTHER[base.name]) if base.name in _OTHER else None
    dts = [base] + ([other] if other is not None else [])
    methods = [('call', lambda u, a, **kw: u(*a, **kw), r[1].shape)]
    if uf.nin == 2 and sp.ndim >= 2:
        rr = call(lambda: uf.reduce(xa, axis=0))
        if rr[0] == 'ok' and np.ndim(rr[1]) > 0:
            methods.append(('reduce', lambda u, a, **kw: u.reduce(a[0], axis=0, **kw), np.shape(rr[1])))
    if uf.nin == 2:
        ra = call(lambda: uf.accumulate(xa))
        if ra[0] == 'ok':
            methods.append(('accumulate', lambda u, a, **kw: u.accumulate(a[0], **kw), np.shape(ra[1])))
    for (mname, mfn, shape), out_dt, kw_dt, kind in itertools.product(methods, dts, [None] + dts, ('arr', 'elem')):
        if kind == 'elem' and (mname != 'call' or isinstance(sp, odl.DiscretizedSpace) and out_dt != base):
            continue
        kw = {} if kw_dt is None else {'dtype': kw_dt}
        ref_out = np.full(shape, 7, dtype=out_dt)
        rn = call(lambda: mfn(uf, args_n, out=ref_out, **kw))
        if rn[0] != 'ok':
            continue
        tag = '%s:out=%s' % (mname, kind)
        cfg = '%s;out-dtype=%s;dtype-kw=%s' % (C.cfg, 'result' if out_dt == base else 'other-width',
                                               'absent' if kw_dt is None else ('result' if kw_dt == base else 'other-width'))
        ctx.ev('out-lattice')
        ctx.case('out-lattice;%s;%s' % (tag, C.sname), (name, str(out_dt), str(kw_dt)))
        try:
            given = np.full(shape, 7, dtype=out_dt) if kind == 'arr' else sp.astype(out_dt).element(np.full(shape, 7, dtype=out_dt))
        except Exception:
            ctx.skip('no space of that dtype')
            continue
        ro = call(lambda: mfn(uf, args_o, out=given, **kw))
        if ro[0] != 'ok':
            ctx.violation(tag, cfg, 'raises:' + type(ro[1]).__name__, ufunc=name, message=str(ro[1])[:200])
            continue
        if ro[1] is not given:
            ctx.violation(tag, cfg, 'not-out', ufunc=name)
        if not same(given, ref_out):
            # NumPy's own reductions into an `out` narrower than `dtype=` round the first item through `out`; computing
            # in `dtype=` and casting the finished result into `out` is the other admissible reading of the same call
            alt = call(lambda: mfn(uf, args_n, **kw))
            if alt[0] == 'ok' and same(given, np.asarray(alt[1]).astype(out_dt)):
                ctx.note_add('out_lattice_matches_compute_then_cast_only')
            else:
                ctx.violation(tag, cfg, 'out-not-written', ufunc=name, got=np.asarray(given).ravel()[:4], ref=ref_out.ravel()[:4])


def run_ufuncs(ctx):
    rng = ctx.rng('ufuncs')
    idx = 0
    for (sname, sp), uf in itertools.product(spaces(), UFUNCS):
        idx += 1
        if not ctx.mine(idx):
            continue
        for vcls in (VALUE_CLASSES if (ctx.thorough or idx % 3 == 0) else VALUE_CLASSES[:1]):
            _one(ctx, rng, idx, sname, sp, uf, vcls)


def layout_element(sp, arr):
    """Element of sp wrapping (not copying) a non-C-contiguous array with the values of arr."""
    arr = np.asarray(arr)
    if arr.ndim >= 2:
        a = np.asfortranarray(arr.copy())
    else:
        big = np.zeros((2 * arr.shape[0],) if arr.ndim == 1 else (), dtype=arr.dtype)
        a = big[::2] if arr.ndim == 1 else big
        a[...] = arr
    return sp.element(a)


def _one(ctx, rng, idx, sname, sp, uf, vcls):
    if True:
        C = Checker(ctx, sname + (';special-values' if vcls == 'special' else ''), sp, uf)
        chk = C.chk
        name = uf.__name__
        x = rnd(sp, rng, vcls)
        y = rnd(sp, rng, vcls)
        xa = np.asarray(x).copy()
        ya = np.asarray(y).copy()
        # memory layout of the operands: C-contiguous, or Fortran-ordered (>= 2 axes) / a strided view of a larger buffer (1 axis)
        layout = ('C', 'other', 'other-x-only')[idx % 3]
        if layout != 'C' and xa.size:
            x = layout_element(sp, xa)
            if layout == 'other':
                y = layout_element(sp, ya)
            # "the underlying arrays" are the arrays in their own layout (NumPy's reductions follow the memory order)
            xa = np.asarray(x).copy(order='K')
            ya = np.asarray(y).copy(order='K')
        is_discr = isinstance(sp, odl.DiscretizedSpace)
        if idx % 173 == 0:
            ctx.sample({'ufunc': name, 'space': util.srepr(sp, 80), 'x': xa})
        if uf.nin == 1:
            if uf.nout == 1 and xa.size:
                def at1_o():
                    z = x.copy() if layout == 'C' else layout_element(sp, np.ascontiguousarray(xa))
                    uf.at(z, [0])
                    return z

                def at1_n():
                    z = xa.copy()
                    uf.at(z, [0])
                    return z
                chk('at1', at1_o, at1_n)
            chk('call1', lambda: uf(x), lambda: uf(xa))
            r = call(lambda: uf(xa))
            if r[0] == 'ok' and uf.nout == 1:
                out_el = sp.astype(r[1].dtype).element()
                util.fill(out_el, 'nan')
                o = chk('call1:out=elem', lambda: uf(x, out=out_el), lambda: uf(xa))
                if o is not None and o is not out_el:
                    ctx.violation('call1:out=elem', C.cfg, 'not-out', ufunc=name)
                if o is not None and not same(out_el, r[1]):
                    ctx.violation('call1:out=elem', C.cfg, 'out-not-written', ufunc=name)
                out_arr = np.empty(r[1].shape, r[1].dtype)
                o = chk('call1:out=arr', lambda: uf(x, out=out_arr), lambda: uf(xa), wrap=False)
                if o is not None and o is not out_arr:
                    ctx.violation('call1:out=arr', C.cfg, 'not-out', ufunc=name)
                if o is not None and not same(out_arr, r[1]):
                    ctx.violation('call1:out=arr', C.cfg, 'out-not-written', ufunc=name)
                chk('call1:dtype', lambda: uf(x, dtype=r[1].dtype), lambda: uf(xa, dtype=r[1].dtype))
            elif r[0] == 'ok' and uf.nout == 2:
                refs = r[1]
                for k1, k2 in itertools.product(('none', 'elem', 'arr'), repeat=2):
                    def mk(kind, ref):
                        if kind == 'none':
                            return None
                        if kind == 'elem':
                            return util.fill(sp.astype(ref.dtype).element(), 'nan')
                        return np.empty(ref.shape, ref.dtype)
                    o1, o2 = mk(k1, refs[0]), mk(k2, refs[1])
                    tag = 'call1-2out:out=(%s,%s)' % (k1, k2)
                    o = chk(tag, lambda: uf(x, out=(o1, o2)), lambda: uf(xa), wrap=False)
                    if o is not None:
                        for given, got, ref in zip((o1, o2), o, refs):
                            if given is not None and got is not given:
                                ctx.violation(tag, C.cfg, 'not-out', ufunc=name)
                            if given is not None and not same(given, ref):
                                ctx.violation(tag, C.cfg, 'out-not-written', ufunc=name)
        elif uf.nin == 2:
            chk('call2:el,el', lambda: uf(x, y), lambda: uf(xa, ya))
            chk('call2:el,arr', lambda: uf(x, ya), lambda: uf(xa, ya))
            chk('call2:arr,el', lambda: uf(xa, y), lambda: uf(xa, ya))
            chk('call2:el,scalar', lambda: uf(x, 2), lambda: uf(xa, 2))
            chk('call2:scalar,el', lambda: uf(2, x), lambda: uf(2, xa))
            chk('call2:el,list', lambda: uf(x, ya.tolist()), lambda: uf(xa, ya.tolist()))
            r = call(lambda: uf(xa, ya))
            if r[0] == 'ok' and uf.nout == 1:
                out_el = util.fill(sp.astype(r[1].dtype).element(), 'nan')
                o = chk('call2:out=elem', lambda: uf(x, y, out=out_el), lambda: uf(xa, ya))
                if o is not None and o is not out_el:
                    ctx.violation('call2:out=elem', C.cfg, 'not-out', ufunc=name)
                if o is not None and not same(out_el, r[1]):
                    ctx.violation('call2:out=elem', C.cfg, 'out-not-written', ufunc=name)
                out_arr = np.empty(r[1].shape, r[1].dtype)
                o = chk('call2:out=arr', lambda: uf(x, y, out=out_arr), lambda: uf(xa, ya), wrap=False)
                if o is not None and (o is not out_arr or not same(out_arr, r[1])):
                    ctx.violation('call2:out=arr', C.cfg, 'not-out' if o is not out_arr else 'out-not-written', ufunc=name)
                if r[1].dtype == xa.dtype:
                    # in-place on the first operand
                    def ip():
                        z = x.copy()
                        q = uf(z, y, out=z)
                        return q, z

                    def ipn():
                        z = xa.copy()
                        q = uf(z, ya, out=z)
                        return q, z
                    chk('call2:out=x', ip, ipn)
            elif r[0] == 'ok' and uf.nout == 2:
                refs = r[1]
                for k1, k2 in itertools.product(('none', 'elem', 'arr'), repeat=2):
                    def mk(kind, ref):
                        if kind == 'none':
                            return None
                        if kind == 'elem':
                            return util.fill(sp.astype(ref.dtype).element(), 'nan')
                        return np.empty(ref.shape, ref.dtype)
                    o1, o2 = mk(k1, refs[0]), mk(k2, refs[1])
                    tag = 'call2-2out:out=(%s,%s)' % (k1, k2)
                    o = chk(tag, lambda: uf(x, y, out=(o1, o2)), lambda: uf(xa, ya), wrap=False)
                    if o is not None:
                        for given, got, ref in zip((o1, o2), o, refs):
                            if given is not None and got is not given:
                                ctx.violation(tag, C.cfg, 'not-out', ufunc=name)
                            if given is not None and not same(given, ref):
                                ctx.violation(tag, C.cfg, 'out-not-written', ufunc=name)
            if uf.nout == 1:
                chk('reduce', lambda: uf.reduce(x), lambda: uf.reduce(xa))
                chk('reduce:axis=None', lambda: uf.reduce(x, axis=None), lambda: uf.reduce(xa, axis=None))
                chk('reduce:axis=0', lambda: uf.reduce(x, axis=0), lambda: uf.reduce(xa, axis=0))
                if sp.ndim >= 2:
                    chk('reduce:axis=1', lambda: uf.reduce(x, axis=1), lambda: uf.reduce(xa, axis=1))
                    chk('reduce:axis=-1', lambda: uf.reduce(x, axis=-1), lambda: uf.reduce(xa, axis=-1))
                    chk('reduce:axis=(0,1)', lambda: uf.reduce(x, axis=(0, 1)), lambda: uf.reduce(xa, axis=(0, 1)))
                    chk('reduce:axis=(-1,)', lambda: uf.reduce(x, axis=(-1,)), lambda: uf.reduce(xa, axis=(-1,)))
                    chk('reduce:keepdims', lambda: uf.reduce(x, axis=0, keepdims=True), lambda: uf.reduce(xa, axis=0, keepdims=True),
                        documented_unsupported=is_discr)
                    rr = call(lambda: uf.reduce(xa, axis=0))
                    if rr[0] == 'ok' and np.ndim(rr[1]) > 0:
                        oarr = np.empty(rr[1].shape, rr[1].dtype)
                        o = chk('reduce:out=arr', lambda: uf.reduce(x, axis=0, out=oarr), lambda: uf.reduce(xa, axis=0), wrap=False)
                        if o is not None and (o is not oarr or not same(oarr, rr[1])):
                            ctx.violation('reduce:out=arr', C.cfg, 'not-out' if o is not oarr else 'out-not-written', ufunc=name)
                if sp.ndim == 3:
                    chk('reduce:axis=(0,2)', lambda: uf.reduce(x, axis=(0, 2)), lambda: uf.reduce(xa, axis=(0, 2)))
                    chk('reduce:axis=-2', lambda: uf.reduce(x, axis=-2), lambda: uf.reduce(xa, axis=-2))
                chk('reduce:dtype', lambda: uf.reduce(x, dtype=xa.dtype), lambda: uf.reduce(xa, dtype=xa.dtype))
                chk('accumulate', lambda: uf.accumulate(x), lambda: uf.accumulate(xa))
                if sp.ndim >= 2:
                    chk('accumulate:axis=-1', lambda: uf.accumulate(x, axis=-1), lambda: uf.accumulate(xa, axis=-1))
                chk('outer', lambda: uf.outer(x, y), lambda: uf.outer(xa, ya))
                chk('outer:el,arr', lambda: uf.outer(x, ya), lambda: uf.outer(xa, ya), documented_unsupported=True)
                chk('reduceat', lambda: uf.reduceat(x, [0, 1]), lambda: uf.reduceat(xa, [0, 1]), documented_unsupported=is_discr)

                def at_o():
                    z = x.copy() if layout == 'C' else layout_element(sp, np.ascontiguousarray(xa))
                    ret = uf.at(z, [0], ya.ravel()[:1] if sp.ndim == 1 else ya[:1])
                    return z

                def at_n():
                    z = xa.copy()
                    uf.at(z, [0], ya.ravel()[:1] if sp.ndim == 1 else ya[:1])
                    return z
                chk('at', at_o, at_n)
        out_dtype_lattice(ctx, C, uf, sp, x, xa, y, ya)
        if hasattr(x.ufuncs, name):
            if uf.nin == 1:
                chk('legacy1', lambda: getattr(x.ufuncs, name)(), lambda: uf(xa))
                r = call(lambda: uf(xa))
                if r[0] == 'ok' and uf.nout == 1:
                    out_el = util.fill(sp.astype(r[1].dtype).element(), 'nan')
                    o = chk('legacy1:out', lambda: getattr(x.ufuncs, name)(out=out_el), lambda: uf(xa))
                    if o is not None and (o is not out_el or not same(out_el, r[1])):
                        ctx.violation('legacy1:out', C.cfg, 'not-out' if o is not out_el else 'out-not-written', ufunc=name)
            elif uf.nin == 2:
                chk('legacy2', lambda: getattr(x.ufuncs, name)(y), lambda: uf(xa, ya))
                chk('legacy2:scalar', lambda: getattr(x.ufuncs, name)(2), lambda: uf(xa, 2))
        # operands unchanged
        if not same(x, xa) or not same(y, ya):
            ctx.violation('operands', C.cfg, 'operand-modified', ufunc=name)


def run_reductions_legacy(ctx):
    """x.ufuncs.sum / prod / min / max (axis, dtype, out, keepdims) against np.add / multiply / minimum / maximum .reduce on
    the underlying array: same numbers, same result dtype (NumPy promotes small integers and booleans to the platform integer
    and takes the accumulator type from ``out``), same shape.  Also small integer / boolean dtypes with enough entries to wrap."""
    rng = ctx.rng('legacy-red')
    ufs = {'sum': np.add, 'prod': np.multiply, 'min': np.minimum, 'max': np.maximum}
    extra = [('tensor1d-300;%s' % np.dtype(dt).name, odl.tensor_space(300, dtype=dt)) for dt in ('int8', 'uint8', 'int16', 'int32', 'bool', 'float16')]
    extra += [('tensor2d;int8', odl.tensor_space((40, 5), dtype='int8')), ('discr1d-300;int8', odl.uniform_discr(0, 1, 300, dtype='int8')),
              ('tensor1d-3000;float32', odl.tensor_space(3000, dtype='float32'))]
    for sname, sp in list(spaces()) + extra:
        kind = np.dtype(sp.dtype).kind
        x = rnd(sp, rng)
        if kind in 'iub' and sp.size >= 300:
            x = sp.one() if kind != 'b' else sp.element(rng.random(sp.shape) < 0.7)
        xa = np.asarray(x).copy()
        for red, uf in ufs.items():
            if kind == 'c' and red in ('min', 'max'):
                continue
            if kind == 'b' and red in ('prod',):
                pass
            variants = [('plain', {})]
            if sp.ndim >= 1:
                variants.append(('axis0', {'axis': 0}))
            if sp.ndim >= 2:
                variants += [('axis-1', {'axis': -1})]
                if not isinstance(sp, odl.DiscretizedSpace):    # keepdims is documented as unsupported on discretized spaces
                    variants += [('axis0;keepdims', {'axis': 0, 'keepdims': True})]
            if kind in 'fiub':
                variants.append(('dtype=float64', {'dtype': 'float64'}))
            for vname, kw in variants:
                ctx.ev('differential')
                ctx.case('legacy-reduction;%s;%s' % (sname, vname), red)
                cfg = '%s;%s' % (sname.split(';')[0].split('-')[0] + ';' + np.dtype(sp.dtype).name, vname)
                try:
                    with np.errstate(all='ignore'):
                        got = getattr(x.ufuncs, red)(**kw)
                        ref = uf.reduce(xa, **dict({'axis': None}, **kw))
                    ga, ra = np.asarray(got), np.asarray(ref)
                    if ga.shape != ra.shape:
                        ctx.violation('legacy:' + red, cfg, 'shape', got=ga.shape, ref=ra.shape)
                    elif ga.dtype != ra.dtype:
                        ctx.violation('legacy:' + red, cfg, 'dtype', got=str(ga.dtype), ref=str(ra.dtype))
                    elif not np.allclose(ga, ra, rtol=1e-6 if sp.dtype in (np.float32, np.float16) else 1e-13, equal_nan=True):
                        ctx.violation('legacy:' + red, cfg, 'value', got=ga.ravel()[:4], ref=ra.ravel()[:4])
                    if not np.array_equal(np.asarray(x), xa):
                        ctx.violation('legacy:' + red, cfg, 'x-modified')
                except Exception as e:
                    ctx.violation('legacy:' + red, cfg, 'raises:' + type(e).__name__, message=str(e)[:200])
            # out= of a wider type: the accumulation happens in the type of out (NumPy), value compared at that precision
            if kind == 'f' and sp.dtype != np.float64 and sp.ndim >= 1 and red in ('sum', 'prod'):
                ctx.ev('differential')
                cfg = '%s;%s' % (sname.split(';')[0].split('-')[0] + ';' + np.dtype(sp.dtype).name, 'axis0;out=float64-array')
                try:
                    xs = x if red == 'sum' else sp.element(1 + 1e-3 * np.asarray(x))
                    xsa = np.asarray(xs).copy()
                    oshape = xsa.shape[1:]
                    out = np.full(oshape, np.nan, dtype='float64')
                    with np.errstate(all='ignore'):
                        r = getattr(xs.ufuncs, red)(axis=0, out=out)
                        ref = uf.reduce(xsa, axis=0, out=np.full(oshape, np.nan, dtype='float64'))
                        exact = uf.reduce(xsa.astype('float64'), axis=0)
                    if r is not out and not (oshape == () and np.asarray(r).shape == ()):
                        ctx.violation('legacy:' + red, cfg, 'not-out')
                    # either NumPy's own route or the exact wide accumulation (both "written into out" readings)
                    if not (np.allclose(out, ref, rtol=1e-12, atol=0) or np.allclose(out, exact, rtol=1e-12, atol=0)):
                        ctx.violation('legacy:' + red, cfg, 'value', got=np.asarray(out).ravel()[:3], ref=np.asarray(ref).ravel()[:3])
                except Exception as e:
                    ctx.violation('legacy:' + red, cfg, 'raises:' + type(e).__name__, message=str(e)[:200])


def run_pspace(ctx):
    rng = ctx.rng('pspace')
    r3 = odl.rn(3)
    spaces_p = {'power': r3 ** 2, 'product': odl.ProductSpace(r3, odl.rn(2)), 'power-discr': odl.uniform_discr(0, 1, 4) ** 2,
                'nested': (r3 ** 2) ** 2}
    names1 = ['sin', 'absolute', 'negative', 'square', 'exp', 'sign', 'floor', 'isfinite']
    names2 = ['add', 'multiply', 'maximum', 'subtract', 'less', 'arctan2']
    for pn, p in spaces_p.items():
        x = util.rand_element(p, rng)
        y = util.rand_element(p, rng)

        def leafs(e):
            if hasattr(e, 'parts'):
                return [a for q in e.parts for a in leafs(q)]
            return [np.asarray(e).copy()]
        xs, ys = leafs(x), leafs(y)
        for nm in names1:
            uf = getattr(np, nm)
            ctx.ev('differential')
            ctx.case('pspace;%s;%s' % (pn, nm), 0)
            cfg = 'pspace-%s;%s' % (pn, family(uf))
            for tag, f in (('legacy1', lambda: getattr(x.ufuncs, nm)()), ('call1', lambda: uf(x))):
                try:
                    r = f()
                    rl = leafs(r) if hasattr(r, 'parts') else None
                    if rl is None:
                        ra = np.asarray(r)
                        ref = np.array([uf(a) for a in xs])
                        if ra.shape != ref.shape and ra.size == ref.size:
                            ra = ra.reshape(ref.shape)
                        if not (ra.shape == ref.shape and same(ra.astype(ref.dtype), ref)):
                            ctx.violation(tag, cfg, 'value', ufunc=nm)
                        elif ra.dtype != ref.dtype:
                            ctx.violation(tag, 'pspace;' + family(uf), 'dtype', ufunc=nm, flavour=pn)
                    elif len(rl) != len(xs) or not all(np.array_equal(a, uf(b), equal_nan=True) for a, b in zip(rl, xs)):
                        ctx.violation(tag, cfg, 'value', ufunc=nm)
                    elif not all(a.dtype == uf(b).dtype for a, b in zip(rl, xs)):
                        ctx.violation(tag, 'pspace;' + family(uf), 'dtype', ufunc=nm, flavour=pn)
                except Exception as e:
                    if tag == 'call1' and pn in ('product', 'nested'):
                        ctx.skip('np.<ufunc>(x) on a non-power / nested product space: no array representation')
                    else:
                        ctx.violation(tag, cfg, 'raises:' + type(e).__name__, ufunc=nm, message=str(e)[:200])
            # legacy with out
            try:
                ref0 = uf(xs[0])
                if ref0.dtype == xs[0].dtype:
                    out = util.fill(p.element(), 'nan')
                    r = getattr(x.ufuncs, nm)(out=out)
                    if r is not out:
                        ctx.violation('legacy1:out', cfg, 'not-out', ufunc=nm)
                    if not all(same(a, uf(b)) for a, b in zip(leafs(out), xs)):
                        ctx.violation('legacy1:out', cfg, 'out-not-written', ufunc=nm)
            except Exception as e:
                ctx.violation('legacy1:out', cfg, 'raises:' + type(e).__name__, ufunc=nm, message=str(e)[:200])
        # NumPy call with out= a product-space element (power spaces have an array representation)
        if pn in ('power', 'power-discr'):
            ctx.ev('differential')
            ctx.case('pspace;%s;out=elem' % pn, 0)
            try:
                out = util.fill(p.element(), 'nan')
                r = np.negative(x, out=out)
                if r is not out:
                    ctx.violation('call1:out=elem', 'pspace;arith', 'not-out', flavour=pn)
                if not all(same(a, -b) for a, b in zip(leafs(out), xs)):
                    ctx.violation('call1:out=elem', 'pspace;arith', 'out-not-written', flavour=pn)
            except Exception as e:
                ctx.violation('call1:out=elem', 'pspace;arith', 'raises:' + type(e).__name__, message=str(e)[:200], flavour=pn)
        for nm in names2:
            uf = getattr(np, nm)
            ctx.ev('differential')
            ctx.case('pspace;%s;%s' % (pn, nm), 0)
            cfg = 'pspace-%s;%s' % (pn, family(uf))
            try:
                r = getattr(x.ufuncs, nm)(y)
                if not all(np.array_equal(a, uf(b, c), equal_nan=True) for a, b, c in zip(leafs(r), xs, ys)):
                    ctx.violation('legacy2', cfg, 'value', ufunc=nm)
                elif not all(a.dtype == uf(b, c).dtype for a, b, c in zip(leafs(r), xs, ys)):
                    ctx.violation('legacy2', 'pspace;' + family(uf), 'dtype', ufunc=nm, flavour=pn)
            except Exception as e:
                ctx.violation('legacy2', cfg, 'raises:' + type(e).__name__, ufunc=nm, message=str(e)[:200])
            # ... with out= (a separate NaN-filled element, the first operand itself, the second operand itself) and with a scalar
            # second operand; only where the result type is the operands' type (comparisons produce booleans)
            if uf(xs[0], ys[0]).dtype == xs[0].dtype:
                for okind in ('separate', 'out-is-x', 'out-is-y', 'scalar;separate', 'scalar;out-is-x'):
                    ctx.ev('differential')
                    try:
                        x_ = x.copy()
                        y_ = y.copy() if not okind.startswith('scalar') else 1.5
                        out = {'separate': None, 'out-is-x': x_, 'out-is-y': y_, 'scalar;separate': None, 'scalar;out-is-x': x_}[okind]
                        if out is None:
                            out = util.fill(p.element(), 'nan')
                        r = getattr(x_.ufuncs, nm)(y_, out=out)
                        refs = [uf(b, c) for b, c in zip(xs, ys)] if not okind.startswith('scalar') else [uf(b, 1.5) for b in xs]
                        if r is not out:
                            ctx.violation('legacy2:out', cfg, 'not-out', ufunc=nm, out=okind)
                        if not all(same(a, b) for a, b in zip(leafs(out), refs)):
                            ctx.violation('legacy2:out', cfg, 'out-not-written', ufunc=nm, out=okind)
                        if okind in ('separate', 'out-is-y') and not all(same(a, b) for a, b in zip(leafs(x_), xs)):
                            ctx.violation('legacy2:out', cfg, 'operand-modified', ufunc=nm, out=okind)
                        if okind in ('separate', 'out-is-x') and not all(same(a, b) for a, b in zip(leafs(y_), ys)):
                            ctx.violation('legacy2:out', cfg, 'operand-modified', ufunc=nm, out=okind)
                    except Exception as e:
                        ctx.violation('legacy2:out', cfg, 'raises:' + type(e).__name__, ufunc=nm, message=str(e)[:200], out=okind)
        # second operand that is not a member of the space: broadcast against the parts (scalar; for power spaces an
        # element of the base space - in the nested square case it has as many parts as the outer space)
        others = [('scalar', 2.5, lambda b: 2.5)]
        if getattr(p, 'is_power_space', False):
            y0 = util.rand_element(p[0], rng)
            y0l = leafs(y0)
            nb = len(y0l)
            others.append(('base-space-element', y0, lambda b, y0l=y0l, nb=nb: None))
        for oname, other, _f in others:
            for nm in ('add', 'multiply', 'maximum'):
                uf = getattr(np, nm)
                ctx.ev('differential')
                ctx.case('pspace;%s;%s;other=%s' % (pn, nm, oname), 0)
                cfg = 'pspace-%s;%s;other=%s' % (pn, family(uf), oname)
                try:
                    r = getattr(x.ufuncs, nm)(other)
                    rl = leafs(r)
                    if oname == 'scalar':
                        refs = [uf(b, 2.5) for b in xs]
                    else:
                        refs = [uf(b, y0l[i % nb]) for i, b in enumerate(xs)]
                    if len(rl) != len(refs) or not all(np.array_equal(a, b, equal_nan=True) for a, b in zip(rl, refs)):
                        ctx.violation('legacy2', cfg, 'value', ufunc=nm)
                except Exception as e:
                    ctx.violation('legacy2', cfg, 'raises:' + type(e).__name__, ufunc=nm, message=str(e)[:200])
        # two-output legacy
        for nm in ('modf', 'frexp'):
            uf = getattr(np, nm)
            if not hasattr(x.ufuncs, nm):
                continue
            ctx.ev('differential')
            cfg = 'pspace-%s;two-output' % pn
            try:
                r = getattr(x.ufuncs, nm)()
                r1, r2 = r
                if not all(same(a, uf(b)[0]) for a, b in zip(leafs(r1), xs)) or not all(same(a, uf(b)[1]) for a, b in zip(leafs(r2), xs)):
                    ctx.violation('legacy1-2out', cfg, 'value', ufunc=nm)
            except Exception as e:
                ctx.violation('legacy1-2out', cfg, 'raises:' + type(e).__name__, ufunc=nm, message=str(e)[:200])
        for red in ('sum', 'prod', 'min', 'max'):
            ctx.ev('differential')
            try:
                got = getattr(x.ufuncs, red)()
                ref = getattr(np, red)(np.concatenate([a.ravel() for a in xs]))
                if not np.allclose(got, ref, rtol=1e-13):
                    ctx.violation('legacy:' + red, 'pspace-' + pn, 'value', got=got, ref=ref)
            except Exception as e:
                ctx.violation('legacy:' + red, 'pspace-' + pn, 'raises:' + type(e).__name__, message=str(e)[:200])


def run_pspace_reductions(ctx):
    """Full reductions of product-space elements: NumPy functions / ufunc.reduce(axis=None) and the legacy x.ufuncs
    interface against the same reduction of the stacked arrays - exact for integers (values beyond 2**53), NaN
    propagated wherever it sits, result type as NumPy's."""
    rng = ctx.rng('pspace-reductions')
    big = 2 ** 60
    cases = []
    pi = odl.tensor_space(3, dtype='int64') ** 2
    cases.append(('int64-power', pi, pi.element([[big, 3, -7], [big // 3, 11, 5]]), True))
    pb = odl.tensor_space(3, dtype=bool) ** 2
    cases.append(('bool-power', pb, pb.element([[True, False, True], [True, True, False]]), True))
    pf = odl.rn(3) ** 2
    for where in ((0, 1), (1, 2)):
        a = rng.normal(size=(2, 3))
        a[where] = np.nan
        cases.append(('float-power;nan-in-part-%d' % where[0], pf, pf.element(a), True))
    pd = odl.uniform_discr(0, 1, 4) ** 3
    a = rng.normal(size=(3, 4))
    a[2, 1] = np.nan
    cases.append(('discr-power;nan-in-last-part', pd, pd.element(a), True))
    pn = (odl.rn(2) ** 2) ** 2
    a = rng.normal(size=(2, 2, 2))
    a[1, 0, 1] = np.nan
    cases.append(('nested;nan-in-last-part', pn, pn.element(a), False))
    pp = odl.ProductSpace(odl.rn(3), odl.rn(2))
    cases.append(('product;nan-in-last-part', pp, pp.element([[1.0, 2.0, 3.0], [np.nan, 0.5]]), False))

    def stacked(e):
        if hasattr(e, 'parts'):
            return np.concatenate([stacked(q) for q in e.parts])
        return np.asarray(e).ravel()
    for cname, sp, x, has_array in cases:
        ref_arr = stacked(x)
        for red, uf in (('sum', np.add), ('prod', np.multiply), ('min', np.minimum), ('max', np.maximum)):
            if ref_arr.dtype == bool and red in ('sum', 'prod'):
                continue
            with np.errstate(all='ignore'):
                ref = uf.reduce(ref_arr)
            forms = [('legacy:' + red, lambda: getattr(x.ufuncs, red)())]
            if has_array:
                forms += [('np.' + red, lambda: getattr(np, red)(x)), ('reduce(axis=None)', lambda: uf.reduce(x, axis=None))]
            for tag, fn in forms:
                ctx.ev('differential')
                ctx.case('pspace-reduction;%s;%s' % (cname, tag), red)
                cfg = 'pspace-reduction;%s' % cname
                try:
                    with np.errstate(all='ignore'):
                        got = fn()
                    same_val = (np.isnan(got) and np.isnan(ref)) if (np.asarray(ref).dtype.kind == 'f' and np.isnan(ref)) else bool(got == ref)
                    if not same_val:
                        ctx.violation(tag.split(':')[0], cfg, 'value', reduction=red, got=str(got), ref=str(ref))
                    elif np.asarray(ref).dtype.kind in 'iub' and np.asarray(got).dtype.kind != np.asarray(ref).dtype.kind:
                        ctx.violation(tag.split(':')[0], cfg, 'dtype', reduction=red, got=str(np.asarray(got).dtype), ref=str(np.asarray(ref).dtype))
                except Exception as e:
                    ctx.violation(tag.split(':')[0], cfg, 'raises:' + type(e).__name__, reduction=red, message=str(e)[:200])


def run_memory(ctx):
    rng = ctx.rng('mem')
    for sname, sp in spaces():
        dt = np.dtype(sp.dtype)
        for order in ('C', 'F'):
            ctx.ev('memory')
            ctx.case('memory;%s;%s' % (sname, order), 0)
            arr = np.asarray(np.asarray(rnd(sp, rng)), order=order).copy(order=order)
            try:
                el = sp.element(arr)
                if arr.size and not np.shares_memory(arr, el.asarray()):
                    ctx.violation('element(arr)', '%s;%s' % (sname, order), 'no-memory-sharing')
                if not same(el.asarray(), arr):
                    ctx.violation('asarray', '%s;%s' % (sname, order), 'roundtrip')
                if arr.size:
                    v = arr.flat[0]
                    arr.flat[0] = (not v) if dt.kind == 'b' else v + 1
                    if not same(el.asarray(), arr):
                        ctx.violation('element(arr)', '%s;%s' % (sname, order), 'write-through-lost')
                out = np.empty(sp.shape, dt)
                r = el.asarray(out=out)
                if r is not out or not same(out, arr):
                    ctx.violation('asarray', '%s;%s' % (sname, order), 'out=')
                a2 = np.asarray(el)
                if not same(a2, arr):
                    ctx.violation('asarray', '%s;%s' % (sname, order), '__array__')
            except Exception as e:
                ctx.violation('element(arr)/asarray', '%s;%s' % (sname, order), 'raises:' + type(e).__name__, message=str(e)[:200])


class AmbientContract(object):
    """Record-only contract on ``NumpyTensor.__array_ufunc__`` and ``DiscretizedSpaceElement.__array_ufunc__`` (W-ambient):
    every dispatch the repository's own suite makes - ufunc call, reduce, accumulate, outer, at, reduceat, with or without
    ``out`` - against the same ufunc method on the underlying arrays (copies taken before the call)."""

    def __init__(self, rec):
        self.rec = rec
        self.busy = False

    def install(self):
        from odl.space.npy_tensors import NumpyTensor
        from odl.discr.discr_space import DiscretizedSpaceElement
        for cls in (NumpyTensor, DiscretizedSpaceElement):
            self._wrap(cls)

    def _wrap(self, cls):
        me = self
        orig = vars(cls)['__array_ufunc__']

        def unwrap(v):
            if hasattr(v, 'asarray') and hasattr(v, 'space'):
                return np.array(v.asarray(), copy=True)
            if isinstance(v, np.ndarray):
                return v.copy()
            return v

        def __array_ufunc__(self, ufunc, method, *inputs, **kwargs):
            if me.busy:
                return orig(self, ufunc, method, *inputs, **kwargs)
            try:
                snap = [unwrap(v) for v in inputs]
            except Exception:
                snap = None
            res = orig(self, ufunc, method, *inputs, **kwargs)
            if snap is None or res is NotImplemented:
                return res
            me.busy = True
            try:
                me.check(type(self).__name__, ufunc, method, inputs, snap, kwargs, res)
            except Exception as e:
                me.rec.note_add('ambient_contract_errors:' + type(e).__name__)
            finally:
                me.busy = False
            return res
        setattr(cls, '__array_ufunc__', __array_ufunc__)

    def check(self, cname, ufunc, method, inputs, snap, kwargs, res):
        self.rec.ev('ambient-ufunc')
        kw = {k: v for k, v in kwargs.items() if k != 'out'}
        has_out = kwargs.get('out') is not None and any(o is not None for o in (kwargs.get('out') if isinstance(kwargs.get('out'), tuple) else (kwargs.get('out'),)))
        cfg = 'ambient:%s;%s%s' % (cname, method, ';out' if has_out else '')
        with np.errstate(all='ignore'):
            if method == 'at':
                ref0 = snap[0].copy()
                ufunc.at(ref0, *snap[1:])
                got = np.asarray(inputs[0])
                if not np.array_equal(got, ref0, equal_nan=True) if got.dtype.kind in 'fc' else not np.array_equal(got, ref0):
                    self.rec.violation('at', cfg, 'value', ufunc=ufunc.__name__)
                return
            try:
                ref = getattr(ufunc, method)(*snap, **kw)
            except Exception:
                self.rec.note_add('ambient_reference_raised')
                return
        refs = ref if isinstance(ref, tuple) else (ref,)
        gots = res if isinstance(res, tuple) else (res,)
        if len(refs) != len(gots):
            self.rec.violation(method, cfg, 'number-of-results', ufunc=ufunc.__name__)
            return
        for g, r in zip(gots, refs):
            ga, ra = np.asarray(g), np.asarray(r)
            if ga.shape != ra.shape:
                self.rec.violation(method, cfg, 'shape', ufunc=ufunc.__name__, got=ga.shape, ref=ra.shape)
            elif not has_out and ga.dtype != ra.dtype:
                self.rec.violation(method, cfg, 'dtype', ufunc=ufunc.__name__, got=str(ga.dtype), ref=str(ra.dtype))
            else:
                rr = ra.astype(ga.dtype) if ga.dtype != ra.dtype else ra
                if ga.dtype.kind in 'fc':
                    tol = 1e-5 if ga.dtype.itemsize // (2 if ga.dtype.kind == 'c' else 1) <= 4 else 1e-12
                    ok = np.allclose(ga, rr, rtol=tol, atol=0, equal_nan=True)
                else:
                    ok = np.array_equal(ga, rr)
                if not ok:
                    self.rec.violation(method, cfg, 'value', ufunc=ufunc.__name__)


def run_ambient(ctx):
    from .c03 import ambient_suite
    data = ambient_suite(ctx, {'VF_AMBIENT_UFUNC': '1', 'VF_AMBIENT_NO_CALLMON': '1'}, 'c17')
    if not data:
        return
    st = data['stats']
    ctx.note('ambient', {k: v for k, v in st.items() if k.startswith('ambient')})
    ctx.ev('ambient-contract', int(st.get('ambient-ufunc', 0)))
    for v in data['violations']:
        ctx.violation(v['component'], v['config'], v['kind'], where='repository test-suite (W-ambient)', count=v['count'], example=v.get('example'))


def run(ctx):
    ctx.note('rule', 'one case = (method/operand/out variant, space kind, ufunc); all %d element-wise NumPy ufuncs x 18 spaces '
                     'are enumerated, plus the lattice {call, reduce, accumulate} x out {array, element} x out dtype x dtype= keyword; the seed '
                     'varies operand values; distinct = distinct (variant, space, ufunc); a case is '
                     'non-trivial whether NumPy accepts or rejects it (rejection must be mirrored)' % len(UFUNCS))
    ctx.note('ufuncs', len(UFUNCS))
    import odl.util.ufuncs as _uf, odl.util.utility as _ut
    from odl.space.base_tensors import Tensor as _T
    from odl.space.npy_tensors import NumpyTensor as _NT
    from odl.discr.discr_space import DiscretizedSpaceElement as _DE
    cov = cover.Cover()
    for c_ in (_T, _NT, _DE):
        cov.add(vars(c_).get('__array_ufunc__'), c_.__name__ + '.__array_ufunc__')
        cov.add(vars(c_).get('__array_wrap__'), c_.__name__ + '.__array_wrap__')
    for c_ in (_uf.TensorSpaceUfuncs, _uf.ProductSpaceUfuncs):
        cov.add(c_)
    cov.add(getattr(_uf, 'wrap_ufunc_base', None), 'wrap_ufunc_base')
    cov.add(getattr(_uf, 'wrap_ufunc_productspace', None), 'wrap_ufunc_productspace')
    cov.add(_ut.writable_array, 'writable_array')
    cov.arm()
    run_ufuncs(ctx)
    if ctx.shard == 0:
        run_reductions_legacy(ctx)
        run_pspace(ctx)
        run_pspace_reductions(ctx)
        run_memory(ctx)
        if ctx.thorough and ctx.round == 0:
            run_ambient(ctx)
    cover.report_to(ctx, cov)
    ctx.ev('memory', 0 if ctx.shard else 0)
    if ctx.shard != 0:
        ctx.monitors.pop('memory', None)
