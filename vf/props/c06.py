"""C06 -- derivative(x) is the Frechet derivative of the operator at x.

Deciding monitors
  fd-convergence : D = op.derivative(x); D(d) against (op(x+hd) - op(x-hd))/(2h) for h = 1e-1..1e-6: minimal
                   relative error < 1e-6 and second-order decay (vf/fd.py).
  derivative-typing : D is flagged linear, D.domain == op.domain, D.range == op.range, D is additive (real a).
  linear-is-own-derivative : for linear operators derivative(x) acts like the operator; for affine ones like the
                   linear part (zero-padding version).
Population: registry classes implementing derivative, block operators with nonlinear entries, expression
classes with user temporaries, random expression trees over differentiable leaves (chain / product / sum
rules at the right inner points).  Base points are kept away from documented kinks.
"""

import itertools

import numpy as np
import odl

from .. import cover, fd, registry, util
from . import c04
from .c03 import comp_of, variant_of

SHARDS = {'quick': 4, 'thorough': 16}
S = odl.solvers
EXEMPT = ('LinDeformFixedTempl',)      # derivative is a discretisation of the continuum formula (documented)
NOT_DIFFERENTIABLE = ('sign', 'floor', 'ceil', 'rint', 'trunc', 'fix', 'isfinite', 'isinf', 'isnan', 'signbit', 'logical', 'less', 'greater',
                      'equal', 'heaviside', 'spacing', 'nextafter', 'fmod', 'mod', 'remainder', 'floor_divide', 'divmod', 'modf', 'frexp',
                      'ldexp', 'copysign', 'maximum', 'minimum', 'fmax', 'fmin', 'bitwise', 'invert', 'shift', 'gcd', 'lcm', 'conj', 'p=inf')


def away_from_kinks(sp, rng, positive=False, lo=0.3, hi=1.5):
    if util.is_field(sp):
        if isinstance(sp, odl.ComplexNumbers):
            return complex(rng.uniform(lo, hi), rng.uniform(lo, hi))
        v = float(rng.uniform(lo, hi))
        return v if positive else v * float(rng.choice([-1, 1]))
    if util.is_pspace(sp):
        return sp.element([away_from_kinks(s, rng, positive, lo, hi) for s in sp])
    a = rng.uniform(lo, hi, size=sp.shape)
    if not positive:
        a = a * rng.choice([-1, 1], size=sp.shape)
    if sp.is_complex:
        a = a + 1j * rng.uniform(lo, hi, size=sp.shape) * rng.choice([-1, 1], size=sp.shape)
    return sp.element(a)


def direction(sp, rng):
    if util.is_field(sp):
        return complex(rng.normal(), rng.normal()) if isinstance(sp, odl.ComplexNumbers) else float(rng.normal())
    return util.rand_element(sp, rng)


def check(ctx, comp, cfg, op, rng, name='', positive=False, small=False):
    """Derivative of `op` at a random base point against central differences."""
    try:
        lo, hi = (0.3, 0.8) if small else (0.3, 1.5)
        x = away_from_kinks(op.domain, rng, positive, lo, hi)
        d = direction(op.domain, rng)
        if not util.is_field(op.domain):
            # keep x +- h d away from kinks for h <= 0.1
            nd = float(np.abs(util.to_cvec(op.domain, d)).max())
            if nd > 0:
                d = d * (1.0 / nd)
        elif abs(d) > 0:
            d = d / abs(d)
    except Exception as e:
        ctx.skip('no base point: ' + type(e).__name__)
        return
    try:
        D = op.derivative(x)
    except (odl.OpNotImplementedError, NotImplementedError):
        ctx.skip('no derivative offered')
        return
    except Exception as e:
        ctx.ev('derivative-typing')
        ctx.violation(comp, cfg, 'derivative-raises:' + type(e).__name__, name=name, message=str(e)[:300])
        return
    ctx.ev('derivative-typing')
    ctx.case('derivative;' + comp, name)
    try:
        if not isinstance(D, odl.Operator):
            ctx.violation(comp, cfg, 'derivative-not-an-operator', name=name, got=type(D).__name__)
            return
        if not D.is_linear:
            ctx.violation(comp, cfg, 'derivative-not-flagged-linear', name=name)
        if D.domain != op.domain or D.range != op.range:
            ctx.violation(comp, cfg, 'derivative-domain/range', name=name, got=(util.srepr(D.domain, 50), util.srepr(D.range, 50)))
            return
        Dd = D(d)
        vDd = util.to_cvec(op.range, Dd)
        vfx = util.to_cvec(op.range, op(x))
        if not (np.all(np.isfinite(vDd)) and np.all(np.isfinite(vfx))) or (vfx.size and np.abs(vfx).max() > 1e8) or (vDd.size and np.abs(vDd).max() > 1e10):
            ctx.skip('expression overflows / is numerically explosive at the base point')
            return
        # additivity of D (real scalar)
        d2 = direction(op.domain, rng)
        lhs = util.to_cvec(op.range, D(1.7 * d + d2))
        rhs = 1.7 * util.to_cvec(op.range, Dd) + util.to_cvec(op.range, D(d2))
        if not np.allclose(lhs, rhs, rtol=1e-9, atol=1e-9 * max(1.0, np.abs(rhs).max() if rhs.size else 1.0)):
            ctx.violation(comp, cfg, 'derivative-not-additive', name=name)
        ctx.ev('fd-convergence')
        errs = fd.fd_errors(op, op.range, x, d, Dd, Dfun=lambda xp: op.derivative(xp)(d),
                            floor=64 * np.finfo(float).eps * fd.term_scale(op, x, d))
        why = fd.verdict(errs)
        if why and not fd.quotient_sequence_converged(op.range):
            ctx.skip('difference quotients do not converge in the step range (oscillatory / explosive expression)')
            why = None
        if why and not fd.resolvable(op.range):
            ctx.skip('difference quotients do not resolve the derivative to 1e-6 at any step (no window between truncation and rounding)')
            why = None
        if why:
            ctx.violation(comp, cfg, why, name=name, errors=['%.1e' % e for e in errs])
        if not op.is_linear and not util.is_field(op.domain) and not comp.startswith('tree:'):
            # (not for the random expression trees: constants that cancel inside a tree, ((f + 1) * 3) - 1, hide the magnitude the
            # rounding noise has to be measured against)
            # base points of other magnitudes: point and direction scaled by 1e-9 / 1e-17 (the difference steps scale with them).
            # An absolute threshold or clip inside a derivative (|x| < eps treated as 0) shows only there; where the values are
            # dominated by O(1) constants the quotient drowns in the measured rounding noise and nothing is decided.
            for scl in (1e-9, 1e-17):
                ctx.ev('scaled-base-point')
                try:
                    xs_, ds_ = scl * x, scl * d
                    with np.errstate(all='ignore'):
                        Dds = op.derivative(xs_)(ds_)
                        vD = util.to_cvec(op.range, Dds)
                    if not np.all(np.isfinite(vD)):
                        ctx.skip('derivative not finite at the scaled base point')
                        continue
                    errs_s = fd.fd_errors(op, op.range, xs_, ds_, Dds, tiny=1e-12 * scl)
                    if fd.verdict(errs_s) and fd.quotient_sequence_converged(op.range) and fd.resolvable(op.range):
                        ctx.violation(comp, cfg, 'fd-mismatch-at-scaled-base-point', name=name, scale=scl, errors=['%.1e' % e for e in errs_s])
                        break
                except (odl.OpNotImplementedError, NotImplementedError):
                    break
                except Exception:
                    break
        if not op.is_linear:
            # a derivative object stays what it is: taking the derivative at another point, or evaluating the operator (also in
            # place), must not change D(x)(d) of a derivative taken earlier (temporaries shared between calls)
            ctx.ev('point-history')
            try:
                x_other = away_from_kinks(op.domain, rng, positive, 0.3, 0.8 if small else 1.5) if not util.is_field(op.domain) else x * 0.7
                D_other = op.derivative(x_other)
                D_other(d)
                if not util.is_field(op.range):
                    op(x_other, out=op.range.element())
                else:
                    op(x_other)
                again = util.to_cvec(op.range, D(d))
                if not np.allclose(again, vDd, rtol=1e-12, atol=1e-12 * max(1.0, float(np.abs(vDd).max()) if vDd.size else 1.0)):
                    ctx.violation(comp, cfg, 'earlier-derivative-changed-by-later-calls', name=name, maxdiff=float(np.abs(again - vDd).max()))
            except (odl.OpNotImplementedError, NotImplementedError):
                pass
        if not util.is_field(op.domain) and not op.is_linear:
            # history: the same point *object*, changed in place between two derivative calls on the same operator (what
            # iterative solvers do with their iterate) - against the derivative at a fresh object holding the same values
            ctx.ev('point-history')
            try:
                xs = x.copy()
                op.derivative(xs)(d)
                xs.lincomb(0.8, xs)
                got2 = util.to_cvec(op.range, op.derivative(xs)(d))
                ref2 = util.to_cvec(op.range, op.derivative(xs.copy())(d))
                if np.all(np.isfinite(ref2)) and not np.allclose(got2, ref2, rtol=1e-12, atol=1e-12 * max(1.0, float(np.abs(ref2).max()) if ref2.size else 1.0)):
                    ctx.violation(comp, cfg, 'derivative-at-a-point-object-changed-in-place-is-stale', name=name,
                                  maxdiff=float(np.abs(got2 - ref2).max()))
            except (odl.OpNotImplementedError, NotImplementedError):
                pass
        if op.is_linear:
            ctx.ev('linear-is-own-derivative')
            a = util.to_cvec(op.range, Dd)
            b = util.to_cvec(op.range, op(d))
            if not np.allclose(a, b, rtol=1e-10, atol=1e-12 * max(1.0, np.abs(b).max() if b.size else 1.0)):
                ctx.violation(comp, cfg, 'linear-operator-derivative-differs', name=name)
    except (odl.OpNotImplementedError, NotImplementedError):
        ctx.skip('derivative call not implemented')
    except Exception as e:
        ctx.violation(comp, cfg, 'raises:' + type(e).__name__, name=name, message=str(e)[:300])


def wrapper_rules(ctx, name, op, rng, positive=False, small=False):
    """Derivatives of the arithmetic wrappers follow the calculus rules *relative to the derivative the leaf offers*
    (exact identities, no finite differences): (sA)'(x) = s A'(x), (As)'(x) = s A'(sx), (A+A)' = 2A', (-A)' = -A',
    (A+v)' = A', (vA)'(x) = v A'(x), (Aw)'(x)d = A'(wx)(wd), (P2 o A)'(x)d = 2 A(x) A'(x)d."""
    if util.is_field(op.range) or util.is_field(op.domain) or isinstance(op, S.Functional):
        return
    if any(np.dtype(l.dtype).kind not in 'fc' for sp in (op.domain, op.range) for _p, l in util.leaves(sp)):
        return
    lo, hi = (0.3, 0.8) if small else (0.3, 1.5)
    try:
        x = away_from_kinks(op.domain, rng, positive, lo, hi)
        d = direction(op.domain, rng)
        op.derivative(x)(d)
    except Exception:
        return
    sc = 0.8
    try:
        v = util.rand_element(op.range, rng)
        w = away_from_kinks(op.domain, rng, True, 0.5, 1.0)
    except Exception:
        return
    D = lambda pt: op.derivative(pt)
    rules = [('s*', lambda: sc * op, lambda: sc * D(x)(d)),
             ('*s', lambda: op * sc, lambda: sc * D(sc * x)(d)),
             ('+op', lambda: op + op, lambda: 2 * D(x)(d)),
             ('neg', lambda: -op, lambda: -1 * D(x)(d)),
             ('+v', lambda: op + v, lambda: D(x)(d)),
             ('v*', lambda: v * op, lambda: v * D(x)(d)),
             ('*w', lambda: op * w, lambda: D(w * x)(w * d)),
             ('P2o', lambda: odl.PowerOperator(op.range, 2) * op, lambda: 2 * op(x) * D(x)(d)),
             ('s*(+v)*s', lambda: (sc * (op + v)) * sc, lambda: sc * sc * D(sc * x)(d))]
    cfg = util.space_tag(op.domain)
    for tag, mk, rule in rules:
        try:
            W = mk()
        except Exception:
            continue
        ctx.ev('wrapper-derivative-rule')
        ctx.case('wrapper-rule;%s;%s' % (comp_of(name), tag), name)
        try:
            got = util.to_cvec(op.range, W.derivative(x)(d))
        except (odl.OpNotImplementedError, NotImplementedError):
            ctx.skip('wrapper offers no derivative')
            continue
        except Exception as e:
            ctx.violation('wrapper:' + tag, cfg, 'derivative-raises:' + type(e).__name__, name=name, message=str(e)[:200])
            continue
        try:
            with np.errstate(all='ignore'):
                ref = util.to_cvec(op.range, rule())
            if not np.all(np.isfinite(ref)):
                ctx.skip('rule value not finite at the base point')
                continue
            if not np.allclose(got, ref, rtol=1e-10, atol=1e-10 * max(1.0, float(np.abs(ref).max()) if ref.size else 1.0)):
                ctx.violation('wrapper:' + tag, cfg, 'derivative!=rule-applied-to-leaf-derivative', name=name, maxdiff=float(np.abs(got - ref).max()))
        except Exception as e:
            ctx.note_add('monitor-exception:' + type(e).__name__)


def run_registry(ctx):
    rng = ctx.rng('registry')
    crng = ctx.crng('ctor')
    for i, (group, name, thunk) in enumerate(registry.all_recipes(crng, ctx.thorough)):
        if not ctx.mine(i):
            continue
        if any(e in name for e in EXEMPT) or any(k in name for k in NOT_DIFFERENTIABLE):
            continue
        if group == 'func' and any(k in name for k in ('Indicator', 'L1Norm', 'LpNorm/inf', 'LpNorm/1', 'GroupL1', 'Nuclear', 'Huber', 'Numerical',
                                                       'convex_conj/L1', 'InfimalConvolution', 'MoreauEnvelope', 'translated/L1', 'scaled/L1',
                                                       'scalar-sum/L1', 'quadratic-perturb/L1', 'SeparableSum', 'default(')):
            continue   # kinks / no derivative; Huber & Moreau are C1 only (second-order rate does not apply) -> C09
        try:
            op = thunk()
        except Exception:
            continue   # constructor problems are C03's business
        comp = comp_of(name)
        var = variant_of(name)
        cfg = '%s;%s' % (var, util.space_tag(op.domain)) if var else util.space_tag(op.domain)
        if i % 53 == 0:
            ctx.sample({'recipe': name})
        positive = registry.needs_positive(name)
        small = any(k in name for k in ('arcsin', 'arccos', 'arctanh', 'KullbackLeiblerConvexConj', 'convex_conj/KL'))
        check(ctx, comp, cfg, op, rng, name=name, positive=positive or 'arccosh' in name, small=small)
        if group != 'func' and 'arccosh' not in name:
            wrapper_rules(ctx, name, op, rng, positive=positive, small=small)
        if group == 'func' and (ctx.thorough or i % 3 == ctx.seed % 3 or 'comp(' in name):
            # second derivatives: the gradient of a functional is an operator with a derivative of its own (the Hessian)
            try:
                gop = op.gradient
                gop.derivative
            except Exception:
                gop = None
            if gop is not None and not any(k in name for k in ('KullbackLeibler', 'Numerical')):
                check(ctx, comp + '.gradient', cfg, gop, rng, name=name + '.gradient', positive=positive, small=small)


def specials(rng):
    r4 = odl.rn(4)
    c4 = odl.cn(4)
    d5 = odl.uniform_discr(0, 1, 5)
    r4w = odl.rn(4, weighting=[1, 2, 3, .5])
    for n, sp in [('r4', r4), ('d5', d5), ('r4w', r4w), ('c4', c4)]:
        P2 = lambda sp=sp: odl.PowerOperator(sp, 2)
        P3 = lambda sp=sp: odl.PowerOperator(sp, 3)
        v = lambda sp=sp: util.rand_element(sp, rng)
        yield 'OperatorPointwiseProduct/' + n, lambda sp=sp: odl.OperatorPointwiseProduct(P2(), odl.ScalingOperator(sp, 2.0) + v())
        yield 'DiagonalOperator/nonlinear/' + n, lambda sp=sp: odl.DiagonalOperator(P2(), P3())
        yield 'BroadcastOperator/nonlinear/' + n, lambda sp=sp: odl.BroadcastOperator(P2(), odl.IdentityOperator(sp))
        yield 'ReductionOperator/nonlinear/' + n, lambda sp=sp: odl.ReductionOperator(P2(), P3())
        # the documented short-hand (op, n): all blocks are the SAME operator object, each acting on / at its own component
        yield 'ReductionOperator/same-nonlinear-object/' + n, lambda sp=sp: odl.ReductionOperator(P3(), 3)
        yield 'BroadcastOperator/same-nonlinear-object/' + n, lambda sp=sp: odl.BroadcastOperator(P3(), 3)
        yield 'DiagonalOperator/same-nonlinear-object/' + n, lambda sp=sp: odl.DiagonalOperator(P3(), 3)
        yield 'ReductionOperator/same-nonlinear-object-listed/' + n, lambda sp=sp: (lambda o: odl.ReductionOperator(o, o))(P2() + v())
        yield 'ProductSpaceOperator/nonlinear/' + n, lambda sp=sp: odl.ProductSpaceOperator([[P2(), odl.IdentityOperator(sp)], [None, P3()]])
        yield 'ProductSpaceOperator/nonlinear-off-diagonal/' + n, lambda sp=sp: odl.ProductSpaceOperator([[P2(), P3()], [P3(), None]])
        yield 'ProductSpaceOperator/nonlinear-off-diagonal-only/' + n, lambda sp=sp: odl.ProductSpaceOperator([[None, P2()], [P3(), None]])
        yield 'ProductSpaceOperator/nonlinear-row/' + n, lambda sp=sp: odl.ProductSpaceOperator([[P3(), P2()]])
        yield 'ProductSpaceOperator/nonlinear-column/' + n, lambda sp=sp: odl.ProductSpaceOperator([[P3()], [P2()]])
        yield 'OperatorSum/user-tmp/' + n, lambda sp=sp: odl.OperatorSum(P2(), P3(), tmp_ran=sp.element(), tmp_dom=sp.element())
        yield 'OperatorComp/user-tmp/' + n, lambda sp=sp: odl.OperatorComp(P2(), P3(), sp.element())
        yield 'OperatorRightScalarMult/user-tmp/' + n, lambda sp=sp: odl.operator.operator.OperatorRightScalarMult(P3(), -1.5, sp.element())
        if not sp.is_real:
            # inner operators whose derivative objects refer to the point they were given
            yield 'OperatorRightScalarMult/user-tmp-ComplexModulusSquared/' + n, lambda sp=sp: odl.operator.operator.OperatorRightScalarMult(odl.ComplexModulusSquared(sp), 0.7, sp.element())
            yield 'OperatorRightScalarMult/user-tmp-ComplexModulus/' + n, lambda sp=sp: odl.operator.operator.OperatorRightScalarMult(odl.ComplexModulus(sp), -1.3, sp.element())
            yield 'OperatorComp/user-tmp-ComplexModulusSquared/' + n, lambda sp=sp: odl.OperatorComp(odl.ComplexModulusSquared(sp), odl.ScalingOperator(sp, 0.7), sp.element())
        yield 'OperatorLeftVectorMult/nonlinear/' + n, lambda sp=sp: v() * P2()
        yield 'OperatorRightVectorMult/nonlinear/' + n, lambda sp=sp: P3() * v()
        yield 'OperatorVectorSum/nonlinear/' + n, lambda sp=sp: P2() + v()
        yield 'FunctionalLeftVectorMult/nonlinear/' + n, lambda sp=sp: odl.rn(2).element([1.0, -2.0]) * odl.NormOperator(sp) if sp.is_real else odl.cn(2).element([1.0, -2.0j]) * odl.InnerProductOperator(v())
        if sp.is_real:
            yield 'OperatorComp/Norm-of-Power/' + n, lambda sp=sp: odl.NormOperator(sp) * P2()
        yield 'PowerOperator/field-after-norm/' + n, lambda sp=sp: odl.PowerOperator(sp.real_space.field, 3) * odl.NormOperator(sp) if sp.is_real else P2()
    sp = odl.rn(3)
    sp2 = odl.rn(2)
    yield 'OperatorSum/domain!=range/user-tmp', lambda: odl.OperatorSum(
        odl.MatrixOperator(rng.normal(size=(2, 3)), domain=sp, range=sp2) * odl.PowerOperator(sp, 2),
        odl.MatrixOperator(rng.normal(size=(2, 3)), domain=sp, range=sp2) * odl.PowerOperator(sp, 3), tmp_ran=sp2.element(), tmp_dom=sp.element())


def run_numerical(ctx):
    """NumericalDerivative / NumericalGradient are documented one-sided / central difference approximations: for every
    method they must approximate the analytic derivative to their documented order (a sign or operand slip is O(1) off)."""
    from odl.solvers.functional.derivatives import NumericalDerivative, NumericalGradient
    rng = ctx.rng('numerical')
    for sname, sp in (('r4', odl.rn(4)), ('d5', odl.uniform_discr(0, 1, 5)), ('r4w', odl.rn(4, weighting=1.7)),
                      ('r4aw', odl.rn(4, weighting=np.array([0.5, 1.0, 2.0, 4.0]))), ('d2x3', odl.uniform_discr([0, 0], [1, 3], (2, 3))),
                      ('r(2,3)', odl.rn((2, 3)))):
        ops = [('Power3', odl.PowerOperator(sp, 3)), ('sin', odl.ufunc_ops.sin(sp)), ('Power2+v', odl.PowerOperator(sp, 2) + util.rand_element(sp, rng))]
        for (oname, op), method in itertools.product(ops, ('forward', 'backward', 'central')):
            for step in (None, 1e-4):
                x = away_from_kinks(sp, rng, False, 0.3, 1.5)
                d = direction(sp, rng)
                ctx.ev('numerical-derivative')
                ctx.case('numerical;NumericalDerivative;%s;%s' % (oname, sname), (method, step))
                cfg = '%s;%s' % (method, 'default-step' if step is None else 'step-given')
                try:
                    ND = NumericalDerivative(op, x, method=method, **({} if step is None else {'step': step}))
                    got = util.to_cvec(sp, ND(d))
                    ref = util.to_cvec(sp, op.derivative(x)(d))
                    tol = 1e-2 * max(1.0, float(np.abs(ref).max()))
                    if not np.allclose(got, ref, rtol=0, atol=tol):
                        ctx.violation('NumericalDerivative', cfg, 'not-an-approximation-of-the-derivative', operator=oname,
                                      maxdiff=float(np.abs(got - ref).max()))
                except Exception as e:
                    ctx.violation('NumericalDerivative', cfg, 'raises:' + type(e).__name__, message=str(e)[:200])
        f = S.L2NormSquared(sp) * odl.PowerOperator(sp, 2) if not isinstance(sp, odl.DiscretizedSpace) else S.L2NormSquared(sp)
        for method in ('forward', 'backward', 'central'):
            x = away_from_kinks(sp, rng, False, 0.3, 1.5)
            d = direction(sp, rng)
            ctx.ev('numerical-derivative')
            ctx.case('numerical;NumericalGradient;%s' % sname, method)
            try:
                NG = NumericalGradient(f, method=method)
                got = util.to_cvec(sp, NG(x))
                ref = util.to_cvec(sp, f.gradient(x))
                tol = 1e-2 * max(1.0, float(np.abs(ref).max()))
                if not np.allclose(got, ref, rtol=0, atol=tol):
                    ctx.violation('NumericalGradient', method, 'not-an-approximation-of-the-gradient', maxdiff=float(np.abs(got - ref).max()))
                # its derivative: a NumericalDerivative of the numerical gradient ~ Hessian action = derivative of the gradient
                hd = util.to_cvec(sp, NG.derivative(x)(d))
                if isinstance(sp, odl.DiscretizedSpace):
                    refh = util.to_cvec(sp, f.gradient.derivative(x)(d))
                else:       # f = sum w x_i^4: gradient 4 x^3 (the weight cancels), Hessian action 12 x^2 d
                    refh = 12 * util.to_cvec(sp, x) ** 2 * util.to_cvec(sp, d)
                tol = 5e-2 * max(1.0, float(np.abs(refh).max()))
                if not np.allclose(hd, refh, rtol=0, atol=tol):
                    ctx.violation('NumericalGradient.derivative', method, 'not-an-approximation-of-the-derivative', maxdiff=float(np.abs(hd - refh).max()))
                # the derived operator keeps the scheme of its parent: with method='central' and an explicit step the Hessian
                # action of a quartic is second-order accurate (step sqrt(1e-6) = 1e-3: ~1e-6 relative; one-sided: ~1e-3)
                if method == 'central' and not isinstance(sp, odl.DiscretizedSpace):
                    ctx.ev('numerical-derivative')
                    NGc = NumericalGradient(f, method='central', step=1e-6)
                    hd2 = util.to_cvec(sp, NGc.derivative(x)(d))
                    err = float(np.abs(hd2 - refh).max()) / max(1.0, float(np.abs(refh).max()))
                    if err > 2e-5:
                        ctx.violation('NumericalGradient.derivative', 'central;step-given', 'not-second-order-accurate', relerr=err)
            except (odl.OpNotImplementedError, NotImplementedError):
                ctx.skip('no analytic reference')
            except Exception as e:
                ctx.violation('NumericalGradient', method, 'raises:' + type(e).__name__, message=str(e)[:200])


def run_specials(ctx):
    rng = ctx.rng('specials')
    crng = ctx.crng('specials-ctor')
    for i, (name, thunk) in enumerate(specials(crng)):
        if not ctx.mine(i):
            continue
        try:
            op = thunk()
        except Exception as e:
            ctx.ev('derivative-typing')
            ctx.violation(name.split('/')[0], '/'.join(name.split('/')[1:]), 'ctor-raises:' + type(e).__name__, message=str(e)[:200])
            continue
        for rep in range(ctx.reps(2, 6)):
            check(ctx, name.split('/')[0], '/'.join(name.split('/')[1:]), op, rng, name=name)


def run_trees(ctx):
    rng = ctx.rng('trees')
    n = ctx.reps(200, 2000)
    for t in range(n):
        env = c04.Env('R', rng)
        base = [l for l in env.leaves() if l[0] not in ('L1Norm',)]
        env.leaves = lambda base=base: base
        depth = int(rng.integers(1, ctx.reps(4, 6)))
        try:
            node, trail = c04.gen_tree(env, depth, rng)
        except Exception:
            continue
        if not trail:
            continue
        op = node[0]
        comp = 'tree:%s(%s)' % (trail[-1], trail[-2] if len(trail) > 1 else 'leaf')
        check(ctx, comp, 'R', op, rng, name=node[3], small=True)


def run(ctx):
    ctx.note('rule', 'one case = (operator instance or expression tree, base point away from kinks, direction); registry classes '
                     'implementing derivative x spaces, block / expression operators with nonlinear entries and user temporaries, '
                     'seeded random trees over differentiable leaves; 9 arithmetic / chain-rule wrappers per leaf decided exactly against '
                     'the rule applied to the leaf derivative; distinct = distinct recipe names / expression texts')
    ctx.note('exempt', list(EXEMPT))
    cov = cover.Cover()
    from odl.operator import operator as opm, default_ops, tensor_ops, pspace_ops
    from odl.ufunc_ops import ufunc_ops
    for mod in (opm, default_ops, tensor_ops, pspace_ops):
        for cname, c in vars(mod).items():
            if isinstance(c, type) and issubclass(c, odl.Operator) and c.__module__ == mod.__name__:
                cov.add(vars(c).get('derivative'), '%s.derivative' % cname)
    cov.arm()
    run_registry(ctx)
    run_specials(ctx)
    if ctx.shard == 0:
        run_numerical(ctx)
    run_trees(ctx)
    cov.disarm()
    n_exec, n_hit, unreached = cov.report()
    ctx.note('line_coverage', {'executable': n_exec, 'hit': n_hit})
    for u in unreached:
        ctx.note_set('unreached_lines', u)
