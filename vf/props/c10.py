"""C10 -- proximals and solver building blocks are safe when out is aliased to the input.

Deciding monitors
  aliased-differential : y = x.copy(); P(y, out=y) must leave exactly P(x) in y (1e-12 relative) and return y --
                         for every proximal factory x options {with / without data term g, scalar / element sigma,
                         lam != 1} x spaces (incl. > 100 entries, discretized, weighted, power spaces), every
                         proximal the functional classes produce (functab) and every arithmetic wrapper.
  building-blocks      : the operators shipped solvers apply in place (scaling, identity, multiply, constant,
                         I - v, lincomb, projections, matrix, sums / compositions / scalar and vector multiples).
  solver-call-sites    : every aliased Operator call made *inside* the shipped solvers during small runs is
                         shadow-executed out-of-place and compared at its real call site (S-alias).
"""

import numpy as np
import odl

from .. import cover, functab, sanitize, util

SHARDS = {'quick': 2, 'thorough': 8}
S = odl.solvers
P = odl.solvers.nonsmooth.proximal_operators


def rel(sp, rng, pos=False):
    return util.rand_element(sp, rng, positive=pos)


def aliased_check(ctx, comp, cfg, op, x, monitor='aliased-differential'):
    ctx.ev(monitor)
    try:
        ref = op(x)
    except (NotImplementedError, odl.OpNotImplementedError):
        ctx.skip('not implemented')
        return
    except Exception as e:
        ctx.violation(comp, cfg, 'raises-oop:' + type(e).__name__, message=str(e)[:200])
        return
    try:
        y = x.copy()
        r = op(y, out=y)
        if r is not y:
            ctx.violation(comp, cfg, 'not-out')
        if not util.close(y, ref, 1e-12, 1e-13):
            ctx.violation(comp, cfg, 'aliased!=oop', maxdiff=util.maxdiff(y, ref))
    except (NotImplementedError, odl.OpNotImplementedError):
        ctx.skip('in-place not implemented')
        return
    except Exception as e:
        ctx.violation(comp, cfg, 'raises-aliased:' + type(e).__name__, message=str(e)[:200])
        return
    # the way solvers use it: the same operator applied in place to the same element again and again, with nothing in
    # between (anything the operator remembers about the element object is stale after the first call)
    ctx.ev('repeated-in-place')
    try:
        chain = [ref]
        for _ in range(2):
            chain.append(op(chain[-1]))
        y = x.copy()
        snaps = []
        for _ in range(3):
            op(y, out=y)
            snaps.append(util.snap(y))
        for k, (sn, rf) in enumerate(zip(snaps, chain)):
            if sn != util.snap(rf):
                z = x.copy()      # value comparison (only after all aliased calls are done)
                for _ in range(k + 1):
                    z = op(z)
                if not util.close(rf, z, 1e-12, 1e-13):
                    break         # the out-of-place chain itself is not reproducible: not an aliasing question
                yk = x.copy()
                for _ in range(k + 1):
                    op(yk, out=yk)
                if not util.close(yk, rf, 1e-10, 1e-12):
                    ctx.violation(comp, cfg, 'aliased!=oop', symptom='repeated in-place application', call=k + 1, maxdiff=util.maxdiff(yk, rf))
                    break
    except (NotImplementedError, odl.OpNotImplementedError):
        pass
    except Exception as e:
        ctx.violation(comp, cfg, 'raises-aliased:' + type(e).__name__, message=str(e)[:200], probe='repeated in-place')


def factories(sp, rng):
    """(name, factory, element-sigma-documented)"""
    g = rel(sp, rng)
    gp = rel(sp, rng, True)
    for lam in (1, 0.7):
        for gname, gg in (('no-g', None), ('g', g)):
            t = 'lam=%s,%s' % ('1' if lam == 1 else 'other', gname)
            yield 'proximal_l1/' + t, P.proximal_l1(sp, lam, gg), True
            yield 'proximal_convex_conj_l1/' + t, P.proximal_convex_conj_l1(sp, lam, gg), True
            yield 'proximal_l2/' + t, P.proximal_l2(sp, lam, gg), False
            yield 'proximal_convex_conj_l2/' + t, P.proximal_convex_conj_l2(sp, lam, gg), False
            yield 'proximal_l2_squared/' + t, P.proximal_l2_squared(sp, lam, gg), True
            yield 'proximal_convex_conj_l2_squared/' + t, P.proximal_convex_conj_l2_squared(sp, lam, gg), True
        for gname, gg in (('no-g', None), ('g', gp)):
            t = 'lam=%s,%s' % ('1' if lam == 1 else 'other', gname)
            yield 'proximal_convex_conj_kl/' + t, P.proximal_convex_conj_kl(sp, lam, gg), False
            yield 'proximal_convex_conj_kl_cross_entropy/' + t, P.proximal_convex_conj_kl_cross_entropy(sp, lam, gg), False
    yield 'proximal_linfty', P.proximal_linfty(sp), False
    yield 'proximal_convex_conj_linfty', P.proximal_convex_conj_linfty(sp), False
    yield 'proximal_box_constraint/scalar', P.proximal_box_constraint(sp, -0.3, 0.5), False
    yield 'proximal_box_constraint/element-lower', P.proximal_box_constraint(sp, -0.3 * sp.one(), None), False
    yield 'proximal_box_constraint/upper-only', P.proximal_box_constraint(sp, None, 0.4), False
    if not util.is_pspace(sp) and sp.is_real:
        # bounds given as plain arrays / nested lists (converted by the factory), mixed with a scalar
        lo_arr = -0.3 + 0.1 * np.arange(sp.size, dtype=float).reshape(sp.shape) / max(sp.size, 1)
        yield 'proximal_box_constraint/array-like-bounds', P.proximal_box_constraint(sp, lo_arr, (lo_arr + 0.7).tolist()), False
        yield 'proximal_box_constraint/array-lower,scalar-upper', P.proximal_box_constraint(sp, lo_arr, 0.6), False
    yield 'proximal_nonnegativity', P.proximal_nonnegativity(sp), False
    yield 'proximal_const_func', P.proximal_const_func(sp), False
    yield 'proximal_huber', P.proximal_huber(sp, 0.3), False
    base = P.proximal_l2(sp)
    yield 'proximal_translation(l2)', P.proximal_translation(base, g), False
    yield 'proximal_translation(l1)', P.proximal_translation(P.proximal_l1(sp), g), False
    yield 'proximal_arg_scaling(l2)', P.proximal_arg_scaling(base, 1.7), False
    yield 'proximal_arg_scaling(l2,scaling=0)', P.proximal_arg_scaling(base, 0), False
    yield 'proximal_arg_scaling(l1,negative)', P.proximal_arg_scaling(P.proximal_l1(sp), -1.3), False
    yield 'proximal_arg_scaling(l1,element-scaling)', P.proximal_arg_scaling(P.proximal_l1(sp), 0 * g + 1.7), False
    yield 'proximal_quadratic_perturbation(l2)/u', P.proximal_quadratic_perturbation(base, 0.6, g), False
    yield 'proximal_quadratic_perturbation(l2)/no-u', P.proximal_quadratic_perturbation(base, 0.6), False
    yield 'proximal_convex_conj(l2_squared)', P.proximal_convex_conj(P.proximal_l2_squared(sp)), True
    yield 'proximal_convex_conj(l1)', P.proximal_convex_conj(P.proximal_l1(sp)), False
    yield 'proximal_composition(l2,2I)', P.proximal_composition(base, odl.ScalingOperator(sp, 2.0), 4.0), False
    yield 'proj_simplex', S.IndicatorSimplex(sp).proximal, False
    yield 'proj_l1', S.IndicatorLpUnitBall(sp, 1).proximal, False
    yield 'IndicatorSumConstraint', S.IndicatorSumConstraint(sp, 1.5).proximal, False
    yield 'IndicatorZero', S.IndicatorZero(sp).proximal, False
    yield 'MoreauEnvelope.gradient', (lambda s: S.MoreauEnvelope(S.L1Norm(sp), s).gradient), False


def pfactories(ps, rng):
    g = rel(ps, rng)
    for gname, gg in (('no-g', None), ('g', g)):
        for lam in (1.0, 0.7):
            t = 'lam=%s,%s' % ('1' if lam == 1 else 'other', gname)
            yield 'proximal_l1_l2/' + t, P.proximal_l1_l2(ps, lam, gg)
            yield 'proximal_convex_conj_l1_l2/' + t, P.proximal_convex_conj_l1_l2(ps, lam, gg)
    yield 'combine_proximals(l1)', P.combine_proximals(*[P.proximal_l1(s) for s in ps])
    yield 'combine_proximals(l2,huber)', P.combine_proximals(P.proximal_l2(ps[0]), P.proximal_huber(ps[1], 0.3))
    yield 'SeparableSum(L2Norm)', S.SeparableSum(*[S.L2Norm(s) for s in ps]).proximal
    yield 'SeparableSum(L1Norm)', S.SeparableSum(*[S.L1Norm(s) for s in ps]).proximal
    yield 'proximal_l1(pspace)', P.proximal_l1(ps)
    yield 'proximal_l2(pspace)', P.proximal_l2(ps)
    yield 'proximal_box_constraint(pspace)', P.proximal_box_constraint(ps, 0, 1)
    yield 'proximal_huber(pspace)', P.proximal_huber(ps, 0.3)
    yield 'GroupL1Norm', S.GroupL1Norm(ps).proximal
    yield 'IndicatorGroupL1UnitBall', S.IndicatorGroupL1UnitBall(ps).proximal


def run_factories(ctx):
    rng = ctx.rng('factories')
    idx = 0
    spaces = [('rn5', odl.rn(5)), ('rn150', odl.rn(150)), ('discr6', odl.uniform_discr(0, 2, 6)), ('rn5w', odl.rn(5, weighting=2.0)),
              ('discr2d', odl.uniform_discr([0, 0], [1, 2], (3, 4)))]
    for sname, sp in spaces:
        for name, fac, elem_sigma in factories(sp, rng):
            for stype, sigma in ([('scalar', 0.8)] + ([('element', rel(sp, rng, True))] if elem_sigma else [])):
                idx += 1
                if not ctx.mine(idx):
                    continue
                comp, _, var = name.partition('/')
                cfg = '%s;%s;sigma=%s' % (var, util.space_tag(sp), stype) if var else '%s;sigma=%s' % (util.space_tag(sp), stype)
                ctx.case('factory;%s;%s;%s' % (name, sname, stype), 0)
                try:
                    prox = fac(sigma)
                except Exception as e:
                    ctx.ev('aliased-differential')
                    ctx.violation(comp, cfg, 'factory-raises:' + type(e).__name__, message=str(e)[:200])
                    continue
                for rep in range(ctx.reps(2, 6)):
                    x = rel(sp, rng) * (1.0 if rep % 2 == 0 else 1e-2)
                    aliased_check(ctx, comp, cfg, prox, x)
                if stype == 'scalar' and sp.size <= 20:
                    for wtag, W in arithmetic_wrappers(prox, sp, rng):
                        aliased_check(ctx, 'wrapper:' + wtag, '%s;%s' % (comp, util.space_tag(sp)), W, rel(sp, rng))
                if idx % 37 == 0:
                    ctx.sample({'factory': name, 'space': util.srepr(sp, 50), 'sigma': stype})
    for sname, ps in [('rn4^2', odl.rn(4) ** 2), ('discr^2', odl.uniform_discr(0, 1, 5) ** 2), ('rn120^2', odl.rn(120) ** 2)]:
        for name, fac in pfactories(ps, rng):
            idx += 1
            if not ctx.mine(idx):
                continue
            comp, _, var = name.partition('/')
            cfg = '%s;%s' % (var, util.space_tag(ps)) if var else util.space_tag(ps)
            ctx.case('pfactory;%s;%s' % (name, sname), 0)
            try:
                prox = fac(0.8)
            except Exception as e:
                ctx.ev('aliased-differential')
                ctx.violation(comp, cfg, 'factory-raises:' + type(e).__name__, message=str(e)[:200])
                continue
            for rep in range(ctx.reps(2, 6)):
                aliased_check(ctx, comp, cfg, prox, rel(ps, rng))


def own_parameter_builders(sp):
    """(name, build(g) -> proximal operator, needs positive g): proximals that hold a data element g by reference."""
    base = P.proximal_l2(sp)
    yield 'proximal_translation(l2)', lambda g: P.proximal_translation(base, g)(0.8), False
    yield 'proximal_translation(l1)', lambda g: P.proximal_translation(P.proximal_l1(sp), g)(0.8), False
    yield 'proximal_translation(box)', lambda g: P.proximal_translation(P.proximal_box_constraint(sp, -0.3, 0.5), g)(0.8), False
    yield 'proximal_l1/g', lambda g: P.proximal_l1(sp, 0.7, g)(0.8), False
    yield 'proximal_convex_conj_l1/g', lambda g: P.proximal_convex_conj_l1(sp, 0.7, g)(0.8), False
    yield 'proximal_l2/g', lambda g: P.proximal_l2(sp, 0.7, g)(0.8), False
    yield 'proximal_convex_conj_l2/g', lambda g: P.proximal_convex_conj_l2(sp, 0.7, g)(0.8), False
    yield 'proximal_l2_squared/g', lambda g: P.proximal_l2_squared(sp, 0.7, g)(0.8), False
    yield 'proximal_convex_conj_l2_squared/g', lambda g: P.proximal_convex_conj_l2_squared(sp, 0.7, g)(0.8), False
    yield 'proximal_convex_conj_kl/g', lambda g: P.proximal_convex_conj_kl(sp, 0.7, g)(0.8), True
    yield 'proximal_convex_conj_kl_cross_entropy/g', lambda g: P.proximal_convex_conj_kl_cross_entropy(sp, 0.7, g)(0.8), True
    yield 'proximal_quadratic_perturbation(l2)/u', lambda g: P.proximal_quadratic_perturbation(base, 0.6, g)(0.8), False
    yield 'proximal_box_constraint/element-lower', lambda g: P.proximal_box_constraint(sp, g, None)(0.8), False
    yield 'L1Norm.translated.proximal', lambda g: S.L1Norm(sp).translated(g).proximal(0.8), False
    yield 'L2NormSquared.translated.proximal', lambda g: S.L2NormSquared(sp).translated(g).proximal(0.8), False
    yield 'L2Norm.translated.convex_conj.proximal', lambda g: S.L2Norm(sp).translated(g).convex_conj.proximal(0.8), False
    yield 'IndicatorBox.translated.proximal', lambda g: S.IndicatorBox(sp, -0.3, 0.5).translated(g).proximal(0.8), False
    yield 'KullbackLeibler(prior).proximal', lambda g: S.KullbackLeibler(sp, g).proximal(0.8), True
    yield 'QuadraticPerturb(L1,linear_term).proximal', lambda g: S.FunctionalQuadraticPerturb(S.L1Norm(sp), 0.4, g).proximal(0.8), False
    yield 'BregmanDistance(L2NormSquared,point).proximal', lambda g: S.BregmanDistance(S.L2NormSquared(sp), g).proximal(0.8), False


def run_own_parameter(ctx):
    """prox(x, out=x) where x *is* (the same object as) the data element the proximal was built with - a solver started
    at x = data without a copy.  Reference: the same proximal built from a copy of the data, evaluated out of place at
    another copy."""
    rng = ctx.rng('own-parameter')
    idx = 0
    for sname, sp in [('rn5', odl.rn(5)), ('discr6', odl.uniform_discr(0, 2, 6)), ('rn5w', odl.rn(5, weighting=2.0)), ('rn150', odl.rn(150))]:
        for name, build, pos in own_parameter_builders(sp):
            idx += 1
            if not ctx.mine(idx):
                continue
            comp, _, var = name.partition('/')
            cfg = '%s;x-is-the-data-element' % util.space_tag(sp)
            ctx.case('own-parameter;%s;%s' % (name, sname), 0)
            ctx.ev('own-parameter')
            g = rel(sp, rng, pos)
            try:
                ref = build(g.copy())(g.copy())
            except Exception:
                ctx.skip('not constructible / not callable')
                continue
            try:
                op = build(g)
                op(g, out=g)
                if not util.close(g, ref, 1e-12, 1e-13):
                    ctx.violation(comp, cfg, 'aliased!=oop', maxdiff=util.maxdiff(g, ref), name=name)
            except (NotImplementedError, odl.OpNotImplementedError):
                ctx.skip('in-place not implemented')
            except Exception as e:
                ctx.violation(comp, cfg, 'raises-aliased:' + type(e).__name__, message=str(e)[:200], name=name)


def arithmetic_wrappers(prox, sp, rng):
    """Operator arithmetic the solvers and users build around a proximal P: reflection 2P - I, residual I - P, relaxation
    (1-a) I + a P, averages of two scaled terms, negation, vector offsets, right scalings, powers."""
    I = odl.IdentityOperator(sp)
    v = rel(sp, rng)
    out = []
    for tag, mk in (('2P-I', lambda: 2 * prox - I), ('I-P', lambda: I - prox), ('0.3I+0.7P', lambda: 0.3 * I + 0.7 * prox),
                    ('0.5P+0.5P', lambda: 0.5 * prox + 0.5 * prox), ('-P', lambda: -prox), ('P+v', lambda: prox + v), ('v*P', lambda: v * prox),
                    ('P*0.5', lambda: prox * 0.5), ('P**2', lambda: prox ** 2), ('(2P-I)o(2P-I)', lambda: (2 * prox - I) * (2 * prox - I)),
                    ('P-0.5*(P-I)', lambda: prox - 0.5 * (prox - I))):
        try:
            out.append((tag, mk()))
        except Exception:
            pass
    return out


def run_functab(ctx):
    """Every proximal the functional classes produce (incl. derived forms) and their convex conjugates'."""
    rng = ctx.rng('functab')
    crng = ctx.crng('functab-ctor')
    for i, (fname, sname, sp, thunk, tags) in enumerate(functab.all_functionals(crng, ctx.thorough, with_complex=True)):
        if not ctx.mine(i) or 'noprox' in tags:
            continue
        if sname in ('rn5aw',) and 'Huber' in fname:
            continue   # Huber on array-weighted spaces raises in every call (C07 / C20 finding), nothing to alias
        try:
            f = thunk()
        except Exception:
            continue
        for which in ('proximal', 'convex_conj.proximal'):
            try:
                Pr = f.proximal(0.8) if which == 'proximal' else f.convex_conj.proximal(0.8)
            except Exception:
                continue
            ctx.case('functab;%s;%s;%s' % (fname, sname, which), 0)
            x = functab.pos_el(sp, rng) if any(t in tags for t in ('kl',)) else functab.rand_el(sp, rng)
            aliased_check(ctx, fname + '.' + which, util.space_tag(sp), Pr, x)


def run_blocks(ctx):
    rng = ctx.rng('blocks')
    for sname, sp in [('rn5', odl.rn(5)), ('rn150', odl.rn(150)), ('discr6', odl.uniform_discr(0, 2, 6)), ('cn4', odl.cn(4))]:
        v = rel(sp, rng)
        n = sp.size
        M = rng.normal(size=(n, n)) + (1j * rng.normal(size=(n, n)) if sp.is_complex else 0)
        A = odl.MatrixOperator(M, domain=sp, range=sp) if sname != 'discr6' else odl.MultiplyOperator(rel(sp, rng))
        blocks = {
            'ScalingOperator': odl.ScalingOperator(sp, 1.7), 'IdentityOperator': odl.IdentityOperator(sp), 'MultiplyOperator': odl.MultiplyOperator(v),
            'ZeroOperator': odl.ZeroOperator(sp), 'ConstantOperator': odl.ConstantOperator(v), 'I-v': odl.IdentityOperator(sp) - v,
            'A+B': A + odl.ScalingOperator(sp, 2.0), 'A*B': A * odl.MultiplyOperator(v), 's*A': 2.0 * A, 'A*s(nonlinear)': odl.PowerOperator(sp, 2) * 2.0,
            'v*A': v * A, 'A*v': A * v, 'PowerOperator': odl.PowerOperator(sp, 2), 'OperatorPointwiseProduct': odl.OperatorPointwiseProduct(odl.PowerOperator(sp, 2), A),
            'MatrixOperator': A, 'A-B': A - odl.IdentityOperator(sp), '-A': -A, 'A**2': A ** 2, 'A+v': A + v,
            'proj-box': P.proximal_box_constraint(sp, -0.2, 0.6)(1.0) if sp.is_real else odl.IdentityOperator(sp),
            'proj-l2-ball': S.IndicatorLpUnitBall(sp, 2).proximal(1.0) if sp.is_real else odl.IdentityOperator(sp),
            # vector * functional (domain = range = space of the vector), and the hyperplane projection built from it
            'v*functional': v * (S.L2NormSquared(sp) if sp.is_real else odl.InnerProductOperator(v)),
            'v*(<a,.>-b)': v * (odl.InnerProductOperator(v) - 0.3),
            'I-v*(<a,.>-b)': odl.IdentityOperator(sp) - (v / v.inner(v).real) * (odl.InnerProductOperator(v) - 0.3),
            'OperatorSum(user-tmp)': odl.OperatorSum(A, odl.ScalingOperator(sp, 2.0), sp.element(), sp.element()),
            'OperatorComp(user-tmp)': odl.OperatorComp(A, odl.MultiplyOperator(v), sp.element()),
            'RealPart*ComplexEmbedding' if sp.is_real else 'ComplexEmbedding*RealPart': (odl.RealPart(sp.complex_space) * odl.ComplexEmbedding(sp)) if sp.is_real else odl.ComplexEmbedding(sp.real_space) * odl.RealPart(sp),
        }
        for name, op in blocks.items():
            ctx.case('block;%s;%s' % (name, sname), 0)
            for rep in range(ctx.reps(1, 4)):
                aliased_check(ctx, 'block:' + name, util.space_tag(sp), op, rel(sp, rng), monitor='building-blocks')
        # LinCombOperator on the product space is not domain == range; x.lincomb aliasing is C01's business


def run_solver_sites(ctx):
    """Shadow-execute every aliased call inside the shipped solvers on small problems."""
    rng = ctx.rng('solvers')
    viol = []

    def report(kind, op, detail):
        if kind == 'aliased!=oop':
            ctx.violation('solver-call-site:' + type(op).__name__, '%s' % util.space_tag(op.domain), 'aliased!=oop', **detail)
    counts = {}
    mon = sanitize.CallMonitor(report, shadow=True, library_only=True, count=counts).install()
    try:
        sp = odl.rn(6)
        ran = odl.rn(4)
        M = rng.normal(size=(4, 6))
        L = odl.MatrixOperator(M, domain=sp, range=ran)
        b = ran.element(rng.normal(size=4))
        nrm = np.linalg.norm(M, 2)
        fs = {'L1': S.L1Norm(sp), '2.5*L1': 2.5 * S.L1Norm(sp), 'L1.translated': S.L1Norm(sp).translated(sp.element(rng.normal(size=6))),
              'box': S.IndicatorBox(sp, -1, 1), 'L2sq': S.L2NormSquared(sp), 'nonneg': S.IndicatorNonnegativity(sp), 'Huber': S.Huber(sp, 0.2)}
        gs = {'L2sq(.-b)': S.L2NormSquared(ran).translated(b), 'L1(.-b)': S.L1Norm(ran).translated(b), 'L2(.-b)': S.L2Norm(ran).translated(b)}
        for fn, f in fs.items():
            for gn, g in gs.items():
                ctx.case('solver-sites;%s;%s' % (fn, gn), 0)
                x = sp.zero()
                S.admm_linearized(x, f, g, L, tau=0.5 / nrm ** 2, sigma=0.5, niter=4)
                x = sp.zero()
                S.pdhg(x, f, g, L, niter=4, tau=0.9 / nrm, sigma=0.9 / nrm)
                x = sp.zero()
                S.douglas_rachford_pd(x, f, [g], [L], tau=0.5, sigma=[0.5 / nrm ** 2], niter=4)
                x = sp.zero()
                S.forward_backward_pd(x, f, [g], [L], S.ZeroFunctional(sp), tau=0.5, sigma=[0.5 / nrm ** 2], niter=4)
            x = sp.zero()
            S.proximal_gradient(x, f, S.L2NormSquared(ran).translated(b) * L, gamma=0.4 / nrm ** 2, niter=4)
            x = sp.zero()
            S.accelerated_proximal_gradient(x, f, S.L2NormSquared(ran).translated(b) * L, gamma=0.4 / nrm ** 2, niter=4)
            # difference-of-convex solvers
            x = sp.zero()
            y = sp.zero()
            try:
                S.prox_dca(x, f, S.L2NormSquared(sp), niter=3, gamma=0.5)
                S.doubleprox_dc(sp.zero(), ran.zero(), f, S.L2NormSquared(sp) * 0.1, S.L1Norm(ran), L, niter=3, gamma=0.3 / nrm ** 2, mu=0.3)
            except Exception as e:
                ctx.note_set('solver_site_exceptions', '%s: %s' % (type(e).__name__, str(e)[:100]))
        # alternating dual updates
        try:
            S.adupdates(sp.zero(), [S.L1Norm(ran).translated(b), S.L2NormSquared(sp)], [L, odl.IdentityOperator(sp)], stepsize=0.1,
                        inner_stepsizes=[0.5 / nrm ** 2, 0.5], niter=3, random=False)
        except Exception as e:
            ctx.note_set('solver_site_exceptions', 'adupdates %s: %s' % (type(e).__name__, str(e)[:100]))
    finally:
        mon.uninstall()
    ctx.ev('solver-call-sites', counts.get('shadowed', 0))
    ctx.note('solver_aliased_calls', {k: v for k, v in counts.items() if k.startswith('aliased')})
    ctx.note('solver_calls_monitored', counts.get('calls', 0))


def run(ctx):
    ctx.note('rule', 'one case = (proximal factory or functional-produced proximal or building block, option variant, space, '
                     'sigma kind); each evaluated on seeded inputs aliased and out-of-place; plus every aliased call observed '
                     'inside the shipped solvers (shadow execution); distinct = distinct case keys')
    cov = cover.Cover()
    for nm, obj in vars(P).items():
        if nm.startswith('prox') or nm.startswith('proj') or nm == 'combine_proximals':
            cov.add(obj, nm)
    cov.arm()
    run_factories(ctx)
    run_functab(ctx)
    run_own_parameter(ctx)
    if ctx.shard == 0:
        run_blocks(ctx)
        run_solver_sites(ctx)
        if ctx.thorough and ctx.round == 0:
            # W-ambient: every aliased call the repository's own suite makes, shadow-executed
            from .c03 import ambient_suite
            data = ambient_suite(ctx, {'VF_AMBIENT_SHADOW': '1'}, 'c10')
            if data is not None:
                ctx.ev('solver-call-sites', int(data['stats'].get('shadowed', 0)))
                ctx.note('ambient', {'aliased_calls': data['stats'].get('aliased', 0), 'shadowed': data['stats'].get('shadowed', 0),
                                     'nondeterministic_skipped': data['stats'].get('shadow-nondeterministic', 0)})
                for v in data['violations']:
                    if v['kind'] == 'aliased!=oop':
                        ctx.violation('ambient-call-site:' + v['component'], v['config'], 'aliased!=oop', count=v['count'])
    else:
        ctx.monitors.pop('building-blocks', None)
    cov.disarm()
    n_exec, n_hit, unreached = cov.report()
    ctx.note('line_coverage', {'executable': n_exec, 'hit': n_hit})
    for u in unreached:
        ctx.note_set('unreached_lines', u)
