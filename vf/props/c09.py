"""C09 -- functional values, gradients and Lipschitz bounds agree with each other.

Deciding monitors
  gradient-vs-values : <grad f(x), d> (space's own inner product) against central differences of the *values*
                       (min-error + second-order rate rule of vf/fd.py; C1-only functionals: min-error only).
  derivative-vs-gradient : f.derivative(x)(d) equals the same number.
  documented-values  : derived functionals (sum, scalar multiples, argument / vector scaling, translation,
                       composition with an operator, product, quotient, quadratic perturbation, Bregman distance,
                       Moreau envelope) take the documented values (reference formulas on the same base functionals).
  lipschitz-bound    : a finite grad_lipschitz bounds ||grad f(x) - grad f(y)|| / ||x - y|| on 30 seeded pairs at
                       separations 1e-3 .. 3.
"""

import itertools

import numpy as np
import odl

from .. import cover, fd, functab, util

SHARDS = {'quick': 4, 'thorough': 16}
S = odl.solvers


class WMat(odl.Operator):
    """Harness linear operator with an exact adjoint in weighted tensor spaces (DESIGN.md Appendix C)."""

    def __init__(self, M, dom, ran):
        super(WMat, self).__init__(dom, ran, linear=True)
        self.M = np.asarray(M)

    def _call(self, x):
        return self.range.element((self.M @ np.asarray(x).ravel()).reshape(self.range.shape))

    @staticmethod
    def _w(sp):
        w = sp.weighting
        if hasattr(w, 'array'):
            return np.asarray(w.array, dtype=float).ravel()
        return float(getattr(w, 'const', 1.0)) * np.ones(sp.size)

    @property
    def adjoint(self):
        wd, wr = self._w(self.domain), self._w(self.range)
        return WMat((self.M.conj().T * wr[None, :]) / wd[:, None], self.range, self.domain)


def extra(sp, rng):
    """Derived functionals with reference value formulas: (name, thunk, tags, ref(x) or None)."""
    g = lambda: functab.rand_el(sp, rng)
    f = S.L2NormSquared(sp)
    h = S.L2Norm(sp)
    v = g()
    u = g()
    yield 'right-scaled', lambda: f * 3.0, ('smooth',), lambda x: f(3.0 * x)
    yield 'right-scaled(negative)', lambda: S.Huber(sp, 0.5) * (-2.0), ('c1',), lambda x: S.Huber(sp, 0.5)(-2.0 * x)
    yield 'left-scaled', lambda: 2.5 * f, ('smooth',), lambda x: 2.5 * f(x)
    # enumerated (not seeded) repeated scalings with factors on both sides of one: the Lipschitz constant of b (a f) is |a b| L
    # and that of (f a) b is (a b)^2 L - a factor counted twice under-estimates only for |a| < 1
    hub = S.Huber(sp, 0.5)
    yield 'left-scaled(left-scaled,<1)', lambda: 3.0 * (0.25 * f), ('smooth',), lambda x: 0.75 * f(x)
    yield 'left-scaled(left-scaled(Huber),>1)', lambda: 0.5 * (4.0 * hub), ('c1',), lambda x: 2.0 * hub(x)
    yield 'difference-of-scaled', lambda: f - 0.5 * (0.5 * f), ('smooth',), lambda x: 0.75 * f(x)
    yield 'right-scaled(right-scaled,<1)', lambda: (f * 0.5) * 0.5, ('smooth',), lambda x: f(0.25 * x)
    yield 'right-scaled(left-scaled(Huber),<1)', lambda: (0.3 * hub) * 0.5, ('c1',), lambda x: 0.3 * hub(0.5 * x)
    yield 'right-vector', lambda: f * v, ('smooth',), lambda x: f(v * x)
    yield 'sum', lambda: f + h, (), lambda x: f(x) + h(x)
    yield 'scalar-sum', lambda: f + 1.25, ('smooth',), lambda x: f(x) + 1.25
    yield 'translated', lambda: f.translated(v), ('smooth',), lambda x: f(x - v)
    yield 'product', lambda: S.FunctionalProduct(f, h), (), lambda x: f(x) * h(x)
    yield 'quotient', lambda: S.FunctionalQuotient(f, h + 1.0), (), lambda x: f(x) / (h(x) + 1.0)
    yield 'quadratic-perturb', lambda: S.FunctionalQuadraticPerturb(f, quadratic_coeff=1.0, linear_term=u, constant=0.5), ('smooth',), \
        lambda x: f(x) + 1.0 * x.inner(x) + x.inner(u) + 0.5
    yield 'quadratic-perturb(Huber)', lambda: S.FunctionalQuadraticPerturb(S.Huber(sp, 0.5), quadratic_coeff=0.3), ('c1',), \
        lambda x: S.Huber(sp, 0.5)(x) + 0.3 * x.inner(x)
    yield 'Huber', lambda: S.Huber(sp, 0.5), ('c1',), None
    # argument / value scaling by exactly zero: (f * 0)(x) = f(0 x) = f(0), (0 * f)(x) = 0
    ft = f.translated(v) + 0.75
    yield 'right-scaled(zero)', lambda: ft * 0.0, ('smooth',), lambda x: ft(0.0 * x)
    yield 'left-scaled(zero)', lambda: 0.0 * ft, ('smooth',), lambda x: 0.0
    if not util.is_pspace(sp) and sp.ndim == 1 and 2 <= sp.size <= 10 and type(sp).__name__ == 'NumpyTensorSpace':
        for c in (1.0, 2.5, 100.0):
            def rosen(x, c=c):
                a = np.asarray(x)
                return float(np.sum(c * (a[1:] - a[:-1] ** 2) ** 2 + (1 - a[:-1]) ** 2))
            yield 'RosenbrockFunctional(scale=%g)' % c, lambda c=c: S.RosenbrockFunctional(sp, scale=c), ('smooth', 'nolip'), rosen
    yield 'BregmanDistance', lambda: S.BregmanDistance(f, v, f.gradient(v)), ('smooth',), lambda x: f(x) - f(v) - f.gradient(v).inner(x - v)
    yield 'MoreauEnvelope(L1Norm)', lambda: S.MoreauEnvelope(S.L1Norm(sp), 0.7), ('c1', 'novaluecall'), None
    yield 'MoreauEnvelope(L2NormSquared)', lambda: S.MoreauEnvelope(f, 0.7), ('smooth', 'novaluecall'), None
    if not util.is_pspace(sp) and sp.ndim == 1 and sp.size <= 10:
        n = sp.size
        M = rng.normal(size=(n, n))
        A = WMat(M, sp, sp)
        yield 'comp(linear)', lambda: f * A, ('smooth',), lambda x: f(A(x))
        yield 'comp(Huber,linear)', lambda: S.Huber(sp, 0.5) * A, ('c1',), lambda x: S.Huber(sp, 0.5)(A(x))
        yield 'comp(nonlinear)', lambda: f * odl.ufunc_ops.sin(sp), ('smooth', 'nolip'), lambda x: f(odl.ufunc_ops.sin(sp)(x))
        yield 'QuadraticForm(exact-adjoint-operator)', lambda: S.QuadraticForm(A, u, 1.0), ('smooth',), lambda x: x.inner(A(x)) + x.inner(u) + 1.0
        yield 'sum(comp,scaled)', lambda: f * A + 0.5 * S.Huber(sp, 0.5), ('c1',), lambda x: f(A(x)) + 0.5 * S.Huber(sp, 0.5)(x)


def moreau_value(f0, sigma, x):
    p = f0.proximal(sigma)(x)
    return f0(p) + (x - p).norm() ** 2 / (2 * sigma)


def base_point(sp, rng, tags, fname):
    if 'kl' in tags:
        return functab.pos_el(sp, rng)
    if 'klcc' in tags:
        return -1.0 * functab.pos_el(sp, rng)
    x = functab.rand_el(sp, rng)
    if not any(t in tags for t in ('smooth',)):
        # keep away from kinks at 0 (norms, Huber's threshold is handled by min-error rule)
        x = away(sp, rng)
    return x


def away(sp, rng):
    if util.is_pspace(sp):
        return sp.element([away(s, rng) for s in sp])
    a = rng.uniform(0.6, 1.5, size=sp.shape) * rng.choice([-1, 1], size=sp.shape)
    return sp.element(a)


def check(ctx, fname, sname, sp, f, tags, rng, ref=None):
    comp = functab.composed_component(fname, tags)
    cfg = util.space_tag(sp)
    try:
        if 'nograd' in tags:
            raise NotImplementedError   # documented as non-differentiable (Huber without smoothing = 1-norm)
        grad = f.gradient
    except (NotImplementedError, odl.OpNotImplementedError):
        grad = None
    except Exception as e:
        ctx.ev('gradient-vs-values')
        ctx.violation(comp, cfg, 'gradient-raises:' + type(e).__name__, message=str(e)[:200])
        return
    ctx.case('functional;%s;%s' % (fname, sname), 0)
    # documented values of derived functionals
    if ref is not None:
        try:
            for rep in range(ctx.reps(3, 10)):
                x = functab.rand_el(sp, rng, [1.0, 0.2, 3.0][rep % 3])
                ctx.ev('documented-values')
                a, b = f(x), ref(x)
                if not np.isclose(a, b, rtol=1e-10, atol=1e-12):
                    ctx.violation(comp, cfg, 'value!=documented', got=float(a), ref=float(b))
                    break
        except Exception as e:
            ctx.violation(comp, cfg, 'raises:' + type(e).__name__, message=str(e)[:200], probe='documented-values')
    if grad is None:
        return
    if 'novalue' in tags:
        return
    valf = f
    if 'novaluecall' in tags:
        # MoreauEnvelope has no _call: values from the definition
        valf = lambda z: moreau_value(f.functional, f.sigma, z)
    try:
        nrep = ctx.reps(4, 12)
        # base points of very different magnitude: the last repetitions scale the base point *and* the direction (so the
        # difference steps scale with it) by 1e-9 / 1e-5 / 1e4 - a tolerance where an exact test belongs ("norm close to 0")
        # or an absolute threshold shows only there.  Exponential-type functionals keep their admissible range.
        scales = [1.0] * nrep
        if not any(t in tags for t in ('kl', 'klcc', 'exp')):
            scales += [1e-9, 1e-5, 1e4]
        for rep, scl in enumerate(scales):
            x = base_point(sp, rng, tags, fname)
            d = functab.rand_el(sp, rng)
            nd = float(np.abs(util.to_cvec(sp, d)).max())
            d = d * (0.5 / nd) if nd > 0 else d
            if scl != 1.0:
                x, d = scl * x, scl * d
                ctx.ev('scaled-base-point')
            try:
                gx = grad(x)
            except (NotImplementedError, odl.OpNotImplementedError):
                return
            lhs = gx.inner(d)
            ctx.ev('derivative-vs-gradient')
            try:
                dv = f.derivative(x)(d)
                if abs(dv - lhs) > 1e-9 * max(1, abs(lhs)):
                    ctx.violation(comp, cfg, 'derivative(x)(d)!=<grad,d>', got=float(np.real(dv)), ref=float(np.real(lhs)))
            except (NotImplementedError, odl.OpNotImplementedError):
                pass
            ctx.ev('gradient-vs-values')
            # functionals that are only piecewise smooth (norms, Huber, and anything translated / scaled from them: the
            # kinks sit wherever the wrappers moved them) are differentiable at the base point but a kink may lie within
            # the larger steps: decided by the smallest error, not by the convergence rate
            kinked = 'c1' in tags or not any(t in tags for t in ('smooth', 'kl', 'klcc', 'exp'))
            hs = fd.HS if not kinked else (1e-2, 1e-3, 1e-4, 1e-5, 1e-6)
            errs = fd.fd_errors(valf, sp.field, x, d, lhs, hs=hs)
            if scl != 1.0 and abs(lhs) < 1e-11 and not any(abs(q[0]) > 1e-11 for q in fd.fds):
                # values below the absolute floor of the oracle (squares of 1e-9): nothing to compare
                ctx.skip('scaled base point: derivative below the absolute floor of the oracle')
                continue
            if kinked:
                why = None if min(errs) < 1e-6 else 'fd-mismatch'
            else:
                why = fd.verdict(errs)
            if why and not fd.quotient_sequence_converged(sp.field):
                ctx.skip('difference quotients of the values do not converge in the step range')
                why = None
            if why and not kinked and not fd.resolvable(sp.field):
                ctx.skip('difference quotients do not resolve the derivative to 1e-6 at any step')
                why = None
            if why:
                ctx.violation(comp, cfg, 'gradient-' + why, errors=['%.1e' % e for e in errs], base_point_scale=scl)
                break
        L = f.grad_lipschitz
        if np.isfinite(L) and 'nolip' not in tags and not any(t in tags for t in ('kl', 'klcc')):
            worst = 0.0
            for rep in range(30):
                x = functab.rand_el(sp, rng)
                y = x + functab.rand_el(sp, rng, 10 ** rng.uniform(-3, 0.5))
                ctx.ev('lipschitz-bound')
                r = (grad(x) - grad(y)).norm() / (x - y).norm()
                worst = max(worst, r)
            if worst > L * (1 + 1e-9) + 1e-12:
                ctx.violation(comp, cfg, 'grad_lipschitz-too-small', L=float(L), observed=float(worst))
    except (NotImplementedError, odl.OpNotImplementedError):
        pass
    except Exception as e:
        ctx.violation(comp, cfg, 'raises:' + type(e).__name__, message=str(e)[:300])


def run_parent_immutability(ctx):
    """Building a derived functional must not change the functional it is built from: f1 = w1(f0), f2 = w2(f1); after f2 exists
    (and has been used) f1 and f0 still take their documented values and gradients.  Every ordered pair of wrappers."""
    rng = ctx.rng('parent-immutability')
    for sname, sp in (('rn5', odl.rn(5)), ('discr6', odl.uniform_discr(0, 3, 6))):
        ws = functab._wrappers(sp, rng)
        for (i1, mk1), (i2, mk2) in itertools.product(list(enumerate(ws)), repeat=2):
            for bname, mkbase in (('L2sq', lambda: S.L2NormSquared(sp)), ('Huber', lambda: S.Huber(sp, 0.3))):
                ctx.ev('documented-values')
                try:
                    w1, w2 = mk1(), mk2()
                    f0 = mkbase()
                    x = functab.rand_el(sp, rng)
                    f1 = w1[1](f0)
                    v1 = f1(x)
                    g1 = util.to_cvec(sp, f1.gradient(x)).copy()
                    v0 = f0(x)
                    f2 = w2[1](f1)
                    f2(x)
                    try:
                        f2.gradient(x)
                        f2.proximal(0.7)(x)
                    except Exception:
                        pass
                    f3 = w2[1](f2)        # a third level on top
                    f3(x)
                    ctx.case('parent-immutability;%s;%s' % (bname, sname), (w1[0], w2[0]))
                    if not np.isclose(f1(x), v1, rtol=1e-13, atol=1e-13) or not np.allclose(util.to_cvec(sp, f1.gradient(x)), g1, rtol=1e-13, atol=1e-13):
                        ctx.violation('derived-functional', '%s then %s' % (_wkind(w1[0]), _wkind(w2[0])), 'parent-changed-by-building-a-derived-functional',
                                      parent='(%s)%s' % (bname, w1[0]), derived=w2[0], before=float(v1), after=float(f1(x)))
                    if not np.isclose(f0(x), v0, rtol=1e-13, atol=1e-13):
                        ctx.violation('derived-functional', '%s then %s' % (_wkind(w1[0]), _wkind(w2[0])), 'base-changed-by-building-a-derived-functional')
                except (NotImplementedError, odl.OpNotImplementedError):
                    pass
                except Exception as e:
                    ctx.violation('derived-functional', 'wrapper-pair', 'raises:' + type(e).__name__, message=str(e)[:200])


def _wkind(name):
    """Value-free wrapper kind from its display name ('2.5*', '*1.5', 'T', '+1.25', 'Q0.7l', '-(0.5*-)')."""
    if name.endswith('*'):
        return 'left-scaling'
    if name.startswith('*'):
        return 'right-scaling'
    if name == 'T':
        return 'translation'
    if name.startswith('+'):
        return 'constant'
    if name.startswith('Q'):
        return 'quadratic-perturbation'
    return 'difference'


def run_numerical_gradient(ctx):
    """NumericalGradient(f) is documented as the gradient w.r.t. the space's own inner product: for every weighting kind
    (none, constant, one weight per entry, cell volume) and every scheme <NumericalGradient(f)(x), d> must approximate the
    directional derivative of the values (first order: 1e-2 relative; a wrong weight is O(1) off)."""
    from odl.solvers.functional.derivatives import NumericalGradient
    rng = ctx.rng('numgrad')
    for sname, sp in functab.spaces():
        if sp.size > 50:
            continue
        v = functab.rand_el(sp, rng)
        fs = [('L2NormSquared', S.L2NormSquared(sp)), ('translated(L2NormSquared)*3', S.L2NormSquared(sp).translated(v) * 3.0),
              ('QuadraticForm(vector)+L2sq', S.QuadraticForm(vector=v, constant=0.5) + S.L2NormSquared(sp))]
        for (fname, f), method, step in [(a, b, c) for a in fs for b in ('forward', 'backward', 'central') for c in (None, 1e-5)]:
            cfg = '%s;%s;%s' % (util.space_tag(sp), method, 'default-step' if step is None else 'step-given')
            ctx.case('numerical-gradient;%s;%s' % (fname, sname), (method, step))
            try:
                NG = NumericalGradient(f, method=method, **({} if step is None else {'step': step}))
                for rep in range(ctx.reps(2, 6)):
                    x = functab.rand_el(sp, rng)
                    d = functab.rand_el(sp, rng)
                    ctx.ev('numerical-gradient')
                    got = NG(x).inner(d)
                    h = 1e-6
                    ref = (f(x + h * d) - f(x - h * d)) / (2 * h)
                    ana = f.gradient(x).inner(d)
                    if abs(got - ref) > 1e-2 * max(1.0, abs(ref), x.norm() * d.norm()):
                        ctx.violation('NumericalGradient', cfg, 'not-the-gradient-in-the-space-inner-product', got=float(got), fd=float(ref),
                                      analytic=float(ana), functional=fname)
                        break
            except Exception as e:
                ctx.violation('NumericalGradient', cfg, 'raises:' + type(e).__name__, message=str(e)[:200])


def run(ctx):
    ctx.note('rule', 'one case = one functional (functional table of C07 + derived forms with reference value formulas + '
                     'compositions with an exact-adjoint harness operator) on one space; 4-12 seeded (base point, direction) '
                     'pairs and 30 point pairs for the Lipschitz bound; distinct = distinct (functional, space)')
    rng = ctx.rng('c09')
    crng = ctx.crng('ctor')
    cov = cover.functional_cover(('gradient', '_call', 'grad_lipschitz'))
    cov.arm()
    recipes = [(a, b, c, d, e, None) for a, b, c, d, e in functab.all_functionals(crng, ctx.thorough)]
    for sname, sp in list(functab.spaces()) + list(functab.pspaces()):
        for fname, thunk, tags, ref in extra(sp, crng):
            recipes.append((fname, sname, sp, thunk, tags, ref))
    for rec in functab.all_composed(crng, ctx.thorough):
        recipes.append(rec)
    for i, (fname, sname, sp, thunk, tags, ref) in enumerate(recipes):
        if not ctx.mine(i):
            continue
        if sname == 'rn150' and not ctx.thorough:
            continue
        if sname == 'rn5aw' and ('Huber' in fname or fname in ('right-scaled(negative)', 'sum(comp,scaled)')):
            continue   # Huber on array-weighted spaces raises in every call (C07 / C20 finding)
        try:
            f = thunk()
        except Exception:
            continue
        if i % 31 == 0:
            ctx.sample({'functional': fname, 'space': util.srepr(sp, 60)})
        check(ctx, fname, sname, sp, f, tags, rng, ref)
    if ctx.shard == 0:
        run_numerical_gradient(ctx)
    if ctx.shard == 1 % ctx.nshards:
        run_parent_immutability(ctx)
    cover.report_to(ctx, cov)
    for m in ('gradient-vs-values', 'derivative-vs-gradient', 'documented-values', 'lipschitz-bound'):
        ctx.ev(m, 0)
