"""C03 -- operator calls: in-place equals out-of-place, input untouched, result in range.

Deciding monitors
  call-contract   : wrapper on Operator.__call__ (every call made anywhere in the workload): x bit-identical
                    afterwards (unless aliased), result in op.range, `out` returned by identity.
  call-protocol   : per instance: y0 = op(x); op(x) again (repeatable); in-place into NaN-prefilled and into
                    random-prefilled out (bit-identical to each other => previous contents never matter; equal to
                    y0); non-contiguous / F-ordered out where the space allows.
  rejection       : bad x (other shape space element, wrong-shape array, ragged list, string, object()) and bad
                    out (element of another space, bare ndarray; any out for functionals) are rejected with
                    OpDomainError / OpRangeError (TypeError family) and leave out untouched.
  flag-honesty    : is_linear  =>  A(a x + y) = a A(x) + A(y) for real a.
  call-signatures : harness operator classes for every documented `_call` signature form.
Population: registry (every concrete library class x branch-of-_call recipes) + the operators the library
manufactures from them (adjoint, inverse, derivative, gradient, proximal, convex_conj.proximal).
Thorough tier additionally runs the repository's own test-suite under the record-only call-contract and the
poison sanitizer (W-ambient).
"""

import os
import subprocess
import sys

import numpy as np
import odl
from odl.operator.operator import Operator

from .. import core, cover, registry, sanitize, util

SHARDS = {'quick': 4, 'thorough': 16}
THOROUGH_ROUNDS = 4
S = odl.solvers


VIEW_LEAVES = ('RealPart', 'ImagPart', 'FlatteningOperator', 'ComponentProjection', 'IdentityOperator', 'ComplexEmbedding')


def comp_of(name):
    parts = name.split('/')
    if parts[0] == 'expr':
        return 'expr:' + parts[1]
    if parts[0] == 'derived':
        return 'derived:' + parts[1]
    return parts[0]


def variant_of(name):
    parts = name.split('/')
    if parts[0] in ('expr', 'derived'):
        return '/'.join(parts[2:-1])
    return '/'.join(parts[1:-1])


def base_point(op, name, rng):
    dom = op.domain
    pos = registry.needs_positive(name)
    if util.is_field(dom):
        if isinstance(dom, odl.ComplexNumbers):
            return complex(rng.normal(), rng.normal())
        v = float(rng.normal())
        return abs(v) + 0.3 if pos else v
    return util.rand_element(dom, rng, positive=pos)


def equalish(a, b, ran):
    if util.is_field(ran):
        a, b = complex(a), complex(b)
        return (a == b) or (np.isnan(a.real) and np.isnan(b.real)) or abs(a - b) <= 1e-12 * max(1.0, abs(b)) or (np.isinf(a.real) and a == b)
    return util.close(a, b, 1e-10, 1e-12)


def protocol(ctx, name, op, rng, manufactured='', special=None):
    comp = comp_of(name) + manufactured
    var = variant_of(name)
    cfg = '%s;%s->%s' % (var, util.space_tag(op.domain), util.space_tag(op.range)) if var else '%s->%s' % (util.space_tag(op.domain), util.space_tag(op.range))
    ctx.ev('call-protocol')
    ctx.case('protocol;' + comp, name + manufactured + (';' + special if special else ''))
    try:
        x = base_point(op, name, rng)
        if special is not None:
            # complex inputs whose imaginary (real) part vanishes exactly: shortcuts for "purely real" data must still
            # write every entry of the result
            a = np.array(np.asarray(x), copy=True)
            a = a.real.astype(a.dtype) if special == 'imag=0' else (1j * a.imag).astype(a.dtype)
            x = op.domain.element(a)
    except Exception as e:
        ctx.skip('no base point: ' + type(e).__name__)
        return None, None
    s0 = util.snap(x)
    try:
        y0 = op(x)
    except (odl.OpNotImplementedError, NotImplementedError):
        ctx.skip('call not implemented')
        return None, None
    except Exception as e:
        ctx.violation(comp, cfg, 'raises-oop:' + type(e).__name__, name=name, message=str(e)[:300])
        return None, None
    try:
        if util.snap(x) != s0:
            ctx.violation(comp, cfg, 'x-modified', name=name, call='op(x)')
        if y0 not in op.range:
            ctx.violation(comp, cfg, 'not-in-range', name=name, type=type(y0).__name__)
        y1 = op(x)
        if not equalish(y1, y0, op.range):
            ctx.violation(comp, cfg, 'not-repeatable', name=name)
        if util.is_field(op.range):
            # functionals: any out must be rejected
            ctx.ev('rejection')
            try:
                op(x, out=0.0)
                ctx.violation(comp, cfg, 'bad-out-accepted', name=name, out='float for functional')
            except TypeError:
                pass
            except Exception as e:
                ctx.violation(comp, cfg, 'wrong-exception:' + type(e).__name__, name=name, probe='out for functional')
            return x, y0
        outs = []
        for kind in ('nan', 'rnd'):
            out = util.fill(op.range.element(), kind, rng)
            try:
                r = op(x, out=out)
            except (odl.OpNotImplementedError, NotImplementedError):
                ctx.skip('in-place not implemented')
                return x, y0
            except Exception as e:
                ctx.violation(comp, cfg, 'raises-inplace:' + type(e).__name__, name=name, message=str(e)[:300])
                return x, y0
            if r is not out:
                ctx.violation(comp, cfg, 'not-out', name=name)
            if util.snap(x) != s0:
                ctx.violation(comp, cfg, 'x-modified', name=name, call='op(x, out)')
            if not util.close(out, y0, 1e-10, 1e-12):
                ctx.violation(comp, cfg, 'inplace!=oop', name=name, prefill=kind, maxdiff=util.maxdiff(out, y0))
            outs.append(util.snap(out))
        if len(outs) == 2 and outs[0] != outs[1]:
            ctx.violation(comp, cfg, 'prefill-dependence', name=name)
        # history: the same input *object*, changed in place between two calls (iterates of a solver) - nothing remembered
        # from the first call may leak into the second: against the call on a fresh object holding the same values
        if not util.is_field(op.domain) and all(np.dtype(l.dtype).kind in 'fc' for _p, l in util.leaves(op.domain)):
            ctx.ev('point-history')
            xh = x.copy()
            op(xh)
            xh.lincomb(0.8, xh)
            got_h = op(xh)
            want_h = op(xh.copy())
            if not equalish(got_h, want_h, op.range) if util.is_field(op.range) else not util.close(got_h, want_h, 1e-12, 1e-13):
                ctx.violation(comp, cfg, 'value-at-an-input-object-changed-in-place-is-stale', name=name)
            out_h = util.fill(op.range.element(), 'nan')
            xh.lincomb(1.5, xh)
            op(xh, out=out_h)
            if not util.close(out_h, op(xh.copy()), 1e-10, 1e-12):
                ctx.violation(comp, cfg, 'value-at-an-input-object-changed-in-place-is-stale', name=name, call='in-place')
        # F-ordered out for plain tensor spaces with ndim >= 2
        ran = op.range
        if isinstance(ran, odl.space.npy_tensors.NumpyTensorSpace) and ran.ndim >= 2:
            out = ran.element(np.full(ran.shape, complex(np.nan, np.nan) if np.dtype(ran.dtype).kind == 'c' else np.nan, dtype=ran.dtype, order='F'))
            try:
                op(x, out=out)
                if not util.close(out, y0, 1e-10, 1e-12):
                    ctx.violation(comp, cfg, 'inplace!=oop', name=name, prefill='nan,F-order')
            except Exception as e:
                ctx.violation(comp, cfg, 'raises-inplace:' + type(e).__name__, name=name, message=str(e)[:300], layout='F')
    except Exception as e:
        ctx.violation(comp, cfg, 'raises:' + type(e).__name__, name=name, message=str(e)[:300])
    return x, y0


def rejections(ctx, name, op, rng, x):
    comp = comp_of(name)
    cfg = '%s->%s' % (util.space_tag(op.domain), util.space_tag(op.range))
    dom, ran = op.domain, op.range
    if util.is_field(dom):
        bad = [('string', 'abc'), ('object', object()), ('list', [1.0, 2.0])]
    else:
        n = util.real_dim(dom)
        other = odl.rn(n + 3)
        bad = [('element-of-other-space', other.one()), ('wrong-shape-array', np.zeros(n + 2)), ('ragged-list', [[1, 2], [3]]),
               ('string', 'abc'), ('object', object())]
    out_before = None
    for bname, b in bad:
        ctx.ev('rejection')
        out = None
        if not util.is_field(ran):
            out = util.fill(ran.element(), 'rnd', rng)
            out_before = util.snap(out)
        try:
            if out is not None:
                op(b, out=out)
            else:
                op(b)
            ctx.violation(comp, cfg, 'bad-x-accepted', name=name, probe=bname)
        except odl.OpDomainError:
            pass
        except TypeError as e:   # a domain *type error* (OpDomainError) is asked for, measured: 0 plain TypeErrors on the unchanged tree
            ctx.violation(comp, cfg, 'wrong-exception:' + type(e).__name__, name=name, probe=bname, message=str(e)[:200])
        except (odl.OpNotImplementedError, NotImplementedError):
            pass
        except Exception as e:
            ctx.violation(comp, cfg, 'wrong-exception:' + type(e).__name__, name=name, probe=bname, message=str(e)[:200])
        if out is not None and util.snap(out) != out_before:
            ctx.violation(comp, cfg, 'bad-x:out-written', name=name, probe=bname)
    if not util.is_field(ran) and x is not None:
        n = util.real_dim(ran)
        for bname, b in (('element-of-other-space', odl.rn(n + 3).zero()), ('bare-ndarray', np.zeros(n + 1)), ('string', 'abc')):
            ctx.ev('rejection')
            try:
                op(x, out=b)
                ctx.violation(comp, cfg, 'bad-out-accepted', name=name, probe=bname)
            except odl.OpRangeError:
                pass
            except TypeError as e:
                ctx.violation(comp, cfg, 'wrong-exception:' + type(e).__name__, name=name, probe='out=' + bname, message=str(e)[:200])
            except (odl.OpNotImplementedError, NotImplementedError):
                pass
            except Exception as e:
                ctx.violation(comp, cfg, 'wrong-exception:' + type(e).__name__, name=name, probe='out=' + bname, message=str(e)[:200])


def honesty(ctx, name, op, rng, manufactured=''):
    if not op.is_linear or util.is_field(op.domain):
        return
    if 'Numerical' in name:
        return   # NumericalDerivative / NumericalGradient are documented finite-difference approximations (O(h) non-linear)
    comp = comp_of(name) + manufactured
    cfg = '%s->%s' % (util.space_tag(op.domain), util.space_tag(op.range))
    ctx.ev('flag-honesty')
    try:
        x = util.rand_element(op.domain, rng)
        y = util.rand_element(op.domain, rng)
        a = 1.7
        lhs = util.to_cvec(op.range, op(a * x + y))
        rhs = a * util.to_cvec(op.range, op(x)) + util.to_cvec(op.range, op(y))
        single = any(np.dtype(l.dtype).itemsize // (2 if np.dtype(l.dtype).kind == 'c' else 1) <= 4 and np.dtype(l.dtype).kind in 'fc'
                     for sp_ in (op.domain, op.range) if not util.is_field(sp_) for _p, l in util.leaves(sp_))
        tol = 1e-4 if single else 1e-9
        if not np.allclose(lhs, rhs, rtol=tol, atol=tol * max(1.0, np.abs(rhs).max() if rhs.size else 1.0)):
            ctx.violation(comp, cfg, 'flagged-linear-but-not-additive', name=name)
    except (odl.OpNotImplementedError, NotImplementedError):
        pass
    except Exception as e:
        ctx.violation(comp, cfg, 'raises:' + type(e).__name__, name=name, message=str(e)[:200], probe='linearity')


def manufactured(ctx, name, op, rng, x):
    """Operators the library derives from `op`."""
    out = []

    def get(tag, f):
        try:
            m = f()
            if isinstance(m, Operator):
                out.append((tag, m))
        except Exception:
            pass
    get('.adjoint', lambda: op.adjoint)
    get('.inverse', lambda: op.inverse)
    if x is not None:
        get('.derivative(x)', lambda: op.derivative(x))
    if isinstance(op, S.Functional):
        get('.gradient', lambda: op.gradient)
        get('.proximal(s)', lambda: op.proximal(0.7))
        get('.convex_conj', lambda: op.convex_conj)
        get('.convex_conj.proximal(s)', lambda: op.convex_conj.proximal(0.7))
    return out


def arithmetic(ctx, name, op, rng, x):
    """Every arithmetic wrapper the library offers around `op` (sum, difference, vector sum, scalar and vector
    multiples on either side, negation, composition with the identity).  The wrappers post-process op(x) - some in
    place - so they are driven through the same protocol with every leaf, including leaves that return views of x."""
    out = []
    if isinstance(op, S.Functional):
        return out

    def get(tag, f):
        try:
            m = f()
            if isinstance(m, Operator):
                out.append((tag, m))
        except Exception:
            pass
    ran, dom = op.range, op.domain
    elem_ran = not util.is_field(ran)
    if elem_ran and any(np.dtype(l.dtype).kind not in 'fciu' for _p, l in util.leaves(ran)):
        return out      # vector arithmetic is defined for numeric ranges (boolean ranges: NumPy itself refuses)
    get('+op', lambda: op + op)
    get('-op', lambda: op - op)
    get('neg', lambda: -op)
    get('s*', lambda: 2.5 * op)
    get('*s', lambda: op * 2.5)
    get('/s', lambda: op / 2.5)
    if elem_ran:
        v = util.rand_element(ran, rng)
        get('+v', lambda: op + v)
        get('-v', lambda: op - v)
        get('v*', lambda: v * op)
    if not util.is_field(dom):
        w = util.rand_element(dom, rng)
        get('*w', lambda: op * w)
        get('oI', lambda: op * odl.IdentityOperator(dom))
    if elem_ran:
        get('Io', lambda: odl.IdentityOperator(ran) * op)
        get('+op+v', lambda: (op + op) + util.rand_element(ran, rng))
    if dom == ran and not util.is_field(dom):
        # powers chain compositions (their temporaries are handed from one to the next) and op o op feeds op its own output
        get('**2', lambda: op ** 2)
        get('**3', lambda: op ** 3)
        get('**4', lambda: op ** 4)
        get('op.op.op', lambda: op * op * op)
    return out


# ---- harness operators for every documented `_call` signature form -------------------------------------------------


def signature_forms(ctx):
    sp = odl.rn(3)

    class OOP(Operator):
        def __init__(self):
            super(OOP, self).__init__(sp, sp)

        def _call(self, x):
            return 2 * x

    class IP(Operator):
        def __init__(self):
            super(IP, self).__init__(sp, sp)

        def _call(self, x, out):
            out.lincomb(2, x)

    class Dual(Operator):
        def __init__(self):
            super(Dual, self).__init__(sp, sp)

        def _call(self, x, out=None):
            if out is None:
                return 2 * x
            out.lincomb(2, x)

    class OOPkw(Operator):
        def __init__(self):
            super(OOPkw, self).__init__(sp, sp)

        def _call(self, x, **kwargs):
            return kwargs.get('c', 2) * x

    class IPkw(Operator):
        def __init__(self):
            super(IPkw, self).__init__(sp, sp)

        def _call(self, x, out, **kwargs):
            out.lincomb(kwargs.get('c', 2), x)

    class Dualkw(Operator):
        def __init__(self):
            super(Dualkw, self).__init__(sp, sp)

        def _call(self, x, out=None, **kwargs):
            if out is None:
                return kwargs.get('c', 2) * x
            out.lincomb(kwargs.get('c', 2), x)

    class ReturnsArray(Operator):
        def __init__(self):
            super(ReturnsArray, self).__init__(sp, sp)

        def _call(self, x):
            return 2 * np.asarray(x)

    x = sp.element([1.0, -2.0, 3.0])
    for cls in (OOP, IP, Dual, OOPkw, IPkw, Dualkw, ReturnsArray):
        ctx.ev('call-signatures')
        ctx.case('signature-form;' + cls.__name__, 0)
        try:
            op = cls()
            y = op(x)
            out = util.fill(sp.element(), 'nan')
            r = op(x, out=out)
            if y not in sp or not np.array_equal(np.asarray(y), [2, -4, 6]):
                ctx.violation('Operator.__call__', 'form:' + cls.__name__, 'oop-value')
            if r is not out or not np.array_equal(np.asarray(out), [2, -4, 6]):
                ctx.violation('Operator.__call__', 'form:' + cls.__name__, 'inplace-value')
            if 'kw' in cls.__name__:
                if not np.array_equal(np.asarray(op(x, c=3)), [3, -6, 9]):
                    ctx.violation('Operator.__call__', 'form:' + cls.__name__, 'kwargs-not-passed')
                out = util.fill(sp.element(), 'nan')
                op(x, out=out, c=3)
                if not np.array_equal(np.asarray(out), [3, -6, 9]):
                    ctx.violation('Operator.__call__', 'form:' + cls.__name__, 'kwargs-not-passed-inplace')
        except Exception as e:
            ctx.violation('Operator.__call__', 'form:' + cls.__name__, 'raises:' + type(e).__name__, message=str(e)[:200])
    # ill-formed signatures must be rejected at class creation / instantiation
    bad_forms = {
        'no-x': 'def _call(self): return None',
        'out-first': 'def _call(self, out, x): return None',
        'varargs': 'def _call(self, *args): return None',
        'two-positional-plus': 'def _call(self, x, y, out): return None',
    }
    for bname, src in bad_forms.items():
        ctx.ev('call-signatures')
        ns = {}
        try:
            exec('class Bad(Operator):\n    def __init__(self):\n        super(Bad, self).__init__(sp, sp)\n    ' + src, {'Operator': Operator, 'sp': sp}, ns)
            ns['Bad']()
            ctx.violation('Operator.__call__', 'ill-formed:' + bname, 'bad-signature-accepted')
        except (ValueError, TypeError):
            pass
        except Exception as e:
            ctx.violation('Operator.__call__', 'ill-formed:' + bname, 'wrong-exception:' + type(e).__name__)


# ---- W-ambient ------------------------------------------------------------------------------------------------


def ambient_suite(ctx, extra_env, tag):
    """Run the repository's own suite under the record-only monitors (plugin vf.ambient); returns its log or None."""
    import json
    log = os.path.join(core.ROOT, '.work', 'ambient_%s_%d.json' % (tag, os.getpid()))
    os.makedirs(os.path.dirname(log), exist_ok=True)
    env = dict(os.environ)
    env['VF_AMBIENT_LOG'] = log
    env.update(extra_env)
    env['PYTHONPATH'] = core.REPO + os.pathsep + core.ROOT + os.pathsep + env.get('PYTHONPATH', '')
    try:
        subprocess.run([core.PYTHON, '-m', 'pytest', '-q', '--no-header', '-p', 'no:cacheprovider', '-p', 'vf.ambient',
                        '--timeout=900', os.path.join(core.REPO, 'odl')], cwd=core.REPO, env=env,
                       stdout=subprocess.DEVNULL, stderr=subprocess.DEVNULL, timeout=1800)
    except subprocess.TimeoutExpired:
        ctx.inconclusive_because('ambient suite run: watchdog')
        return None
    if not os.path.exists(log):
        ctx.inconclusive_because('ambient suite run produced no log')
        return None
    with open(log) as f:
        data = json.load(f)
    os.remove(log)
    return data


def run_ambient(ctx):
    """W-ambient (thorough, shard 0): test pass / fail is ignored, only recorded contract violations count."""
    data = ambient_suite(ctx, {'VF_AMBIENT_SHADOW': '0'}, 'c03')
    if data is None:
        return
    ctx.ev('call-contract', int(data['stats'].get('calls', 0)))
    ctx.note('ambient', {'calls': data['stats'].get('calls', 0), 'aliased': data['stats'].get('aliased', 0),
                         'poisoned_elements': data.get('poisoned', 0), 'pytest_exitstatus': data.get('exitstatus')})
    for v in data['violations']:
        ctx.violation(v['component'], 'ambient:' + v['config'], v['kind'], where='repository test-suite (W-ambient)', count=v['count'])


def run(ctx):
    ctx.note('rule', 'one case = one operator / functional instance (registry recipe, or operator manufactured from it: adjoint, '
                     'inverse, derivative(x), gradient, proximal, convex_conj.proximal, or one of 18 arithmetic wrappers around it) driven through '
                     'the call protocol; '
                     'distinct = distinct (recipe name + manufactured tag); every Operator.__call__ made during the run is '
                     'additionally checked by the contract wrapper')
    sanitize.poison_on()

    def report(kind, op, detail):
        ctx.violation(type(op).__name__, 'contract:%s->%s' % (util.space_tag(op.domain), util.space_tag(op.range)), kind, **detail)
    counts = {}
    mon = sanitize.CallMonitor(report, shadow=False, library_only=True, count=counts).install()
    cov = cover.Cover()
    rng = ctx.rng('protocol')
    crng = ctx.crng('ctor')
    covered = set()
    for i, (group, name, thunk) in enumerate(registry.all_recipes(crng, ctx.thorough)):
        if not ctx.mine(i):
            continue
        try:
            op = thunk()
        except Exception as e:
            ctx.ev('call-protocol')
            ctx.violation(comp_of(name), variant_of(name), 'ctor-raises:' + type(e).__name__, name=name, message=str(e)[:300])
            continue
        if i % 97 == 0:
            ctx.sample({'recipe': name, 'class': type(op).__name__, 'domain': util.srepr(op.domain, 60), 'range': util.srepr(op.range, 60)})
        covered.add('%s.%s' % (type(op).__module__, type(op).__qualname__))
        for c in type(op).__mro__:
            for m in ('_call', '_call_in_place', '_call_out_of_place'):
                if m in vars(c) and sanitize.is_library_class(c) and c is not Operator:
                    cov.add(vars(c)[m], '%s.%s' % (c.__name__, m))
        cov.arm() if not cov.armed else None
        x, y0 = protocol(ctx, name, op, rng)
        if x is not None and not util.is_field(op.domain) and not util.is_pspace(op.domain) and getattr(op.domain, 'is_complex', False) \
                and not registry.needs_positive(name):
            for special in ('imag=0', 'real=0'):
                protocol(ctx, name, op, rng, special=special)
        honesty(ctx, name, op, rng)
        if x is not None:
            rejections(ctx, name, op, rng, x)
        for tag, m in manufactured(ctx, name, op, rng, x):
            covered.add('%s.%s' % (type(m).__module__, type(m).__qualname__))
            protocol(ctx, name, m, rng, manufactured=tag)
            honesty(ctx, name, m, rng, manufactured=tag)
        if x is not None and (ctx.thorough or i % 2 == ctx.seed % 2 or any(k in name for k in VIEW_LEAVES)):
            for tag, m in arithmetic(ctx, name, op, rng, x):
                covered.add('%s.%s' % (type(m).__module__, type(m).__qualname__))
                protocol(ctx, name, m, rng, manufactured=tag)
    if ctx.shard == 0:
        signature_forms(ctx)
    mon.uninstall()
    cov.disarm()
    ctx.ev('call-contract', counts.get('calls', 0))
    ctx.note('contract_counts', {k: v for k, v in counts.items() if ':' not in k})
    ctx.note('poisoned_elements', sanitize.poisoned_count())
    n_exec, n_hit, unreached = cov.report()
    ctx.note('line_coverage', {'executable': n_exec, 'hit': n_hit})
    for u in unreached:
        ctx.note_set('unreached_lines', u)
    for c in sorted(covered):
        ctx.note_set('classes_covered', c, cap=2000)
    if ctx.shard == 0:
        allc = registry.library_classes()
        ctx.note('library_operator_classes', len(allc))
        ctx.note('library_class_list', allc)
    if ctx.thorough and ctx.shard == 0 and ctx.round == 0:
        run_ambient(ctx)
