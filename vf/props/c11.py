"""C11 -- optimised solvers match their reference implementations and resume exactly.

Deciding monitors (offline checkers over callback-recorded iterate traces, vf/trace.py)
  reference-equality : admm_linearized / adupdates / doubleprox_dc against the *_simple reference shipped next to
                       them: iterate by iterate (ADMM) resp. final iterates, 1e-9 relative.
  resume-equality    : n then m iterations == n + m at once for Landweber, Kaczmarz (fixed order), proximal
                       gradient (and accelerated: *not* resumable, observed only), MLEM, constant-step steepest
                       descent; PDHG when x_relax and y are passed back (theta in {0, 1/2, 1}).
  exactly-once       : callbacks observe exactly one iterate per iteration.
S-poison is on (reused buffers are hostile).
"""

import itertools

import numpy as np
import odl
from odl.solvers.nonsmooth.admm import admm_linearized, admm_linearized_simple
from odl.solvers.nonsmooth.alternating_dual_updates import adupdates, adupdates_simple
from odl.solvers.nonsmooth.difference_convex import doubleprox_dc, doubleprox_dc_simple

from .. import cover, sanitize, trace, util

SHARDS = {'quick': 4, 'thorough': 16}
S = odl.solvers


class Problem(object):
    def __init__(self, rng, kind):
        self.rng = rng
        n, m = int(rng.integers(2, 6)), int(rng.integers(2, 7))
        if kind == 'matrix':
            self.X = odl.rn(n)
            self.Y = odl.rn(m)
            self.A = odl.MatrixOperator(rng.normal(size=(m, n)), domain=self.X, range=self.Y)
            self.opn = np.linalg.norm(self.A.matrix, 2)
        elif kind == 'matrix-discr':
            self.X = odl.uniform_discr(0, 1, n)
            self.Y = odl.rn(m)
            self.A = odl.MatrixOperator(rng.normal(size=(m, n)), domain=self.X, range=self.Y)
            self.opn = np.linalg.norm(self.A.matrix, 2) / np.sqrt(self.X.cell_volume) * 1.05
        elif kind == 'gradient1d':
            self.X = odl.uniform_discr(0, 1, n + 2)
            self.A = odl.Gradient(self.X)
            self.Y = self.A.range
            self.opn = 2.0 / self.X.cell_sides[0] * 1.01
        elif kind == 'gradient2d':
            self.X = odl.uniform_discr([0, 0], [1, 1], (3, 4))
            self.A = odl.Gradient(self.X)
            self.Y = self.A.range
            self.opn = np.sqrt(8) / min(self.X.cell_sides) * 1.01
        elif kind == 'broadcast':
            self.X = odl.rn(n)
            A1 = odl.MatrixOperator(rng.normal(size=(m, n)), domain=self.X, range=odl.rn(m))
            self.A = odl.BroadcastOperator(A1, odl.IdentityOperator(self.X))
            self.Y = self.A.range
            self.opn = np.sqrt(np.linalg.norm(A1.matrix, 2) ** 2 + 1) * 1.01
        self.kind = kind
        self.b = util.rand_element(self.Y, rng)
        self.c = util.rand_element(self.X, rng)
        self.x0 = util.rand_element(self.X, rng)

    def fs(self):
        X, c = self.X, self.c
        return {'L1': S.L1Norm(X), 'L1.translated': S.L1Norm(X).translated(c), 'L2sq': S.L2NormSquared(X), 'box': S.IndicatorBox(X, -0.5, 0.7),
                'zero': S.ZeroFunctional(X), 'L2': S.L2Norm(X), 'nonneg': S.IndicatorNonnegativity(X), '0.5*L1': 0.5 * S.L1Norm(X),
                'Huber': S.Huber(X, 0.2)}

    def gs(self):
        Y, b = self.Y, self.b
        d = {'L2sq.translated': S.L2NormSquared(Y).translated(b), 'L1.translated': S.L1Norm(Y).translated(b), 'L2.translated': S.L2Norm(Y).translated(b),
             'box': S.IndicatorBox(Y, -1, 1)}
        if self.kind.startswith('gradient'):    # a power space for every draw (broadcast: only when m == n)
            d['GroupL1'] = S.GroupL1Norm(Y)
        if not util.is_pspace(Y):
            d['KL'] = S.KullbackLeibler(Y, Y.element(np.abs(np.asarray(b)) + 0.1))
        return d


def rel_close(a, b, tol=1e-9):
    a, b = trace.flat(a), trace.flat(b)
    sc = max(1.0, float(np.abs(a).max()) if a.size else 1.0)
    return bool(np.all(np.abs(a - b) <= tol * sc))


def run_admm(ctx, idx0):
    idx = idx0
    for kind in ('matrix', 'matrix-discr', 'gradient1d', 'gradient2d', 'broadcast'):
        P0 = Problem(ctx.crng('admm', kind), kind)
        for fn, gn in itertools.product(list(P0.fs()), list(P0.gs())):
            idx += 1
            if not ctx.mine(idx):
                continue
            for rep in range(ctx.reps(1, 4)):
                rng = ctx.rng('admm', kind, fn, gn, rep)
                Pb = Problem(rng, kind)
                f, g = Pb.fs()[fn], Pb.gs()[gn]
                niter = int(rng.integers(1, ctx.reps(9, 41)))
                sigma = float(rng.uniform(0.5, 2))
                tau = 0.9 * sigma / Pb.opn ** 2
                comp = 'admm_linearized'
                cfg = '%s;f=%s;g=%s' % (kind, fn, gn)
                ctx.case('admm;' + cfg, rep)
                ctx.ev('reference-equality')
                try:
                    r1, r2 = trace.Recorder(), trace.Recorder()
                    x = Pb.x0.copy()
                    admm_linearized(x, f, g, Pb.A, tau, sigma, niter, callback=r1)
                    y = Pb.x0.copy()
                    admm_linearized_simple(y, f, g, Pb.A, tau, sigma, niter, callback=r2)
                    mm = trace.first_mismatch(r1.iterates, r2.iterates)
                    if mm:
                        ctx.violation(comp, cfg, 'iterate-mismatch', first_k=mm[0], rel=mm[1], niter=niter)
                    ctx.ev('exactly-once')
                    if len(r1) != niter or len(r2) != niter:
                        ctx.violation(comp, cfg, 'callback-count', got=(len(r1), len(r2)), niter=niter)
                    if not rel_close(x, r1.iterates[-1]) if niter else False:
                        ctx.violation(comp, cfg, 'final-iterate-not-last-callback')
                except Exception as e:
                    ctx.violation(comp, cfg, 'raises:' + type(e).__name__, message=str(e)[:200])
                if idx % 23 == 0 and rep == 0:
                    ctx.sample({'solver': 'admm_linearized vs admm_linearized_simple', 'problem': cfg, 'niter': niter})
    return idx


def run_adupdates(ctx, idx0):
    idx = idx0
    gkinds = ['L1.translated', 'L2sq.translated', 'L2.translated', 'box', 'Huber']
    for k in (1, 2, 3):
        for combo in itertools.product(gkinds, repeat=k):
            if k == 3 and not ctx.thorough and hash(combo) % 5:
                continue
            for inner_kind in ('scalar', 'per-point-first', 'shared-functional-object'):
                if inner_kind == 'per-point-first' and combo[0] not in ('L1.translated', 'L2sq.translated'):
                    continue   # element-valued steps only for the factories that document them (Appendix B)
                if inner_kind == 'shared-functional-object' and (k < 2 or len(set(combo)) != 1):
                    continue   # one functional *object* at several positions of g, each with its own operator and inner step
                idx += 1
                if not ctx.mine(idx):
                    continue
                rng = ctx.rng('adupdates', combo, inner_kind)
                n = int(rng.integers(2, 6))
                X = odl.rn(n)
                Ls, gl = [], []
                m_shared = int(rng.integers(2, 4))
                for gk in combo:
                    mi = int(rng.integers(1, 4)) if inner_kind != 'shared-functional-object' else m_shared
                    Yi = odl.rn(mi)
                    Ls.append(odl.MatrixOperator(rng.normal(size=(mi, n)), domain=X, range=Yi))
                    bi = Yi.element(rng.normal(size=mi))
                    gl.append({'L1.translated': S.L1Norm(Yi).translated(bi), 'L2sq.translated': S.L2NormSquared(Yi).translated(bi),
                               'L2.translated': S.L2Norm(Yi).translated(bi), 'box': S.IndicatorBox(Yi, -1, 1), 'Huber': S.Huber(Yi, 0.2)}[gk])
                if inner_kind == 'shared-functional-object':
                    gl = [gl[0]] * len(gl)
                    Ls = [odl.MatrixOperator(L.matrix * sc_, domain=X, range=L.range) for L, sc_ in zip(Ls, (1.0, 3.0, 0.4))]
                stepsize = float(rng.uniform(0.5, 2))
                inner = [0.9 / np.linalg.norm(L.matrix, 2) ** 2 for L in Ls]
                if inner_kind == 'per-point-first':
                    inner[0] = (inner[0] * np.ones(Ls[0].range.size)).tolist()
                niter = int(rng.integers(1, ctx.reps(9, 41)))
                x0 = X.element(rng.normal(size=n))
                comp = 'adupdates'
                cfg = 'g=%s;inner=%s' % ('+'.join(sorted(set(combo))), inner_kind)
                ctx.case('adupdates;%s;%s' % ('+'.join(combo), inner_kind), 0)
                ctx.ev('reference-equality')
                try:
                    x = x0.copy()
                    r1 = trace.Recorder()
                    adupdates(x, gl, Ls, stepsize, inner, niter, callback=r1)
                    y = x0.copy()
                    adupdates_simple(y, gl, Ls, stepsize, inner, niter)
                    if not rel_close(x, y):
                        ctx.violation(comp, cfg, 'final-iterate-mismatch', maxdiff=util.maxdiff(x, y), niter=niter)
                    ctx.ev('exactly-once')
                    if len(r1) != niter:
                        ctx.violation(comp, cfg, 'callback-count', got=len(r1), niter=niter)
                    # random order with identically seeded np.random
                    np.random.seed(1234)
                    x = x0.copy()
                    adupdates(x, gl, Ls, stepsize, inner, niter, random=True)
                    np.random.seed(1234)
                    x2 = x0.copy()
                    adupdates(x2, gl, Ls, stepsize, inner, niter, random=True)
                    if not rel_close(x, x2, 1e-14):
                        ctx.violation(comp, cfg, 'random-order-not-reproducible-with-seed')
                    # callbacks after every partial update: one observation per dual block and sweep, the last one is the result,
                    # and every len(g)-th one is what the per-sweep callback of an identical run sees
                    ctx.ev('exactly-once')
                    ri = trace.Recorder()
                    xi = x0.copy()
                    adupdates(xi, gl, Ls, stepsize, inner, niter, callback=ri, callback_loop='inner')
                    if len(ri) != niter * len(gl):
                        ctx.violation(comp, cfg + ';loop=inner', 'callback-count', got=len(ri), want=niter * len(gl))
                    elif niter:
                        if not rel_close(xi, ri.iterates[-1], 1e-14):
                            ctx.violation(comp, cfg + ';loop=inner', 'final-iterate-not-last-callback')
                        mm = trace.first_mismatch(ri.iterates[len(gl) - 1::len(gl)], r1.iterates)
                        if mm:
                            ctx.violation(comp, cfg + ';loop=inner', 'iterate-mismatch', first_k=mm[0], rel=mm[1])
                except Exception as e:
                    ctx.violation(comp, cfg, 'raises:' + type(e).__name__, message=str(e)[:200])
    return idx


def run_dpdc(ctx, idx0):
    idx = idx0
    for kind in ('matrix', 'matrix-discr', 'gradient1d'):
        P0 = Problem(ctx.crng('dpdc', kind), kind)
        for fn in P0.fs():
            for gn in ('L1', 'L2sq.translated', 'L2'):
                idx += 1
                if not ctx.mine(idx):
                    continue
                rng = ctx.rng('dpdc', kind, fn, gn)
                Pb = Problem(rng, kind)
                f = Pb.fs()[fn]
                phi = S.L2NormSquared(Pb.X) * 0.3
                g = {'L1': S.L1Norm(Pb.Y), 'L2sq.translated': S.L2NormSquared(Pb.Y).translated(Pb.b), 'L2': S.L2Norm(Pb.Y)}[gn]
                gamma = float(rng.uniform(0.1, 1)) / max(1.0, Pb.opn ** 2)
                mu = float(rng.uniform(0.1, 1))
                niter = int(rng.integers(1, ctx.reps(9, 41)))
                y0 = util.rand_element(Pb.Y, rng)
                comp = 'doubleprox_dc'
                cfg = '%s;f=%s;g=%s' % (kind, fn, gn)
                ctx.case('dpdc;' + cfg, 0)
                ctx.ev('reference-equality')
                try:
                    x, y = Pb.x0.copy(), y0.copy()
                    r1 = trace.Recorder()
                    doubleprox_dc(x, y, f, phi, g, Pb.A, niter, gamma, mu, callback=r1)
                    x2, y2 = Pb.x0.copy(), y0.copy()
                    r2 = trace.Recorder()
                    doubleprox_dc_simple(x2, y2, f, phi, g, Pb.A, niter, gamma, mu)
                    if not (rel_close(x, x2) and rel_close(y, y2)):
                        ctx.violation(comp, cfg, 'final-iterate-mismatch', dx=util.maxdiff(x, x2), dy=util.maxdiff(y, y2), niter=niter)
                    # the reference has no callback: compare every prefix length instead (iterate-by-iterate)
                    for k in sorted(set([1, niter // 2])):
                        if 0 < k < niter:
                            xa, ya = Pb.x0.copy(), y0.copy()
                            doubleprox_dc(xa, ya, f, phi, g, Pb.A, k, gamma, mu)
                            xb, yb = Pb.x0.copy(), y0.copy()
                            doubleprox_dc_simple(xb, yb, f, phi, g, Pb.A, k, gamma, mu)
                            if not (rel_close(xa, xb) and rel_close(ya, yb)):
                                ctx.violation(comp, cfg, 'iterate-mismatch', at_k=k)
                                break
                    ctx.ev('exactly-once')
                    if len(r1) != niter:
                        ctx.violation(comp, cfg, 'callback-count', got=len(r1), niter=niter)
                except Exception as e:
                    ctx.violation(comp, cfg, 'raises:' + type(e).__name__, message=str(e)[:200])
    return idx


def split_check(ctx, comp, cfg, run, x0, niter, n1, tol=1e-10, callback_run=None):
    """run(x, k[, callback]) advances x in place by k iterations."""
    ctx.ev('resume-equality')
    try:
        a = x0.copy()
        run(a, niter)
        b = x0.copy()
        run(b, n1)
        run(b, niter - n1)
        if not rel_close(a, b, tol):
            ctx.violation(comp, cfg, 'resume-mismatch', split='%d+%d' % (n1, niter - n1), maxdiff=util.maxdiff(a, b))
        if callback_run is not None:
            ctx.ev('exactly-once')
            r = trace.Recorder()
            c = x0.copy()
            callback_run(c, niter, r)
            if len(r) != niter:
                ctx.violation(comp, cfg, 'callback-count', got=len(r), niter=niter)
            elif niter and not rel_close(c, r.iterates[-1], 1e-12):
                ctx.violation(comp, cfg, 'final-iterate-not-last-callback')
    except Exception as e:
        ctx.violation(comp, cfg, 'raises:' + type(e).__name__, message=str(e)[:200])


def run_resume(ctx, idx0):
    idx = idx0
    for kind in ('matrix', 'matrix-discr'):
        P0 = Problem(ctx.crng('resume', kind), kind)
        fnames = list(P0.fs())
        for fi, fn in enumerate(fnames):
            for rep in range(ctx.reps(2, 8)):
                idx += 1
                if not ctx.mine(idx):
                    continue
                rng = ctx.rng('resume', kind, fn, rep)
                Pb = Problem(rng, kind)
                A, b, X, Y, x0 = Pb.A, Pb.b, Pb.X, Pb.Y, Pb.x0
                niter = int(rng.integers(1, ctx.reps(9, 41)))
                n1 = int(rng.integers(0, niter + 1))
                om = 1 / Pb.opn ** 2
                ctx.case('resume;%s;%s' % (kind, fn), (rep, niter, n1))
                split_check(ctx, 'landweber', kind, lambda x, k: S.landweber(A, x, b, k, omega=om), x0, niter, n1,
                            callback_run=lambda x, k, cb: S.landweber(A, x, b, k, omega=om, callback=cb))
                split_check(ctx, 'kaczmarz', kind, lambda x, k: S.kaczmarz([A, 0.5 * A], x, [b, 0.5 * b], k, omega=om), x0, niter, n1,
                            callback_run=lambda x, k, cb: S.kaczmarz([A, 0.5 * A], x, [b, 0.5 * b], k, omega=om, callback=cb))
                # non-linear forward operators (documented for landweber / kaczmarz): the Jacobian is re-evaluated at every
                # iterate; reference = the textbook loop written out here
                Nl = A * (odl.IdentityOperator(X) + 0.2 * odl.PowerOperator(X, 3))
                omn = 0.3 / (Pb.opn * (1 + 0.6 * float(np.abs(np.asarray(x0)).max() + 1.0) ** 2)) ** 2

                def lw_ref(x, k, op=Nl, w=omn):
                    its = []
                    for _ in range(k):
                        x = x + w * op.derivative(x).adjoint(b - op(x))
                        its.append(trace.flat(x).copy())
                    return its

                def kz_ref(x, k, ops=(Nl, 0.5 * Nl), rhs=(b, 0.5 * b), w=omn):
                    its = []
                    for _ in range(k):
                        for o_, r_ in zip(ops, rhs):
                            x = x + w * o_.derivative(x).adjoint(r_ - o_(x))
                        its.append(trace.flat(x).copy())
                    return its
                for sname_, solver, ref in (('landweber', lambda x, k, cb=None: S.landweber(Nl, x, b, k, omega=omn, callback=cb), lw_ref),
                                            ('kaczmarz', lambda x, k, cb=None: S.kaczmarz([Nl, 0.5 * Nl], x, [b, 0.5 * b], k, omega=omn, callback=cb), kz_ref)):
                    split_check(ctx, sname_, kind + ';nonlinear', lambda x, k, solver=solver: solver(x, k), x0, niter, n1)
                    ctx.ev('reference-equality')
                    try:
                        r = trace.Recorder()
                        xa = x0.copy()
                        solver(xa, niter, r)
                        mm = trace.first_mismatch(r.iterates, ref(x0.copy(), niter))
                        if mm:
                            ctx.violation(sname_, kind + ';nonlinear', 'iterate-mismatch', first_k=mm[0], rel=mm[1], niter=niter)
                    except Exception as e:
                        ctx.violation(sname_, kind + ';nonlinear', 'raises:' + type(e).__name__, message=str(e)[:200])
                data = S.L2NormSquared(Y).translated(b) * A
                gam = 0.4 / Pb.opn ** 2
                f = Pb.fs()[fn]
                split_check(ctx, 'proximal_gradient', '%s;f=%s' % (kind, fn), lambda x, k: S.proximal_gradient(x, f, data, gam, k), x0, niter, n1,
                            callback_run=lambda x, k, cb: S.proximal_gradient(x, f, data, gam, k, callback=cb))
                # relaxation: the (relaxed) iterate is the whole state - under- and over-relaxed runs resume exactly too, and the
                # element handed back is the iterate the last callback saw
                for lam_ in (0.6, 1.5):
                    split_check(ctx, 'proximal_gradient', '%s;f=%s;lam=%s' % (kind, fn, 'under' if lam_ < 1 else 'over'),
                                lambda x, k, lam_=lam_: S.proximal_gradient(x, f, data, gam, k, lam=lam_), x0, niter, n1,
                                callback_run=lambda x, k, cb, lam_=lam_: S.proximal_gradient(x, f, data, gam, k, lam=lam_, callback=cb))
                split_check(ctx, 'steepest_descent(constant-step)', kind,
                            lambda x, k: S.steepest_descent(data, x, line_search=gam, maxiter=k, tol=0) if k else None, x0, niter, n1,
                            callback_run=lambda x, k, cb: S.steepest_descent(data, x, line_search=gam, maxiter=k, tol=0, callback=cb))
                # the `projection` keyword (applied in place after every update): projected gradient / Landweber / Kaczmarz against
                # the textbook loops
                def proj(z):
                    z.ufuncs.maximum(-0.2, out=z)
                    z.ufuncs.minimum(0.4, out=z)

                def pg_ref(x, k):
                    its = []
                    for _ in range(k):
                        x = x - gam * data.gradient(x)
                        proj(x)
                        its.append(trace.flat(x).copy())
                    return its

                def plw_ref(x, k):
                    its = []
                    for _ in range(k):
                        x = x + om * A.adjoint(b - A(x))
                        proj(x)
                        its.append(trace.flat(x).copy())
                    return its
                for sname_, solver, ref in (
                        ('steepest_descent(constant-step)', lambda x, k, cb=None: S.steepest_descent(data, x, line_search=gam, maxiter=k, tol=0, projection=proj, callback=cb) if k else None, pg_ref),
                        ('landweber', lambda x, k, cb=None: S.landweber(A, x, b, k, omega=om, projection=proj, callback=cb), plw_ref)):
                    split_check(ctx, sname_, kind + ';projection', lambda x, k, solver=solver: solver(x, k), x0, niter, n1)
                    ctx.ev('reference-equality')
                    try:
                        r = trace.Recorder()
                        xa = x0.copy()
                        solver(xa, niter, r)
                        mm = trace.first_mismatch(r.iterates, ref(x0.copy(), niter))
                        if mm:
                            ctx.violation(sname_, kind + ';projection', 'iterate-mismatch', first_k=mm[0], rel=mm[1], niter=niter)
                    except Exception as e:
                        ctx.violation(sname_, kind + ';projection', 'raises:' + type(e).__name__, message=str(e)[:200])
                # Kaczmarz with projection and a callback after every partial update: what the callback sees are iterates
                # (projected), the last one is the returned point
                ctx.ev('exactly-once')
                try:
                    r = trace.Recorder()
                    xk = x0.copy()
                    S.kaczmarz([A, 0.5 * A], xk, [b, 0.5 * b], max(niter, 1), omega=om, projection=proj, callback=r, callback_loop='inner')
                    ref_its = []
                    xr = x0.copy()
                    for _ in range(max(niter, 1)):
                        for o_, r_ in ((A, b), (0.5 * A, 0.5 * b)):
                            xr = xr + om * o_.adjoint(r_ - o_(xr))
                            proj(xr)
                            ref_its.append(trace.flat(xr).copy())
                    mm = trace.first_mismatch(r.iterates, ref_its)
                    if len(r) != len(ref_its):
                        ctx.violation('kaczmarz', kind + ';projection;loop=inner', 'callback-count', got=len(r), want=len(ref_its))
                    elif mm:
                        ctx.violation('kaczmarz', kind + ';projection;loop=inner', 'iterate-mismatch', first_k=mm[0], rel=mm[1])
                    elif not rel_close(xk, r.iterates[-1], 1e-12):
                        ctx.violation('kaczmarz', kind + ';projection;loop=inner', 'final-iterate-not-last-callback')
                except Exception as e:
                    ctx.violation('kaczmarz', kind + ';projection;loop=inner', 'raises:' + type(e).__name__, message=str(e)[:200])
                # random order: the documented randomisation is one permutation of the equations per sweep, drawn from NumPy's
                # global generator - identically seeded, the run equals the reference that draws the same permutations
                ctx.ev('reference-equality')
                try:
                    opsk, rhsk = [A, 0.5 * A, -0.25 * A], [b, 0.5 * b, -0.25 * b]
                    nk = max(niter, 1)
                    np.random.seed(4321)
                    r = trace.Recorder()
                    xk = x0.copy()
                    S.kaczmarz(opsk, xk, rhsk, nk, omega=om, random=True, callback=r)
                    np.random.seed(4321)
                    xr = x0.copy()
                    ref_its = []
                    for _ in range(nk):
                        for i_ in np.random.permutation(range(len(opsk))):
                            xr = xr + om * opsk[i_].adjoint(rhsk[i_] - opsk[i_](xr))
                        ref_its.append(trace.flat(xr).copy())
                    mm = trace.first_mismatch(r.iterates, ref_its)
                    if len(r) != nk:
                        ctx.violation('kaczmarz', kind + ';random-order', 'callback-count', got=len(r), want=nk)
                    elif mm:
                        ctx.violation('kaczmarz', kind + ';random-order', 'iterate-mismatch', first_k=mm[0], rel=mm[1])
                except Exception as e:
                    ctx.violation('kaczmarz', kind + ';random-order', 'raises:' + type(e).__name__, message=str(e)[:200])
                # spellings of the callback option: whatever string is given, the callback either sees the documented number of
                # iterates (one per iteration for 'outer', one per partial update for 'inner') or the call is refused - never
                # an unobserved run
                for spelling, per_iter in (('outer', 1), ('inner', 2), ('OUTER', 1), ('Inner', 2), ('both', None), ('', None)):
                    ctx.ev('exactly-once')
                    ctx.case('kaczmarz;callback_loop', spelling)
                    r = trace.Recorder()
                    xk = x0.copy()
                    nk = max(niter, 1)
                    try:
                        S.kaczmarz([A, 0.5 * A], xk, [b, 0.5 * b], nk, omega=om, callback=r, callback_loop=spelling)
                    except ValueError:
                        if per_iter is not None and spelling in ('outer', 'inner'):
                            ctx.violation('kaczmarz', kind + ';callback_loop=documented', 'raises:ValueError')
                        elif not rel_close(xk, x0, 0):
                            ctx.violation('kaczmarz', kind + ';callback_loop=unknown', 'refused-after-iterating')
                        continue
                    except Exception as e:
                        ctx.violation('kaczmarz', kind + ';callback_loop=' + ('unknown' if per_iter is None else 'case-variant'), 'raises:' + type(e).__name__, message=str(e)[:200])
                        continue
                    if per_iter is None:
                        if len(r) not in (nk, 2 * nk):
                            ctx.violation('kaczmarz', kind + ';callback_loop=unknown', 'callback-count', got=len(r), niter=nk, spelling=spelling)
                    elif len(r) != per_iter * nk:
                        ctx.violation('kaczmarz', kind + ';callback_loop=' + ('documented' if spelling in ('outer', 'inner') else 'case-variant'), 'callback-count',
                                      got=len(r), want=per_iter * nk, spelling=spelling)
                # Douglas-Rachford: two operators with *equal* ranges are the same algorithm as one BroadcastOperator with a
                # SeparableSum (equal dual steps) - iterate by iterate
                if kind == 'matrix':
                    ctx.ev('reference-equality')
                    try:
                        A2 = odl.MatrixOperator(rng.normal(size=A.matrix.shape), domain=X, range=Y)
                        b2 = util.rand_element(Y, rng)
                        g1, g2 = S.L2NormSquared(Y).translated(b), S.L1Norm(Y).translated(b2)
                        nrm = np.sqrt(np.linalg.norm(A.matrix, 2) ** 2 + np.linalg.norm(A2.matrix, 2) ** 2)
                        tau_, sig_ = 1.0 / nrm, 1.5 / nrm
                        r1, r2 = trace.Recorder(), trace.Recorder()
                        xa, xb = x0.copy(), x0.copy()
                        S.douglas_rachford_pd(xa, f, [g1, g2], [A, A2], max(niter, 2), tau=tau_, sigma=[sig_, sig_], callback=r1)
                        S.douglas_rachford_pd(xb, f, [S.SeparableSum(g1, g2)], [odl.BroadcastOperator(A, A2)], max(niter, 2), tau=tau_, sigma=[sig_], callback=r2)
                        mm = trace.first_mismatch(r1.iterates, r2.iterates, 1e-8)
                        if mm:
                            ctx.violation('douglas_rachford_pd', 'matrix;equal-ranges;f=%s' % fn, 'iterate-mismatch', first_k=mm[0], rel=mm[1], against='BroadcastOperator formulation')
                    except (NotImplementedError, odl.OpNotImplementedError):
                        ctx.skip('a proximal is not offered')
                    except Exception as e:
                        ctx.violation('douglas_rachford_pd', 'matrix;equal-ranges;f=%s' % fn, 'raises:' + type(e).__name__, message=str(e)[:200])
                # MLEM needs positivity
                if kind == 'matrix':
                    Ap = odl.MatrixOperator(np.abs(A.matrix), domain=X, range=Y)
                    bp = Y.element(np.abs(np.asarray(b)) + 0.1)
                    x0p = X.element(np.abs(np.asarray(x0)) + 0.1)
                    split_check(ctx, 'mlem', kind, lambda x, k: S.mlem(Ap, x, bp, k), x0p, niter, n1, tol=1e-9,
                                callback_run=lambda x, k, cb: S.mlem(Ap, x, bp, k, callback=cb))
                    # start values with exact zeros and entries far below 1 (legal: "non-negative"); data that push entries down
                    x0z = x0p.copy()
                    x0z[0] = 0.0
                    if X.size > 2:
                        x0z[1] = 1e-12
                    bsmall = Y.element(np.asarray(bp) * 1e-3)
                    split_check(ctx, 'mlem', kind + ';start-with-zero-and-tiny-entries', lambda x, k: S.mlem(Ap, x, bsmall, k), x0z, max(niter, 4), max(1, min(n1, 3)), tol=1e-13)
                    # user-supplied sensitivities: a float, or one image per operator (the same objects handed to every call -
                    # they are the caller's data and must come back unchanged); ordered subsets sharing one image
                    sens = X.element(rng.uniform(0.5, 2.0, size=X.shape))
                    sens_arr = rng.uniform(0.5, 2.0, size=X.shape)
                    A2p = odl.MatrixOperator(np.abs(rng.normal(size=A.matrix.shape)), domain=X, range=Y)
                    b2p = Y.element(np.abs(rng.normal(size=Y.shape)) + 0.1)
                    for sk, runner, args in (
                            ('sensitivities=float', lambda x, k, cb=None: S.mlem(Ap, x, bp, k, sensitivities=1.7, callback=cb), []),
                            ('sensitivities=[element]', lambda x, k, cb=None: S.mlem(Ap, x, bp, k, sensitivities=[sens], callback=cb), [sens]),
                            ('sensitivities=[ndarray]', lambda x, k, cb=None: S.mlem(Ap, x, bp, k, sensitivities=[sens_arr], callback=cb), [sens_arr]),
                            ('osmlem;shared-sensitivity-image', lambda x, k, cb=None: S.osmlem([Ap, A2p], x, [bp, b2p], k, sensitivities=[sens, sens], callback=cb), [sens, bp, b2p])):
                        keep = [np.array(np.asarray(a_), copy=True) for a_ in args]
                        split_check(ctx, 'mlem', kind + ';' + sk, lambda x, k: runner(x, k), x0p, niter, n1, tol=1e-9)
                        if any(not np.array_equal(np.asarray(a_), k_) for a_, k_ in zip(args, keep)):
                            ctx.violation('mlem', kind + ';' + sk, 'caller-argument-modified')
                        if sk.startswith('sensitivities=['):
                            # the documented iteration x <- x / s * A^T(g / A x), written out
                            ctx.ev('reference-equality')
                            sv = np.asarray(args[0])
                            xr = np.asarray(x0p).copy()
                            for _k in range(niter):
                                xr = xr / sv * (Ap.matrix.T @ (np.asarray(bp) / np.maximum(Ap.matrix @ xr, 1e-8)))
                            xl = x0p.copy()
                            runner(xl, niter)
                            if not np.allclose(np.asarray(xl), xr, rtol=1e-9, atol=1e-12):
                                ctx.violation('mlem', kind + ';' + sk, 'final-iterate-mismatch', against='documented iteration in NumPy')
                # PDHG with state passed back
                for theta in (1.0, 0.5, 0.0):
                    gn = list(Pb.gs())[(fi + rep) % len(Pb.gs())]
                    g = Pb.gs()[gn]
                    tau = sigma = 0.9 / Pb.opn
                    cfg = '%s;f=%s;g=%s;theta=%s' % (kind, fn, gn, theta)
                    ctx.ev('resume-equality')
                    try:
                        a = x0.copy()
                        r1 = trace.Recorder()
                        S.pdhg(a, f, g, A, niter, tau, sigma, theta=theta, callback=r1)
                        bb = x0.copy()
                        xr = bb.copy()
                        yy = Y.zero()
                        r2 = trace.Recorder()
                        S.pdhg(bb, f, g, A, n1, tau, sigma, theta=theta, x_relax=xr, y=yy, callback=r2)
                        S.pdhg(bb, f, g, A, niter - n1, tau, sigma, theta=theta, x_relax=xr, y=yy, callback=r2)
                        ctx.ev('exactly-once')
                        if len(r1) != niter or len(r2) != niter:
                            ctx.violation('pdhg', cfg, 'callback-count', got=(len(r1), len(r2)), niter=niter)
                        else:
                            mm = trace.first_mismatch(r1.iterates, r2.iterates, 1e-10)
                            if mm:
                                ctx.violation('pdhg', cfg, 'resume-mismatch', first_k=mm[0], rel=mm[1], split='%d+%d' % (n1, niter - n1))
                    except Exception as e:
                        ctx.violation('pdhg', cfg, 'raises:' + type(e).__name__, message=str(e)[:200])
    return idx


def run(ctx):
    ctx.note('rule', 'one case = one (solver, problem kind, functional classes for every slot, repetition) with seeded operator, '
                     'data, step sizes, start point, iteration count and split point; functional classes and problem kinds are '
                     'enumerated, the seed varies values; distinct = distinct case keys')
    import odl.solvers.iterative.iterative as _it, odl.solvers.iterative.statistical as _st, odl.solvers.smooth.gradient as _gr, \
        odl.solvers.nonsmooth.primal_dual_hybrid_gradient as _pd, odl.solvers.nonsmooth.proximal_gradient_solvers as _pg, \
        odl.solvers.nonsmooth.admm as _ad, odl.solvers.nonsmooth.alternating_dual_updates as _au, odl.solvers.nonsmooth.difference_convex as _dc
    cov = cover.Cover()
    for mod, names in ((_it, ('landweber', 'kaczmarz')), (_st, ('mlem', 'osmlem')), (_gr, ('steepest_descent',)), (_pd, ('pdhg',)),
                       (_pg, ('proximal_gradient',)), (_ad, ('admm_linearized', 'admm_linearized_simple')),
                       (_au, ('adupdates', 'adupdates_simple')), (_dc, ('doubleprox_dc', 'doubleprox_dc_simple'))):
        for nm in names:
            cov.add(getattr(mod, nm, None), nm)
    cov.arm()
    sanitize.poison_on()
    idx = run_admm(ctx, 0)
    idx = run_adupdates(ctx, idx)
    idx = run_dpdc(ctx, idx)
    idx = run_resume(ctx, idx)
    ctx.note('poisoned_elements', sanitize.poisoned_count())
    cover.report_to(ctx, cov)
    for m in ('reference-equality', 'resume-equality', 'exactly-once'):
        ctx.ev(m, 0)
