"""C20 -- sets and spaces: equality, hashing, membership and element creation are coherent.

Deciding monitors
  equivalence-laws : reflexive / symmetric / transitive (all triples), a==b => hash(a)==hash(b), hash does
                     not raise, != is the negation, == never raises -- over a pool with identical,
                     one-parameter-different (constructor-signature driven) and cross-type twins.
  membership       : x in S  <=>  x.space == S ; S.element(x) is x.
  element-creation : values == input cast to dtype, memory shared when dtype/shape/order match, incompatible
                     shapes rejected with ValueError/TypeError.
  derived-spaces   : astype / real_space / complex_space / byaxis / product-space indexing.
  element-indexing : x[idx].asarray() == x.asarray()[idx].
"""

import inspect
import itertools

import numpy as np
import odl

from .. import cover, util

SHARDS = {'quick': 2, 'thorough': 8}


def tname(o):
    return type(o).__name__


# ---------------------------------------------------------------------------------------------
# pool


def base_pool():
    from odl.space.npy_tensors import NumpyTensorSpaceConstWeighting as NC, NumpyTensorSpaceArrayWeighting as NA
    from odl.space.npy_tensors import (NumpyTensorSpaceCustomInner as NCI, NumpyTensorSpaceCustomNorm as NCN,
                                       NumpyTensorSpaceCustomDist as NCD)
    from odl.space.pspace import ProductSpaceConstWeighting as PC, ProductSpaceArrayWeighting as PA
    R, C, Z = odl.RealNumbers(), odl.ComplexNumbers(), odl.Integers()
    P = []

    def add(tag, *objs):
        for o in objs:
            P.append((tag, o))
    add('sets', R, odl.RealNumbers(), C, odl.ComplexNumbers(), Z, odl.EmptySet(), odl.EmptySet(), odl.UniversalSet(),
        odl.Strings(3), odl.Strings(3), odl.Strings(4),
        odl.CartesianProduct(R, C), odl.CartesianProduct(R, C), odl.CartesianProduct(C, R), odl.CartesianProduct(R, R, R),
        odl.CartesianProduct(),
        odl.SetUnion(R, C), odl.SetUnion(C, R), odl.SetUnion(R, C, Z), odl.SetUnion(R), odl.SetIntersection(R, C),
        odl.SetIntersection(C, R), odl.SetIntersection(R, Z),
        odl.FiniteSet(1, 2, 'a'), odl.FiniteSet(2, 1, 'a'), odl.FiniteSet(1, 2), odl.FiniteSet(1, 2, 2))
    add('intervals', odl.IntervalProd(0, 1), odl.IntervalProd(0.0, 1.0), odl.IntervalProd([0, 0], [1, 1]), odl.IntervalProd([0, 0], [1, 2]),
        odl.IntervalProd([0, 0, 0], [1, 1, 1]), odl.IntervalProd(-0.0, 1), odl.IntervalProd(0, 1 + 2e-16), odl.IntervalProd(0, 0),
        odl.IntervalProd([], []), odl.IntervalProd([0, 0], [1, 1]))
    add('grids', odl.uniform_grid(0, 1, 3), odl.uniform_grid(0, 1, 3), odl.RectGrid([0, 0.5, 1]), odl.RectGrid([-0.0, 0.5, 1]),
        odl.uniform_grid([0, 0], [1, 1], (3, 3)), odl.RectGrid([0, 0.5, 1.0000000000000002]), odl.RectGrid([0, 0.5, 1], [0, 0.5, 1]),
        odl.RectGrid([0.5]), odl.RectGrid(), odl.uniform_grid(0, 1, 3, nodes_on_bdry=False) if False else odl.uniform_grid(0, 2, 3))
    add('partitions', odl.uniform_partition(0, 1, 3), odl.uniform_partition(0, 1, 3), odl.uniform_partition(0, 1, 3, nodes_on_bdry=True),
        odl.nonuniform_partition([1 / 6, 0.5, 5 / 6], min_pt=0, max_pt=1), odl.uniform_partition([0, 0], [1, 1], (3, 3)),
        odl.uniform_partition(0, 1, 3, nodes_on_bdry=(True, False)), odl.uniform_partition(0, 2, 3), odl.uniform_partition(0, 1, 4),
        odl.RectPartition(odl.IntervalProd(0, 1), odl.RectGrid([1 / 6, 0.5, 5 / 6])))
    w = np.array([1., 2., 3.])

    def f(x, y):
        return 0.0

    def g(x, y):
        return 0.0
    add('weightings', NC(1.0), NC(1.0), NC(2.0), NC(2), PC(2.0), PC(1.0), NC(2.0, exponent=1), PC(2.0, exponent=1), NA(w), NA(w), NA(w.copy()),
        PA(w), PA(w.copy()), NA(w, exponent=1), NCI(f), NCI(f), NCI(g), NCN(np.linalg.norm), NCN(np.linalg.norm), NCD(f), NCD(f))
    add('tensor', odl.rn(3), odl.rn(3), odl.rn((3,)), odl.rn(3, weighting=1.0), odl.rn(3, weighting=2.0), odl.rn(3, weighting=2),
        odl.rn(3, weighting=w), odl.rn(3, weighting=w), odl.rn(3, weighting=w.copy()), odl.rn(3, exponent=1), odl.rn(3, dtype='float32'),
        odl.cn(3), odl.cn(3, dtype='complex64'), odl.tensor_space(3, dtype=int), odl.tensor_space(3, dtype='U2'), odl.tensor_space(3, dtype=bool),
        odl.rn((3, 1)), odl.rn((1, 3)), odl.rn(3, inner=f), odl.rn(3, inner=f), odl.rn(3, inner=g), odl.rn(3, norm=np.linalg.norm),
        odl.rn(3, dist=f), odl.rn(0), odl.rn(()), odl.rn(4))
    add('discr', odl.uniform_discr(0, 1, 3), odl.uniform_discr(0, 1, 3), odl.uniform_discr(0, 1, 3, dtype='float32'),
        odl.uniform_discr(0, 1, 3, nodes_on_bdry=True), odl.uniform_discr(0, 1, 3, weighting=1 / 3), odl.uniform_discr(0, 1, 3, exponent=1),
        odl.uniform_discr(0, 3, 3), odl.uniform_discr(0, 1, 3, dtype=complex), odl.uniform_discr(0, 1, 3, axis_labels=['t']),
        odl.uniform_discr([0, 0], [1, 1], (3, 3)), odl.uniform_discr([0, 0], [1, 1], (3, 3), axis_labels=['a', 'b']),
        odl.uniform_discr(0, 1, 3, weighting=2.0), odl.uniform_discr(0, 1, 3, weighting=w),
        odl.uniform_discr_frompartition(odl.nonuniform_partition([1 / 6, 0.5, 5 / 6], min_pt=0, max_pt=1)))
    r3 = odl.rn(3)
    add('pspace', r3 ** 2, odl.ProductSpace(r3, 2), odl.ProductSpace(r3, r3), odl.ProductSpace(r3, odl.rn(3)), odl.ProductSpace(r3, 2, weighting=2.0),
        odl.ProductSpace(r3, 2, weighting=[1, 2]), odl.ProductSpace(r3, 2, weighting=[1, 2]), odl.ProductSpace(r3, 2, weighting=[1.0, 1.0]),
        odl.ProductSpace(r3, 2, exponent=1), (r3 ** 2) ** 2, odl.ProductSpace(r3 ** 2, 2), odl.ProductSpace(odl.cn(3), 2),
        odl.ProductSpace(field=odl.RealNumbers()), odl.ProductSpace(r3, 0), odl.ProductSpace(r3, odl.rn(2)), odl.ProductSpace(odl.rn(2), r3),
        odl.ProductSpace(r3, 3), odl.ProductSpace(r3, 2, weighting=1.0), odl.ProductSpace(odl.uniform_discr(0, 1, 3), 2),
        odl.ProductSpace(r3, 2, inner=f), odl.ProductSpace(r3, 2, inner=f))
    # near twins: one number of the defining data moved by one ulp / 1e-10 / 1e-6 (interior node, end node, limits,
    # weights).  Nothing prescribes whether these are equal - but whatever == says, hash / != / transitivity must follow.
    for eps in (np.spacing(0.5), 1e-10, 1e-6):
        for n in (5, 11):
            cv = np.linspace(0, 1, n)
            P.append(('grids', odl.RectGrid(cv)))
            for pos in (0, n // 2, n - 2, n - 1):
                cvp = cv.copy()
                cvp[pos] += eps
                P.append(('grids', odl.RectGrid(cvp)))
                P.append(('partitions', odl.RectPartition(odl.IntervalProd(-0.5, 1.5), odl.RectGrid(cvp))))
                if n == 5:
                    P.append(('discr', odl.uniform_discr_frompartition(odl.RectPartition(odl.IntervalProd(-0.5, 1.5), odl.RectGrid(cvp)))))
        P.append(('grids', odl.RectGrid(np.linspace(0, 1, 5), np.linspace(0, 1, 4))))
        P.append(('grids', odl.RectGrid(np.linspace(0, 1, 5), np.linspace(0, 1, 4) + np.array([0, eps, 0, 0]))))
        P.append(('intervals', odl.IntervalProd([0, 0], [1, 1 + eps])))
        P.append(('partitions', odl.RectPartition(odl.IntervalProd(-0.5 + eps, 1.5), odl.RectGrid(np.linspace(0, 1, 5)))))
        P.append(('tensor', odl.rn(3, weighting=2.0 + eps)))
        P.append(('tensor', odl.rn(3, weighting=w + np.array([0, eps, 0]))))
        P.append(('tensor', odl.rn(3, exponent=2 + eps)))
        P.append(('pspace', odl.ProductSpace(r3, 2, weighting=[1, 2 + eps])))
        P.append(('discr', odl.uniform_discr(0, 1 + eps, 3)))
    return P


# one-parameter twins: factory -> (base kwargs, {param: variant value})
def twin_specs():
    w3 = np.array([1., 2., 3.])
    return {
        'uniform_discr': (odl.uniform_discr, dict(min_pt=[0, 0], max_pt=[1, 2], shape=(3, 4)), {
            'min_pt': [0, -1], 'max_pt': [1, 3], 'shape': (4, 3), 'dtype': 'float32', 'impl': None,
            'exponent': 1.0, 'nodes_on_bdry': True, 'weighting': 2.0, 'axis_labels': ['a', 'b'],
            'interp': None, 'order': None}),
        'uniform_partition': (odl.uniform_partition, dict(min_pt=[0, 0], max_pt=[1, 2], shape=(3, 4)), {
            'min_pt': [0, -1], 'max_pt': [1, 3], 'shape': (4, 3), 'nodes_on_bdry': [(True, False), False], 'cell_sides': None}),
        'tensor_space': (odl.tensor_space, dict(shape=(2, 3)), {
            'shape': (3, 2), 'dtype': 'float32', 'impl': None, 'exponent': 3.0, 'weighting': 2.0}),
        'rn': (odl.rn, dict(shape=3), {'shape': 4, 'dtype': 'float32', 'impl': None, 'exponent': 1.0, 'weighting': w3}),
        'cn': (odl.cn, dict(shape=3), {'shape': 4, 'dtype': 'complex64', 'impl': None, 'exponent': 1.0, 'weighting': 0.5}),
        'ProductSpace': (lambda **kw: odl.ProductSpace(odl.rn(3), 2, **kw), {}, {
            'exponent': 1.0, 'weighting': [1.0, 2.0], 'field': None}),
        'uniform_grid': (odl.uniform_grid, dict(min_pt=[0, 0], max_pt=[1, 2], shape=(3, 4)), {
            'min_pt': [0, -1], 'max_pt': [1, 3], 'shape': (4, 3), 'nodes_on_bdry': True}),
        'IntervalProd': (odl.IntervalProd, dict(min_pt=[0, 0], max_pt=[1, 2]), {'min_pt': [0, -1], 'max_pt': [1, 3]}),
        'RectGrid': (lambda *a: odl.RectGrid(*a), None, {}),
    }


def build_twins(ctx):
    out = []
    for name, (fac, base, variants) in twin_specs().items():
        if base is None:
            continue
        try:
            b1 = fac(**base)
            b2 = fac(**base)
        except Exception as e:
            ctx.note_set('twin_construction_failed', '%s: %s' % (name, str(e)[:80]))
            continue
        out.append(('twin:%s:identical' % name, b1))
        out.append(('twin:%s:identical' % name, b2))
        try:
            params = [p for p in inspect.signature(fac).parameters if p not in ('self', 'kwargs', 'args', 'kw')]
        except (TypeError, ValueError):
            params = []
        for p in params:
            if p not in variants:
                ctx.note_set('unvaried', '%s(%s)' % (name, p))
        for p, v in variants.items():
            if v is None:
                ctx.note_set('unvaried', '%s(%s)' % (name, p))
                continue
            kw = dict(base)
            kw[p] = v
            try:
                out.append(('twin:%s:%s' % (name, p), fac(**kw)))
            except Exception as e:
                ctx.note_set('twin_construction_failed', '%s(%s): %s' % (name, p, str(e)[:80]))
    return out


def law_checks(ctx, pool):
    n = len(pool)
    objs = [o for _t, o in pool]
    tags = [t for t, _o in pool]
    H = {}
    E = {}

    def comp(i, j=None):
        if j is None:
            return tname(objs[i])
        a, b = sorted([tname(objs[i]), tname(objs[j])])
        return a if a == b else '%s~%s' % (a, b)

    def cfg(i, j=None):
        ts = set([tags[i]] + ([tags[j]] if j is not None else []))
        tw = sorted(t for t in ts if t.startswith('twin:') and not t.endswith(':identical'))
        return tw[0] if tw else 'pool'

    for i, a in enumerate(objs):
        ctx.ev('equivalence-laws')
        ctx.case('object;%s' % tname(a), i)
        try:
            H[i] = hash(a)
        except Exception as e:
            H[i] = None
            ctx.violation(comp(i), 'pool', 'hash-raises:' + type(e).__name__, obj=util.srepr(a, 100))
    for i, j in itertools.product(range(n), repeat=2):
        try:
            E[i, j] = bool(objs[i] == objs[j])
        except Exception as e:
            E[i, j] = None
            ctx.violation(comp(i, j), cfg(i, j), '==raises:' + type(e).__name__, a=util.srepr(objs[i], 80), b=util.srepr(objs[j], 80))
    for i in range(n):
        if E[i, i] is False:
            ctx.violation(comp(i), 'pool', 'not-reflexive', obj=util.srepr(objs[i], 100))
    npairs = 0
    for i, j in itertools.combinations(range(n), 2):
        if E[i, j] is None or E[j, i] is None:
            continue
        npairs += 1
        ctx.ev('equivalence-laws')
        if E[i, j] != E[j, i]:
            ctx.violation(comp(i, j), cfg(i, j), 'not-symmetric', a=util.srepr(objs[i], 80), b=util.srepr(objs[j], 80))
        if E[i, j] and H[i] is not None and H[j] is not None and H[i] != H[j]:
            ctx.violation(comp(i, j), cfg(i, j), 'equal-but-hash-differs', a=util.srepr(objs[i], 80), b=util.srepr(objs[j], 80))
        try:
            ne = bool(objs[i] != objs[j])
            if ne == E[i, j]:
                ctx.violation(comp(i, j), cfg(i, j), '!=inconsistent-with-==', a=util.srepr(objs[i], 80), b=util.srepr(objs[j], 80))
        except Exception as e:
            ctx.violation(comp(i, j), cfg(i, j), '!=raises:' + type(e).__name__)
    ntr = 0
    for i in range(n):
        if not ctx.mine(i):
            continue
        row = [j for j in range(n) if E[i, j]]
        for j in row:
            for k in range(n):
                if E[j, k]:
                    ntr += 1
                    if E[i, k] is False:
                        ctx.violation(comp(i, k), cfg(i, k), 'not-transitive', a=util.srepr(objs[i], 60), b=util.srepr(objs[j], 60), c=util.srepr(objs[k], 60))
    ctx.ev('equivalence-laws', ntr)
    ctx.note('pool_size', n)
    ctx.note_add('pairs_checked', npairs)
    ctx.note_add('transitivity_chains_checked', ntr)
    # identical twins must be equal; (no prescription for the others)
    for i, j in itertools.combinations(range(n), 2):
        if tags[i] == tags[j] and tags[i].endswith(':identical') and E[i, j] is False:
            ctx.violation(comp(i, j), tags[i], 'identically-built-objects-differ')
    # membership
    spaces = [(i, o) for i, o in enumerate(objs) if isinstance(o, odl.LinearSpace)]
    for i, sp in spaces:
        try:
            x = sp.zero() if (np.dtype(getattr(sp, 'dtype', float) or float).kind in 'fciub' and (not util.is_pspace(sp) or len(sp))) else sp.element()
        except Exception:
            try:
                x = sp.element()
            except Exception:
                continue
        for j, other in spaces:
            ctx.ev('membership')
            try:
                m = bool(x in other)
            except Exception as e:
                ctx.violation(comp(i, j), cfg(i, j), 'in-raises:' + type(e).__name__)
                continue
            if E[i, j] is not None and m != E[i, j]:
                ctx.violation(comp(i, j), cfg(i, j), 'membership!=space-equality', sp=util.srepr(sp, 80), other=util.srepr(other, 80))
            if m and other is not sp:
                # an element of an equal (not identical) space instance is an element of this one: handed back as it is
                try:
                    if other.element(x) is not x:
                        ctx.violation(comp(i, j), cfg(i, j), 'element(x)-is-not-x', sp=util.srepr(sp, 80), probe='x from an equal but not identical space')
                except Exception as e:
                    ctx.violation(comp(i, j), cfg(i, j), 'element(x)-raises:' + type(e).__name__, sp=util.srepr(sp, 80))
        try:
            if sp.element(x) is not x:
                ctx.violation(comp(i), 'pool', 'element(x)-is-not-x', sp=util.srepr(sp, 80))
        except Exception as e:
            ctx.violation(comp(i), 'pool', 'element(x)-raises:' + type(e).__name__, sp=util.srepr(sp, 80))


# ---------------------------------------------------------------------------------------------
# element creation / derived spaces / indexing


def element_spaces(rng):
    return {
        'rn(2,3)': odl.rn((2, 3)), 'rn-w': odl.rn((2, 3), weighting=2.0), 'rn-aw': odl.rn((2, 3), weighting=rng.uniform(1, 2, size=(2, 3))),
        'cn': odl.cn((2, 3)), 'f32': odl.rn((2, 3), dtype='float32'), 'int': odl.tensor_space((2, 3), dtype=int),
        'discr': odl.uniform_discr([0, 0], [1, 2], (2, 3)), 'discr-c': odl.uniform_discr([0, 0], [1, 2], (2, 3), dtype=complex),
        'discr-bdry': odl.uniform_discr([0, 0], [1, 2], (2, 3), nodes_on_bdry=True), 'rn(4)': odl.rn(4), 'exp1': odl.rn((2, 3), exponent=1),
        'discr1d': odl.uniform_discr(0, 1, 5), 'rn(2,3,2)': odl.rn((2, 3, 2)),
        # half / single precision (float16 -> complex64 -> float32 is not a round trip of dtypes), and a default-weighted
        # discretization whose anisotropic cells have volume exactly 1
        'f16': odl.rn((2, 3), dtype='float16'), 'c64': odl.cn((2, 3), dtype='complex64'), 'c64-w': odl.cn((2, 3), dtype='complex64', weighting=2.0),
        'discr-f16': odl.uniform_discr([0, 0], [1, 2], (2, 3), dtype='float16'),
        'discr-cv1': odl.uniform_discr([0, 0], [8, 3], (4, 6)), 'discr-cv1-3d': odl.uniform_discr([0, 0, 0], [4, 1, 1], (2, 2, 4)),
    }


def wkind(sp):
    return util.weighting_tag(sp)


def run_elements(ctx):
    rng = ctx.rng('elements')
    for sname, sp in element_spaces(rng).items():
        skind = '%s;%s' % ('discr' if isinstance(sp, odl.DiscretizedSpace) else 'tensor', wkind(sp))
        dt = np.dtype(sp.dtype)
        base = (rng.integers(-9, 10, size=sp.shape)).astype(float)
        inputs = {
            'list': base.tolist(), 'f64-C': base.copy(), 'f64-F': np.asfortranarray(base),
            'own-dtype': base.astype(dt), 'own-dtype-F': np.asfortranarray(base.astype(dt)),
            'strided': np.repeat(np.repeat(base, 2, axis=0), 2, axis=-1).astype(dt)[tuple([slice(None, None, 2)] + [slice(None)] * (sp.ndim - 2) + ([slice(None, None, 2)] if sp.ndim > 1 else []))],
            'int-array': base.astype(int), 'readonly': np.broadcast_to(np.asarray(1.0, dtype=dt), sp.shape),
            'tensor-of-other-space': odl.rn(sp.shape).element(base), 'f32': base.astype('float32'),
        }
        if dt.kind == 'c':
            inputs['complex'] = base + 1j * base[::-1]
        for iname, inp in inputs.items():
            ctx.ev('element-creation')
            ctx.case('element;%s;%s' % (sname, iname), 0)
            comp = 'element'
            cfg = '%s;%s' % (skind, iname)
            try:
                if iname == 'strided' and np.asarray(inp).shape != sp.shape:
                    continue
                el = sp.element(inp)
                a = np.asarray(inp)
                if not np.array_equal(el.asarray(), a.astype(dt)):
                    ctx.violation(comp, cfg, 'values!=input-cast-to-dtype')
                if el not in sp:
                    ctx.violation(comp, cfg, 'result-not-in-space')
                if isinstance(inp, np.ndarray) and inp.dtype == dt and inp.flags.writeable and inp.shape == sp.shape and \
                        (inp.flags.c_contiguous or inp.flags.f_contiguous) and not np.shares_memory(el.asarray(), inp):
                    ctx.violation(comp, cfg, 'no-memory-sharing')
                if sp.element(el) is not el:
                    ctx.violation(comp, cfg, 'element(x)-is-not-x')
                if not np.array_equal(sp.element(el.asarray()).asarray(), el.asarray()):
                    ctx.violation(comp, cfg, 'asarray-roundtrip')
            except Exception as e:
                ctx.violation(comp, cfg, 'raises:' + type(e).__name__, message=str(e)[:200])
        for bname, bad in (('size+1', np.zeros(sp.size + 1)), ('extra-axis', np.zeros(sp.shape + (2,))), ('ragged', [[1, 2], [3]]),
                           ('transposed', np.zeros(sp.shape[::-1]) if sp.ndim > 1 and sp.shape != sp.shape[::-1] else np.zeros(sp.size + 2))):
            ctx.ev('element-creation')
            try:
                sp.element(bad)
                ctx.violation('element', '%s;bad:%s' % (skind, bname), 'incompatible-shape-accepted')
            except (ValueError, TypeError):
                pass
            except Exception as e:
                ctx.violation('element', '%s;bad:%s' % (skind, bname), 'wrong-exception:' + type(e).__name__)
        # derived spaces
        for dts in ('float32', 'float64', 'complex64', 'complex128', 'int64'):
            ctx.ev('derived-spaces')
            comp = 'astype'
            cfg = '%s;->%s' % (skind, np.dtype(dts).kind + str(np.dtype(dts).itemsize))
            try:
                t = sp.astype(dts)
                if t.shape != sp.shape or t.dtype != np.dtype(dts):
                    ctx.violation(comp, cfg, 'shape/dtype')
                if np.dtype(dts).kind in 'fc' and dt.kind in 'fc':
                    if type(t.weighting) is not type(sp.weighting) or t.exponent != sp.exponent:
                        ctx.violation(comp, cfg, 'weighting-type/exponent')
                    if hasattr(sp.weighting, 'const') and t.weighting.const != sp.weighting.const:
                        ctx.violation(comp, cfg, 'const-weight')
                    if hasattr(sp.weighting, 'array') and not np.allclose(t.weighting.array, sp.weighting.array):
                        ctx.violation(comp, cfg, 'array-weight')
                if isinstance(sp, odl.DiscretizedSpace) and t.partition != sp.partition:
                    ctx.violation(comp, cfg, 'partition')
                if np.dtype(dts) == dt and sp.astype(dts) is not sp and sp.astype(dts) != sp:
                    ctx.violation(comp, cfg, 'same-dtype-not-equal-to-self')
                # array weightings compare by identity of the array (documented), so a round trip through a
                # lower precision cannot be `==`; only demanded for the other weighting kinds
                if not hasattr(sp.weighting, 'array') and t.astype(dt) != sp and np.dtype(dts).kind in 'fc' and dt.kind in 'fc':
                    ctx.violation(comp, cfg, 'astype-roundtrip!=self')
            except Exception as e:
                ctx.violation(comp, cfg, 'raises:' + type(e).__name__, message=str(e)[:200])
        if dt.kind in 'fc':
            ctx.ev('derived-spaces')
            try:
                rs, cs = sp.real_space, sp.complex_space
                if rs.shape != sp.shape or cs.shape != sp.shape or not rs.is_real or not cs.is_complex:
                    ctx.violation('real/complex_space', skind, 'shape/field')
                # (float16 -> complex64 -> float32: a round trip only where the documented dtype maps are inverse to each other)
                if (cs.real_dtype == rs.dtype and cs.real_space != rs) or (rs.complex_dtype == cs.dtype and rs.complex_space != cs):
                    ctx.violation('real/complex_space', skind, 'roundtrip')
                if (sp.is_real and rs != sp) or (sp.is_complex and cs != sp):
                    ctx.violation('real/complex_space', skind, 'own-counterpart!=self')
                if hasattr(sp.weighting, 'const') and (rs.weighting.const != sp.weighting.const or cs.weighting.const != sp.weighting.const):
                    ctx.violation('real/complex_space', skind, 'const-weight')
                if rs.exponent != sp.exponent or cs.exponent != sp.exponent:
                    ctx.violation('real/complex_space', skind, 'exponent')
                # dtypes follow the documented real <-> complex dtype maps, also after a chain of conversions
                chain = [sp, cs, cs.real_space, cs.real_space.complex_space, rs, rs.complex_space, rs.complex_space.real_space]
                for t in chain:
                    if t.is_real and (t.dtype != t.real_dtype or t.complex_space.dtype != t.complex_dtype):
                        ctx.violation('real/complex_space', skind, 'dtype-map', space=util.srepr(t, 60))
                    if t.is_complex and (t.dtype != t.complex_dtype or t.real_space.dtype != t.real_dtype):
                        ctx.violation('real/complex_space', skind, 'dtype-map', space=util.srepr(t, 60))
                    if t.is_complex:
                        z = t.zero()
                        if z.real.space.dtype != t.real_dtype or z.real.space != t.real_space:
                            ctx.violation('real/complex_space', skind, 'x.real-not-in-real_space', space=util.srepr(t, 60))
            except Exception as e:
                ctx.violation('real/complex_space', skind, 'raises:' + type(e).__name__, message=str(e)[:200])
        # element indexing commutes with asarray
        x = sp.element(np.arange(sp.size).reshape(sp.shape).astype(dt))
        if sp.ndim == 1:
            idxs = [0, -1, slice(None), slice(1, None), Ellipsis, [0, 1], [1, 0, 1], slice(None, None, 2), slice(None, None, -1), x.asarray() > 1]
        else:
            idxs = [0, -1, (0, 1), (slice(None), 1), (Ellipsis, 0), (1, slice(0, 2)), slice(0, 1), [0, 1], (slice(None), [0, sp.shape[1] - 1]),
                    x.asarray() > 2, (slice(None, None, -1), slice(None, None, 2)), (Ellipsis,), (slice(None),) * sp.ndim]
        for ix in idxs:
            ctx.ev('element-indexing')
            ixk = ('mask' if isinstance(ix, np.ndarray) else type(ix).__name__ if not isinstance(ix, tuple) else 'tuple[%s]' % ','.join(sorted(set('list' if isinstance(i, list) else type(i).__name__ for i in ix))))
            cfg = skind if 'array' in skind else '%s;%s' % (skind, ixk)
            ctx.case('index;%s;%s' % (sname, str(ix)[:30]), 0)
            try:
                got = x[ix]
                exp = x.asarray()[ix]
                if not np.array_equal(np.asarray(got), exp):
                    ctx.violation('x[idx]', cfg, 'values')
                if np.ndim(exp) > 0:
                    if not hasattr(got, 'space'):
                        ctx.violation('x[idx]', cfg, 'not-an-element')
                    elif got.space.shape != exp.shape or got.space.dtype != exp.dtype:
                        ctx.violation('x[idx]', cfg, 'space-shape/dtype')
                    elif hasattr(sp.weighting, 'const') and hasattr(got.space, 'weighting') and not isinstance(sp, odl.DiscretizedSpace) \
                            and getattr(got.space.weighting, 'const', None) != sp.weighting.const:
                        ctx.violation('x[idx]', cfg, 'const-weight')
                    elif getattr(got.space, 'exponent', sp.exponent) != sp.exponent:
                        ctx.violation('x[idx]', cfg, 'exponent')
            except Exception as e:
                ctx.violation('x[idx]', cfg, 'raises:' + type(e).__name__, message=str(e)[:200])
        # setitem mirrors numpy
        ctx.ev('element-indexing')
        try:
            y = x.copy()
            ref = x.asarray().copy()
            y[0] = 7
            ref[0] = 7
            y[..., -1] = 3
            ref[..., -1] = 3
            if not np.array_equal(y.asarray(), ref):
                ctx.violation('x[idx]=v', skind, 'values')
        except Exception as e:
            ctx.violation('x[idx]=v', skind, 'raises:' + type(e).__name__, message=str(e)[:200])
        # byaxis
        if sp.ndim >= 2 and 'array' in skind:
            ctx.skip('byaxis of an array-weighted space: no weighting selection is defined')
        elif sp.ndim >= 2:
            for ax in (0, 1, [1, 0], slice(None), slice(1, None)):
                ctx.ev('derived-spaces')
                cfg = '%s;%s' % (skind, type(ax).__name__)
                try:
                    b = (sp.byaxis_in if isinstance(sp, odl.DiscretizedSpace) else sp.byaxis)[ax]
                    shp = tuple(np.array(sp.shape)[ax]) if not isinstance(ax, int) else (sp.shape[ax],)
                    if b.shape != shp or b.dtype != sp.dtype:
                        ctx.violation('byaxis', cfg, 'shape/dtype')
                    if hasattr(sp.weighting, 'const') and not isinstance(sp, odl.DiscretizedSpace) and b.weighting.const != sp.weighting.const:
                        ctx.violation('byaxis', cfg, 'const-weight')
                    if b.exponent != sp.exponent:
                        ctx.violation('byaxis', cfg, 'exponent')
                    if isinstance(sp, odl.DiscretizedSpace):
                        axs = [ax] if isinstance(ax, int) else list(np.arange(sp.ndim)[ax])
                        if b.partition != sp.partition.byaxis[axs]:
                            ctx.violation('byaxis', cfg, 'partition')
                        # a default-weighted space (weight = cell volume) restricts to the default-weighted space of the
                        # selected axes, whatever the numerical value of the cell volume
                        if hasattr(sp.weighting, 'const') and sp.weighting.const == sp.cell_volume and sp.exponent == 2.0:
                            want = odl.uniform_discr_frompartition(sp.partition.byaxis[axs], dtype=sp.dtype, axis_labels=[sp.axis_labels[i] for i in axs])
                            if not np.isclose(b.weighting.const, b.cell_volume) or b != want:
                                ctx.violation('byaxis', cfg, 'not-the-default-weighted-space-of-the-selected-axes',
                                              got=float(b.weighting.const), cell_volume=float(b.cell_volume))
                        if tuple(b.axis_labels) != tuple(np.array(sp.axis_labels)[axs]):
                            ctx.violation('byaxis', cfg, 'axis_labels')
                except Exception as e:
                    ctx.violation('byaxis', cfg, 'raises:' + type(e).__name__, message=str(e)[:200])


def run_pspace_indexing(ctx):
    r3 = odl.rn(3)
    r2 = odl.rn(2)
    ps = odl.ProductSpace(r3, r2, r3)
    pw = odl.ProductSpace(r3, 3, weighting=[1, 2, 3])
    pc = odl.ProductSpace(r3, 3, weighting=2.5)
    pp = odl.ProductSpace(odl.ProductSpace(r3, 2), 3)
    pe = odl.ProductSpace(r3, 3, exponent=1.0)
    ppc = odl.ProductSpace(odl.ProductSpace(r3, 2), 3, weighting=2.5)
    ppa = odl.ProductSpace(odl.ProductSpace(r3, 2), 3, weighting=[3.0, 1.0, 0.25], exponent=1.0)
    for pn, p in {'plain': ps, 'array-weighted': pw, 'const-weighted': pc, 'nested': pp, 'exponent1': pe,
                  'nested-const-weighted': ppc, 'nested-array-weighted-exp1': ppa}.items():
        # element creation from ready-made parts / raw data of the wrong length is refused (ValueError / TypeError), never
        # answered with an element that has more or fewer parts than its space
        good_parts = [s_.zero() for s_ in p]
        bads = {'one-part-too-many': good_parts + [good_parts[0]], 'one-part-missing': good_parts[:-1], 'no-parts': [],
                'raw-too-many': [np.zeros(s_.shape) if not isinstance(s_, odl.ProductSpace) else [np.zeros(3)] * len(s_) for s_ in p] + [np.zeros(3)],
                'tuple-one-part-missing': tuple(good_parts[:-1])}
        for bname, bad in bads.items():
            for kw in ({}, {'cast': False}):
                ctx.ev('element-creation')
                ctx.case('pspace-element;bad:%s;%s' % (bname, pn), str(kw))
                try:
                    e = p.element(bad, **kw)
                    ctx.violation('ProductSpace.element', 'bad:%s' % ('wrong-number-of-ready-made-parts' if 'part' in bname else bname), 'bad-input-accepted',
                                  parts=len(getattr(e, 'parts', [])), space_len=len(p))
                except (ValueError, TypeError):
                    pass
                except Exception as ex:
                    ctx.violation('ProductSpace.element', 'bad:%s' % bname, 'wrong-exception:' + type(ex).__name__)
        # data-type counterparts of a product space: components converted, weighting and exponent those of the original
        for how, conv in (('astype(float32)', lambda q: q.astype('float32')), ('complex_space', lambda q: q.complex_space),
                          ('complex_space.real_space', lambda q: q.complex_space.real_space), ('astype(complex64).astype(float64)', lambda q: q.astype('complex64').astype('float64'))):
            ctx.ev('derived-spaces')
            ctx.case('pspace-dtype;%s;%s' % (pn, how), 0)
            try:
                c = conv(p)
                if len(c) != len(p) or float(c.exponent) != float(p.exponent):
                    ctx.violation('ProductSpace.' + how.split('(')[0], pn, 'exponent-or-length-not-kept', got=util.srepr(c, 100))
                wp, wc = p.weighting, c.weighting
                same_w = (type(wp).__name__ == type(wc).__name__ and
                          (np.array_equal(np.asarray(wp.array), np.asarray(wc.array)) if hasattr(wp, 'array') else getattr(wp, 'const', None) == getattr(wc, 'const', None)))
                if not same_w:
                    ctx.violation('ProductSpace.' + how.split('(')[0], pn, 'weighting-not-kept', got=str(wc), want=str(wp))
                cplx = any(np.dtype(l.dtype).kind == 'c' for _q, l in util.leaves(c))
                if c.field != (odl.ComplexNumbers() if cplx else odl.RealNumbers()):
                    ctx.violation('ProductSpace.' + how.split('(')[0], pn, 'field-is-not-that-of-the-components', got=str(c.field))
                else:
                    one = c.one()
                    sc = (1.5 - 0.5j) if cplx else 1.5
                    if not np.allclose(util.to_cvec(c, sc * one), sc):
                        ctx.violation('ProductSpace.' + how.split('(')[0], pn, 'scalar-of-the-field-not-usable')
                if how in ('complex_space.real_space', 'astype(complex64).astype(float64)') and c != p:
                    ctx.violation('ProductSpace.' + how.split('(')[0], pn, 'roundtrip!=space', got=util.srepr(c, 100))
            except Exception as e:
                ctx.violation('ProductSpace.' + how.split('(')[0], pn, 'raises:' + type(e).__name__, message=str(e)[:200])
        x = p.element([np.arange(s.size, dtype=float).reshape(s.shape) + 10 * k if not isinstance(s, odl.ProductSpace)
                       else [np.arange(3.) + kk + 10 * k for kk in range(len(s))] for k, s in enumerate(p)])
        idxs = [0, -1, slice(0, 2), slice(None, None, 2), [2, 0], (1,), (slice(0, 2),), slice(1, None), ()]
        if pn.startswith('nested'):
            idxs += [(1, 0), (slice(0, 2), 1), (slice(None), slice(0, 1)), (slice(1, None), 0), (slice(None, None, 2), slice(None))]
        for ix in idxs:
            ctx.ev('derived-spaces')
            ixk = type(ix).__name__ if not isinstance(ix, tuple) else 'tuple'
            cfg = '%s;%s' % (pn, ixk)
            ctx.case('pspace-index;%s;%s' % (pn, str(ix)), 0)
            try:
                subsp = p[ix]
                sub = x[ix]
                if hasattr(sub, 'space') and (sub.space != subsp or hash(sub.space) != hash(subsp)):
                    # per-component weight arrays are compared by value (repair 69c6e0c): indexing twice gives equal spaces
                    ctx.violation('ProductSpace[idx]', cfg, 'x[idx].space!=space[idx]')
                if isinstance(subsp, odl.ProductSpace) and (p[ix] != subsp or hash(p[ix]) != hash(subsp)):
                    ctx.violation('ProductSpace[idx]', cfg, 'space[idx]!=space[idx]')
                if ix == ():
                    # the empty index selects everything (as for arrays): the space itself, the element itself
                    if subsp != p:
                        ctx.violation('ProductSpace[idx]', cfg, 'empty-index-is-not-the-space')
                    if not (hasattr(sub, 'space') and sub.space == p and sub == x):
                        ctx.violation('ProductSpaceElement[idx]', cfg, 'empty-index-is-not-the-element')
                if isinstance(ix, tuple) and len(ix) == 2 and isinstance(ix[0], (slice, list)) and pn.startswith('nested'):
                    # outer selection, then the inner index in each selected component: the outer weights (and the exponent) are
                    # those of the selected outer components
                    sel = list(range(len(p)))[ix[0]] if isinstance(ix[0], slice) else ix[0]
                    w = p.weighting
                    kw = {'exponent': p.exponent}
                    if hasattr(w, 'array'):
                        kw['weighting'] = np.asarray(w.array)[sel]
                    elif getattr(w, 'const', 1.0) != 1.0:
                        kw['weighting'] = w.const
                    want = odl.ProductSpace(*[p.spaces[i][ix[1]] for i in sel], **kw)
                    if subsp != want:
                        ctx.violation('ProductSpace[idx]', cfg, 'space-of-a-two-level-selection', got=util.srepr(subsp, 120), want=util.srepr(want, 120))
                    if hasattr(sub, 'space') and sub.space != want:
                        ctx.violation('ProductSpaceElement[idx]', cfg, 'space-of-a-two-level-selection', got=util.srepr(sub.space, 120), want=util.srepr(want, 120))
                if isinstance(ix, (slice, list)) and isinstance(subsp, odl.ProductSpace):
                    sel = list(range(len(p)))[ix] if isinstance(ix, slice) else ix
                    if list(subsp.spaces) != [p.spaces[i] for i in sel]:
                        ctx.violation('ProductSpace[idx]', cfg, 'components')
                    for a, i in zip(sub.parts, sel):
                        if a is not x.parts[i] and not np.array_equal(np.asarray(a), np.asarray(x.parts[i])):
                            ctx.violation('ProductSpace[idx]', cfg, 'element-parts')
                    if subsp.exponent != p.exponent:
                        ctx.violation('ProductSpace[idx]', cfg, 'exponent-not-kept')
                    if pn == 'array-weighted':
                        arr = getattr(subsp.weighting, 'array', None)
                        if arr is None or not np.array_equal(arr, np.array([1, 2, 3])[sel]):
                            ctx.violation('ProductSpace[idx]', cfg, 'array-weights-not-those-of-the-selection')
                    if pn == 'const-weighted' and getattr(subsp.weighting, 'const', None) != 2.5:
                        ctx.violation('ProductSpace[idx]', cfg, 'const-weight-not-kept')
                elif isinstance(ix, int):
                    if subsp != p.spaces[ix] or sub is not x.parts[ix]:
                        ctx.violation('ProductSpace[idx]', cfg, 'component')
            except Exception as e:
                ctx.violation('ProductSpace[idx]', cfg, 'raises:' + type(e).__name__, message=str(e)[:200])
        if p.is_power_space:
            ctx.ev('element-indexing')
            try:
                a = x.asarray()
                for ix in [0, slice(0, 2), (1, slice(None)), -1, (slice(None), slice(-2, None)), (-1, slice(None))]:
                    if not np.array_equal(np.asarray(x[ix]), a[ix]):
                        ctx.violation('ProductSpace[idx]', pn, 'asarray-does-not-commute')
                # (slice, int): the selected entry of every part, kept as parts of size 1 - first, middle, last, written from either end
                if not any(isinstance(s_, odl.ProductSpace) for s_ in p):
                    n_in = p[0].size
                    for j in (0, n_in - 1, -1, -n_in, 1 - n_in):
                        got = np.asarray(x[:, j]).reshape(len(p))
                        if not np.array_equal(got, a[:, j]):
                            ctx.violation('ProductSpace[idx]', pn, 'asarray-does-not-commute', index='[:, %d]' % j, got=got, ref=a[:, j])
            except Exception as e:
                ctx.violation('ProductSpace[idx]', pn, 'asarray-raises:' + type(e).__name__, message=str(e)[:200])


# ---------------------------------------------------------------------------------------------
# W-ambient: coherence of ==, hash and membership on every comparison the repository's own suite makes


class AmbientContract(object):
    """Record-only contract attached to every ``__eq__`` a library class defines (sets, spaces, grids, partitions,
    weightings, geometries, detectors, operators' helper objects): a comparison that comes out True must be symmetric and
    the hashes must agree (where both objects are hashable); one that comes out False must be False the other way round;
    ``x == x``.  On ``LinearSpace.__contains__``: membership iff the element's own space equals the space."""

    def __init__(self, rec):
        self.rec = rec
        self.busy = False

    def install(self):
        import sys
        import odl   # noqa: F401
        me = self
        classes = []
        for mname, mod in list(sys.modules.items()):
            if not mname.startswith('odl.') or '.test' in mname or mod is None:
                continue
            for cname, c in list(vars(mod).items()):
                if isinstance(c, type) and getattr(c, '__module__', None) == mname and '__eq__' in vars(c) and c not in classes:
                    classes.append(c)
        for c in classes:
            self._wrap_eq(c)
        from odl.set.space import LinearSpace, LinearSpaceElement
        for c in [k for k in self._subclasses(LinearSpace) if '__contains__' in vars(k) and k.__module__.startswith('odl.') and '.test' not in k.__module__]:
            self._wrap_contains(c, LinearSpaceElement)
        self.rec.note_add('ambient_eq_classes_wrapped', len(classes))

    @staticmethod
    def _subclasses(base):
        out, todo = [], [base]
        while todo:
            c = todo.pop()
            if c not in out:
                out.append(c)
                todo.extend(c.__subclasses__())
        return out

    def _wrap_eq(self, c):
        me = self
        orig = vars(c)['__eq__']
        from odl.set.space import LinearSpaceElement

        def __eq__(self, other):
            r = orig(self, other)
            if me.busy or r is NotImplemented or isinstance(self, LinearSpaceElement):
                return r
            # only the outermost comparison counts: a base-class __eq__ reached through super() compares a part of the state
            if next((k for k in type(self).__mro__ if '__eq__' in vars(k)), None) is not c:
                return r
            me.busy = True
            try:
                me.check_eq(c, self, other, bool(r))
            except Exception as e:
                me.rec.note_add('ambient_contract_errors:' + type(e).__name__)
            finally:
                me.busy = False
            return r
        __eq__.__doc__ = orig.__doc__
        try:
            had_hash = vars(c).get('__hash__', 'absent')
            setattr(c, '__eq__', __eq__)
            if had_hash != 'absent':
                setattr(c, '__hash__', had_hash)
        except TypeError:
            pass

    def _wrap_contains(self, c, LinearSpaceElement):
        me = self
        orig = vars(c)['__contains__']

        def __contains__(self, other):
            r = orig(self, other)
            if me.busy:
                return r
            me.busy = True
            try:
                if isinstance(other, LinearSpaceElement):
                    me.rec.ev('ambient-membership')
                    want = bool(other.space == self)
                    if bool(r) != want:
                        me.rec.violation(type(self).__name__, 'ambient', 'membership!=(element.space == space)', got=bool(r), want=want)
            except Exception as e:
                me.rec.note_add('ambient_contract_errors:' + type(e).__name__)
            finally:
                me.busy = False
            return r
        __contains__.__doc__ = orig.__doc__
        try:
            setattr(c, '__contains__', __contains__)
        except TypeError:
            pass

    def check_eq(self, c, a, b, r):
        self.rec.ev('ambient-eq')
        comp = tname(a) if tname(a) == tname(b) else '%s~%s' % tuple(sorted((tname(a), tname(b))))
        if not type(b).__module__.startswith('odl.'):
            # comparison with a foreign object (None, str, numbers): only "not equal to something that is not a set" is demanded
            return
        back = (b == a)
        if back is NotImplemented:
            return
        if bool(back) != r:
            self.rec.violation(comp, 'ambient', 'asymmetric', forward=r, backward=bool(back))
            return
        if r:
            try:
                ha, hb = hash(a), hash(b)
            except TypeError:
                self.rec.note_add('ambient_unhashable')
                return
            if ha != hb:
                self.rec.violation(comp, 'ambient', 'equal-but-hash-differs')
        if a is not b and not (a == a):
            self.rec.violation(comp, 'ambient', 'not-reflexive')


def run_ambient(ctx):
    from .c03 import ambient_suite
    data = ambient_suite(ctx, {'VF_AMBIENT_EQ': '1', 'VF_AMBIENT_NO_CALLMON': '1'}, 'c20')
    if not data:
        return
    st = data['stats']
    ctx.note('ambient', {k: v for k, v in st.items() if k.startswith('ambient')})
    ctx.ev('ambient-contract', int(st.get('ambient-eq', 0)) + int(st.get('ambient-membership', 0)))
    for v in data['violations']:
        ctx.violation(v['component'], v['config'], v['kind'], where='repository test-suite (W-ambient)', count=v['count'], example=v.get('example'))


def run(ctx):
    ctx.note('rule', 'pool objects (hand-built incl. cross-type and near twins + one twin per constructor parameter) are '
                     'compared pairwise and in all triples; element creation / derived spaces / indexing cases are '
                     '(space, input kind | index expression); distinct = distinct objects / (space, input) pairs; '
                     'non-trivial = all')
    from odl.space.pspace import ProductSpace as _PS, ProductSpaceElement as _PE
    from odl.space.base_tensors import TensorSpace as _TS, Tensor as _T
    from odl.space.npy_tensors import NumpyTensorSpace as _NS, NumpyTensor as _NT
    from odl.discr.discr_space import DiscretizedSpace as _DS, DiscretizedSpaceElement as _DE
    from odl.set.domain import IntervalProd as _IP
    from odl.discr.grid import RectGrid as _RG
    from odl.discr.partition import RectPartition as _RP
    cov = cover.Cover()
    for c_ in (_PS, _PE, _TS, _T, _NS, _NT, _DS, _DE, _IP, _RG, _RP):
        for m_ in ('__eq__', '__hash__', '__contains__', '__getitem__', '__setitem__', 'element', 'astype', '_astype', 'byaxis', 'byaxis_in',
                   'real_space', 'complex_space', 'contains_set', 'contains_all', '__len__'):
            if m_ in vars(c_):
                cov.add(vars(c_)[m_], '%s.%s' % (c_.__name__, m_))
    cov.arm()
    pool = base_pool() + build_twins(ctx)
    law_checks(ctx, pool)
    if ctx.shard == 0:
        run_elements(ctx)
        run_pspace_indexing(ctx)
        if ctx.thorough and ctx.round == 0:
            run_ambient(ctx)
    cover.report_to(ctx, cov)
    for m in ('equivalence-laws', 'membership'):
        ctx.ev(m, 0)
    ctx.sample({'pool_example_types': sorted(set(tname(o) for _t, o in pool))[:40]})
    ctx.sample({'twin': [t for t, _o in pool if t.startswith('twin:')][:30]})
