"""C07 -- a proximal operator returns the minimiser of f(z) + ||z - x||^2 / (2 sigma).

Deciding monitors (all norms / inner products are the functional's own space's)
  finite-at-prox   : f(p) is finite for p = f.proximal(sigma)(x).
  subgradient      : g = (x - p)/sigma satisfies f(z) >= f(p) + <g, z - p> over feasible probes z.
  objective        : no probe z has a smaller value of f(z) + ||z - x||^2/(2 sigma).
  nonexpansive     : ||Px - Py||^2 <= <Px - Py, x - y> (firm non-expansiveness) on pairs.
  indicator        : f(p) = 0 and P(P(x)) = P(x) for indicator functionals.
  minimiser        : in dimension <= 4 scipy minimisers started at p and at x do not beat p.
Probes: prox images of other points (always feasible), segments towards them, perturbations of p at scales
1e-1..1e-5 (random and coordinate), x, 0.
"""

import numpy as np
import odl
import scipy.optimize

from .. import cover, functab, util

SHARDS = {'quick': 8, 'thorough': 16}
THOROUGH_ROUNDS = 3
S = odl.solvers
ELEMENT_SIGMA = ('L1Norm', 'L2NormSquared', 'L1Norm.convex_conj', 'L2NormSquared.convex_conj')


def quad(sp, z, x, sigma):
    """||z - x||^2 / (2 sigma) with scalar, element-valued or per-component sigma."""
    d = z - x
    if isinstance(sigma, (int, float)):
        return d.norm() ** 2 / (2 * sigma)
    if isinstance(sigma, (list, tuple)):
        return sum(di.norm() ** 2 / (2 * si) for di, si in zip(d, sigma))
    return 0.5 * float(np.real((d / sigma).inner(d)))


def subgrad(sp, x, p, sigma):
    if isinstance(sigma, (list, tuple)):
        return sp.element([(xi - pi) / si for xi, pi, si in zip(x, p, sigma)])
    return (x - p) / sigma


def coordinate_probes(sp, p, scale):
    """p +- scale * e_j for a few coordinates."""
    out = []
    n = 0
    for path, leaf in util.leaves(sp):
        for j in list(np.ndindex(*leaf.shape))[:3]:
            for sgn in (1, -1):
                z = p.copy()
                t = z
                for i in path:
                    t = t[i]
                t[j] = t[j] + sgn * scale
                out.append(z)
            n += 1
            if n >= 4:
                return out
    return out


def check_prox(ctx, f, sp, sigma, x, comp, cfg, rng, tags, P=None):
    tol = 1e-8
    try:
        if P is None:
            P = f.proximal(sigma)
    except (NotImplementedError, odl.OpNotImplementedError):
        ctx.skip('no proximal offered')
        return None
    p = P(x)
    if p not in sp:
        ctx.violation(comp, cfg, 'prox-not-in-space')
        return None
    if 'novalue' in tags:
        return P
    if 'complex' in tags:
        # values of real-valued functionals on complex spaces may come back complex-typed with zero imaginary part
        f0 = f

        def f(z_, f0=f0):
            v = f0(z_)
            if abs(np.imag(v)) > 1e-12 * max(1.0, abs(v)):
                raise ValueError('value of a norm-type functional is not real: %r' % (v,))
            return float(np.real(v))
    ctx.ev('finite-at-prox')
    fp = f(p)
    if not np.isfinite(fp):
        # classify: is p within rounding of the constraint set (a point 1e-12-close to it is feasible)?
        near = False
        try:
            cands = [p * (1 - 1e-13), p * (1 - 1e-12)]
            feas = []
            allz = []
            for k in range(24):
                if k < 16:
                    z = P(functab.rand_el(sp, rng, (2.0, 0.3, 5.0, 1.0)[k % 4]))
                else:
                    z = P(p + functab.rand_el(sp, rng, (1e-1, 1e-2)[k % 2]))
                allz.append(z)
                if np.isfinite(f(z)):
                    feas.append(z)
                    cands.extend(p + t * (z - p) for t in (1e-13, 1e-12, 1e-11))
            if feas:
                # convex combinations of feasible points are feasible and lie in the relative interior more often
                zbar = feas[0] * (1.0 / len(feas))
                for z in feas[1:]:
                    zbar = zbar + z * (1.0 / len(feas))
                cands.extend(p + t * (zbar - p) for t in (1e-13, 1e-12, 1e-11, 1e-10))
            # in many dimensions every prox image is itself one rounding error outside in some coordinate; their mean
            # is strictly inside in every coordinate in which they differ (the candidate is accepted only if f is
            # finite there, however it was constructed)
            zall = allz[0] * (1.0 / len(allz))
            for z in allz[1:]:
                zall = zall + z * (1.0 / len(allz))
            cands.extend(p + t * (zall - p) for t in (1e-13, 1e-12, 1e-11, 1e-10))
            # a constraint set far from the origin in some coordinate binds at the same (one-ulp-off) bound for all of the
            # inputs above; images of far-away inputs in opposite directions lie on opposite sides of the set, their
            # midpoint is strictly inside in every coordinate in which the set has an extent
            big = 1e3 * (1.0 + p.norm())
            for k in range(3):
                dvec = sp.one() if k == 0 else functab.rand_el(sp, rng, 1.0)
                mid = 0.5 * (P(big * dvec) + P(-big * dvec))
                cands.extend(p + t * (mid - p) for t in (1e-13, 1e-12, 1e-11, 1e-10))
            for q in cands:
                if np.isfinite(f(q)) and (q - p).norm() <= 1e-9 * max(1.0, p.norm()):
                    near = True
                    break
        except Exception:
            pass
        # documented convention 0 log 0 := 0: a point whose only non-positive entries are exact zeros at zeros of the prior lies
        # *in* the domain of the Kullback-Leibler functional - not a rounding error next to it
        try:
            g0 = getattr(f, 'prior', None)
            if near and 'kl' in tags and g0 is not None and not util.is_pspace(sp):
                ga, pa = np.asarray(g0), np.asarray(p)
                if np.all((pa > 0) | ((pa == 0) & (ga == 0))):
                    near = False
        except Exception:
            pass
        if near:
            # p is feasible up to one rounding error of the constraint (e.g. x/||x|| has norm 1 + 1 ulp, or
            # P(x - g) + g - g != P(x - g)); exact feasibility is not attainable in floating point, so this is
            # counted, not reported (DESIGN.md, C07: false alarm corrected)
            ctx.note_add('feasible_up_to_rounding_cases')
        else:
            ctx.violation(comp, cfg, 'not-the-minimiser', symptom='infinite-at-prox', fp=repr(fp), x=util.to_cvec(sp, x)[:6], p=util.to_cvec(sp, p)[:6])
        return P
    g = subgrad(sp, x, p, sigma)
    qp = quad(sp, p, x, sigma)
    Fp = fp + qp
    scale = max(1.0, abs(fp), qp)
    probes = []
    for k in range(6):
        probes.append(P(functab.rand_el(sp, rng, 2.0)))
    for s in (1e-1, 1e-2, 1e-3, 1e-5):
        for k in range(4):
            probes.append(p + functab.rand_el(sp, rng, s))
        probes.extend(coordinate_probes(sp, p, s))
    probes.append(x)
    probes.append(sp.zero())
    more = []
    for z in probes[:6]:
        for t in (0.5, 0.1, 0.01, 1e-4):
            more.append(p + t * (z - p))
    worst_obj = worst_sub = 0.0
    nfeas = 0
    for z in probes + more:
        fz = f(z)
        if not np.isfinite(fz):
            continue
        nfeas += 1
        gap1 = Fp - (fz + quad(sp, z, x, sigma))
        gap2 = fp + np.real(g.inner(z - p)) - fz
        sc2 = max(1.0, abs(fp), abs(fz), g.norm() * (z - p).norm())
        worst_obj = max(worst_obj, gap1 / scale)
        worst_sub = max(worst_sub, gap2 / sc2)
    ctx.ev('subgradient', nfeas)
    ctx.ev('objective', nfeas)
    if worst_sub > tol:
        ctx.violation(comp, cfg, 'not-the-minimiser', symptom='subgradient-inequality', relgap=worst_sub)
    if worst_obj > tol:
        ctx.violation(comp, cfg, 'not-the-minimiser', symptom='objective-beaten-by-probe', relgap=worst_obj)
    if 'indicator' in tags:
        ctx.ev('indicator')
        if fp != 0 and abs(fp) > 1e-12:
            ctx.violation(comp, cfg, 'not-the-minimiser', symptom='indicator-nonzero-at-prox', fp=fp)
        pp = P(p)
        if (pp - p).norm() > 1e-9 * max(1.0, p.norm()):
            ctx.violation(comp, cfg, 'not-the-minimiser', symptom='projection-not-idempotent', diff=float((pp - p).norm()))
    return P


def check_call_modes(ctx, P, sp, x, comp, cfg):
    """The returned point is the same point in every call mode the solvers use: out-of-place, into a separate (NaN-filled)
    output, and in place with ``out`` aliased to the input (admm, douglas_rachford_pd, forward_backward_pd call
    ``prox(x, out=x)``); the input is not modified unless it is the output."""
    ctx.ev('call-modes')
    x0 = x.copy()
    p = P(x)
    if (x - x0).norm() != 0:
        ctx.violation(comp, cfg, 'not-the-minimiser', symptom='input-modified-by-out-of-place-call')
        return
    tol = 1e-12 * max(1.0, p.norm())
    out = util.fill(sp.element(), 'nan')
    r = P(x, out=out)
    if r is not out:
        ctx.violation(comp, cfg, 'not-the-minimiser', symptom='out-not-returned')
    d = (out - p).norm()
    if not d <= tol:
        ctx.violation(comp, cfg, 'not-the-minimiser', symptom='separate-out-differs', diff=float(d))
    if (x - x0).norm() != 0:
        ctx.violation(comp, cfg, 'not-the-minimiser', symptom='input-modified-by-call-with-separate-out')
        return
    xa = x.copy()
    P(xa, out=xa)
    d = (xa - p).norm()
    if not d <= tol:
        ctx.violation(comp, cfg, 'not-the-minimiser', symptom='aliased-out-differs', diff=float(d))


def check_nonexpansive(ctx, P, sp, comp, cfg, rng, sigma):
    if not isinstance(sigma, (int, float)):
        return
    ctx.ev('nonexpansive')
    for k in range(3):
        x = functab.rand_el(sp, rng, 1.5)
        y = functab.rand_el(sp, rng, 1.5) if k else x + functab.rand_el(sp, rng, 1e-3)
        px, py = P(x), P(y)
        lhs = (px - py).norm() ** 2
        rhs = float(np.real((px - py).inner(x - y)))
        if lhs > rhs + 1e-9 * max(1.0, abs(rhs), lhs):
            ctx.violation(comp, cfg, 'not-the-minimiser', symptom='not-firmly-nonexpansive', lhs=float(lhs), rhs=float(rhs))
            return


def scipy_minimiser(ctx, f, sp, sigma, x, p, comp, cfg):
    """Independent numerical minimiser in low dimension."""
    n = util.real_dim(sp)
    if n > 4 or not isinstance(sigma, (int, float)):
        return
    ctx.ev('minimiser')

    def obj(v):
        z = sp.element(v.reshape(sp.shape))
        fz = f(z)
        if not np.isfinite(fz):
            return 1e30
        return float(fz + (z - x).norm() ** 2 / (2 * sigma))
    Fp = obj(np.asarray(p).ravel())
    if Fp >= 1e30:
        return   # feasibility (up to rounding) is judged by check_prox
    best = Fp
    for start in (np.asarray(p).ravel(), np.asarray(x).ravel()):
        for method in ('Nelder-Mead', 'Powell'):
            try:
                r = scipy.optimize.minimize(obj, start, method=method, options={'xatol': 1e-10, 'fatol': 1e-12, 'maxiter': 2000} if method == 'Nelder-Mead' else {'xtol': 1e-10, 'ftol': 1e-12})
                best = min(best, float(r.fun))
            except Exception:
                pass
    if best < Fp - 1e-7 * max(1.0, abs(Fp)):
        ctx.violation(comp, cfg, 'not-the-minimiser', symptom='beaten-by-scipy-minimiser', Fp=Fp, best=best)


def sigma_classes(fname, sp, rng):
    yield 'scalar0.3', 0.3
    yield 'scalar1.7', 1.7
    if fname in ELEMENT_SIGMA and not util.is_pspace(sp) and not util.space_complex(sp):
        # (one step per point on complex spaces: neither an element of the space nor of its real counterpart is accepted by
        # the factories - they raise TypeError; a refusal, recorded in DESIGN.md, not exercised)
        yield 'element', functab.pos_el(sp, rng, 0.2, 2.0)
    if 'SeparableSum' in fname and 'convex_conj' not in fname and util.is_pspace(sp):
        yield 'per-component', [0.4, 1.3][:len(sp)] if len(sp) <= 2 else [0.4, 1.3, 0.7][:len(sp)]


def factory_table(sp, rng):
    """The proximal *factories* called directly with their documented options (lam, data term g, per-point step): the option
    combinations are not all reachable through the Functional classes.  (name, factory, functional with the same meaning
    assembled from library functionals - the value oracle -, per-point step documented, tags)."""
    from odl.solvers.nonsmooth import proximal_operators as P
    g = functab.rand_el(sp, rng)
    gp = functab.pos_el(sp, rng)
    for lam in (1.0, 0.7):
        lt = 'lam=%g' % lam
        yield 'proximal_l2_squared(%s,g)' % lt, P.proximal_l2_squared(sp, lam, g), lam * S.L2NormSquared(sp).translated(g), True, ('smooth',)
        yield 'proximal_l2_squared(%s)' % lt, P.proximal_l2_squared(sp, lam), lam * S.L2NormSquared(sp), True, ('smooth',)
        yield 'proximal_convex_conj_l2_squared(%s,g)' % lt, P.proximal_convex_conj_l2_squared(sp, lam, g), (lam * S.L2NormSquared(sp).translated(g)).convex_conj, True, ('smooth',)
        yield 'proximal_convex_conj_l2_squared(%s)' % lt, P.proximal_convex_conj_l2_squared(sp, lam), (lam * S.L2NormSquared(sp)).convex_conj, True, ('smooth',)
        yield 'proximal_l1(%s,g)' % lt, P.proximal_l1(sp, lam, g), lam * S.L1Norm(sp).translated(g), True, ()
        yield 'proximal_convex_conj_l1(%s,g)' % lt, P.proximal_convex_conj_l1(sp, lam, g), (lam * S.L1Norm(sp).translated(g)).convex_conj, True, ()
        yield 'proximal_l2(%s,g)' % lt, P.proximal_l2(sp, lam, g), lam * S.L2Norm(sp).translated(g), False, ()
        yield 'proximal_convex_conj_l2(%s,g)' % lt, P.proximal_convex_conj_l2(sp, lam, g), (lam * S.L2Norm(sp).translated(g)).convex_conj, False, ()
        yield 'proximal_convex_conj_kl(%s,g)' % lt, P.proximal_convex_conj_kl(sp, lam, gp), (lam * S.KullbackLeibler(sp, gp)).convex_conj, False, ('klcc',)
        yield 'proximal_convex_conj_kl(%s)' % lt, P.proximal_convex_conj_kl(sp, lam), (lam * S.KullbackLeibler(sp)).convex_conj, False, ('klcc',)
    yield 'proximal_box_constraint(element-bounds)', P.proximal_box_constraint(sp, -0.3 * sp.one(), 0.5 * sp.one()), S.IndicatorBox(sp, -0.3, 0.5), False, ('indicator',)
    # every documented kind of bound: scalars, elements, array-likes the space converts, one side only, mixed kinds
    if not isinstance(sp, odl.ProductSpace):
        lo = rng.uniform(-0.6, -0.1, size=sp.shape)
        hi = rng.uniform(0.2, 0.7, size=sp.shape)
        yield 'proximal_box_constraint(ndarray-bounds)', P.proximal_box_constraint(sp, lo.copy(), hi.copy()), S.IndicatorBox(sp, sp.element(lo), sp.element(hi)), False, ('indicator',)
        yield 'proximal_box_constraint(list-bounds)', P.proximal_box_constraint(sp, lo.tolist(), hi.tolist()), S.IndicatorBox(sp, sp.element(lo), sp.element(hi)), False, ('indicator',)
        yield 'proximal_box_constraint(scalar-lower,ndarray-upper)', P.proximal_box_constraint(sp, -0.4, hi.copy()), S.IndicatorBox(sp, -0.4, sp.element(hi)), False, ('indicator',)
        yield 'proximal_box_constraint(list-lower,scalar-upper)', P.proximal_box_constraint(sp, lo.tolist(), 0.6), S.IndicatorBox(sp, sp.element(lo), 0.6), False, ('indicator',)
        yield 'proximal_box_constraint(ndarray-upper-only)', P.proximal_box_constraint(sp, upper=hi.copy()), S.IndicatorBox(sp, None, sp.element(hi)), False, ('indicator',)
        yield 'proximal_box_constraint(list-lower-only)', P.proximal_box_constraint(sp, lower=lo.tolist()), S.IndicatorBox(sp, sp.element(lo), None), False, ('indicator',)
    yield 'proximal_box_constraint(scalar-bounds)', P.proximal_box_constraint(sp, -0.3, 0.5), S.IndicatorBox(sp, -0.3, 0.5), False, ('indicator',)
    yield 'proximal_box_constraint(lower-only)', P.proximal_box_constraint(sp, lower=-0.3), S.IndicatorBox(sp, -0.3, None), False, ('indicator',)
    yield 'proximal_box_constraint(upper-only)', P.proximal_box_constraint(sp, upper=0.5), S.IndicatorBox(sp, None, 0.5), False, ('indicator',)
    yield 'proximal_huber', P.proximal_huber(sp, 0.3), S.Huber(sp, 0.3), False, ('c1',)
    # calculus rule that no Functional class reaches: prox of F o L for L L^* = mu Id, with mu != 1 and non-linear proximals
    for bname, base, btags in (('L1Norm', lambda: S.L1Norm(sp), ()), ('L2Norm', lambda: S.L2Norm(sp), ()), ('Huber', lambda: S.Huber(sp, 0.3), ('c1',)),
                               ('IndicatorBox', lambda: S.IndicatorBox(sp, -0.5, 0.8), ('indicator',))):
        for c in (2.0, -0.5, 1.0):
            L = odl.ScalingOperator(sp, c)
            yield 'proximal_composition(%s,scaling=%g)' % (bname, c), P.proximal_composition(base().proximal, L, c * c), base() * L, False, btags
    if type(sp).__name__ == 'NumpyTensorSpace' and sp.ndim == 1 and 4 <= sp.size <= 10 and util.weighting_tag(sp) == 'none':
        m = sp.size // 2
        Q = np.linalg.qr(rng.normal(size=(sp.size, m)))[0].T      # orthonormal rows
        for c in (1.0, 1.7):
            ran = odl.rn(m)
            L = odl.MatrixOperator(c * Q, sp, ran)
            yield 'proximal_composition(L1Norm,semi-orthogonal,c=%g)' % c, P.proximal_composition(S.L1Norm(ran).proximal, L, c * c), S.L1Norm(ran) * L, False, ()
            yield 'proximal_composition(IndicatorL2Ball,semi-orthogonal,c=%g)' % c, P.proximal_composition(S.IndicatorLpUnitBall(ran, 2).proximal, L, c * c), \
                S.IndicatorLpUnitBall(ran, 2) * L, False, ('indicator',)


def _guarded_table(ctx, sp, rng):
    """factory_table, with a factory that refuses documented arguments reported instead of ending the run."""
    it = factory_table(sp, rng)
    while True:
        try:
            yield next(it)
        except StopIteration:
            return
        except Exception as e:
            ctx.ev('finite-at-prox')
            ctx.violation('factory-table', util.space_tag(sp), 'factory-raises:' + type(e).__name__, message=str(e)[:200])
            return


def run_factories(ctx, i0):
    rng = ctx.rng('c07-factories')
    i = i0
    for sname, sp in functab.spaces():
        if 'aw' in sname:
            continue      # (array weights: the library functionals used as value oracle raise for Huber; covered via the functionals)
        for fname, fac, f, elem_sigma, tags in _guarded_table(ctx, sp, ctx.crng('factory-ctor', sname)):
            i += 1
            if not ctx.mine(i):
                continue
            if sname == 'rn150' and not ctx.thorough:
                continue
            for sname_s, sigma in ([('scalar', 0.8)] + ([('element', functab.pos_el(sp, rng, 0.2, 2.0))] if elem_sigma else [])):
                cfg = '%s;%s' % (util.space_tag(sp), sname_s)
                try:
                    P = fac(sigma)
                except Exception as e:
                    ctx.ev('finite-at-prox')
                    ctx.violation(fname, cfg, 'proximal-raises:' + type(e).__name__, message=str(e)[:200])
                    continue
                for xcls, x in functab.x_classes(sp, rng, tags):
                    if xcls in ('tiny', 'huge', 'with-exact-zeros') and not ctx.thorough:
                        continue
                    if 'klcc' in tags:
                        x = -1.0 * functab.pos_el(sp, rng) if xcls != 'zero' else x
                    ctx.case('factory;%s;%s;%s' % (fname, sname, sname_s), xcls)
                    try:
                        check_prox(ctx, f, sp, sigma, x, 'factory:' + fname.split('(')[0], '%s;%s' % (cfg, 'g' if ',g' in fname else 'no-g'), rng, tags, P=P)
                        check_call_modes(ctx, P, sp, x, 'factory:' + fname.split('(')[0], cfg)
                    except (NotImplementedError, odl.OpNotImplementedError):
                        ctx.skip('not implemented')
                    except Exception as e:
                        ctx.violation('factory:' + fname.split('(')[0], cfg, 'raises:' + type(e).__name__, message=str(e)[:300], x_class=xcls)
    return i


def run(ctx):
    ctx.note('rule', 'one case = (functional recipe, space, sigma class, input value class); functional recipes cover every '
                     'Functional class with a proximal in the variants plain / translated or with data term / scaled / conjugate, plus all '
                     'ordered pairs of 9 wrappers on a smooth and a kinked base and seeded depth-2..3 wrapper chains; every case also in '
                     'the three call modes (out-of-place, separate out, out aliased to the input); '
                     'input classes {generic, zero, tiny, huge, positive, with exact zeros, at thresholds} are enumerated; ~60 '
                     'feasible probes per case; distinct = distinct case keys')
    from odl.solvers.nonsmooth import proximal_operators as pom
    cov = cover.Cover()
    rng = ctx.rng('c07')
    crng = ctx.crng('ctor')
    i = 0
    recipes = list(functab.all_functionals(crng, ctx.thorough, with_complex=True))
    # a low-dimensional space for the independent minimiser
    r3 = odl.rn(3, weighting=1.5)
    for fname, thunk, tags in functab.funcs(r3, crng):
        recipes.append((fname, 'rn3w', r3, thunk, tags))
    for fname, sname, sp, thunk, tags, _ref in functab.all_composed(crng, ctx.thorough):
        recipes.append((fname, sname, sp, thunk, tags))
    for fname, sname, sp, thunk, tags in recipes:
        i += 1
        if not ctx.mine(i):
            continue
        if 'noprox' in tags:
            continue
        full_name = fname
        fname = functab.composed_component(fname, tags)
        if sname == 'rn150' and not ctx.thorough and fname not in ('L1Norm', 'L2Norm', 'L2NormSquared', 'Huber', 'IndicatorBox', 'KullbackLeibler(prior)'):
            continue
        try:
            f = thunk()
        except Exception as e:
            ctx.ev('finite-at-prox')
            ctx.violation(fname, util.space_tag(sp), 'ctor-raises:' + type(e).__name__, message=str(e)[:200])
            continue
        for sname_s, sigma in sigma_classes(fname, sp, rng):
            try:
                P = f.proximal(sigma)
            except (NotImplementedError, odl.OpNotImplementedError):
                ctx.skip('no proximal offered')
                continue
            except Exception as e:
                ctx.ev('finite-at-prox')
                ctx.violation(fname, '%s;%s' % (util.space_tag(sp), sname_s), 'proximal-raises:' + type(e).__name__, message=str(e)[:200])
                continue
            for c in type(P).__mro__:
                if '_call' in vars(c) and c is not odl.Operator:
                    cov.add(vars(c)['_call'], '%s._call' % c.__qualname__)
            cov.arm()
            cfg = '%s;%s' % (util.space_tag(sp), sname_s if not sname_s.startswith('scalar') else 'scalar')
            for xcls, x in functab.x_classes(sp, rng, tags):
                if xcls in ('tiny', 'huge', 'with-exact-zeros', 'at-threshold') and not ctx.thorough and (i + len(xcls)) % 2:
                    continue
                ctx.case('prox;%s;%s;%s' % (full_name, sname, sname_s), xcls)
                if i % 41 == 0 and xcls == 'generic':
                    ctx.sample({'functional': full_name, 'space': util.srepr(sp, 60), 'sigma': sname_s, 'x': util.to_cvec(sp, x)[:5]})
                try:
                    check_prox(ctx, f, sp, sigma, x, fname, cfg, rng, tags, P=P)
                    check_call_modes(ctx, P, sp, x, fname, cfg)
                    if sname == 'rn3w' and xcls == 'generic':
                        scipy_minimiser(ctx, f, sp, sigma, x, P(x), fname, cfg)
                except (NotImplementedError, odl.OpNotImplementedError):
                    ctx.skip('not implemented')
                except Exception as e:
                    ctx.violation(fname, cfg, 'raises:' + type(e).__name__, message=str(e)[:300], x_class=xcls)
            try:
                check_nonexpansive(ctx, P, sp, fname, cfg, rng, sigma)
            except Exception as e:
                ctx.violation(fname, cfg, 'raises:' + type(e).__name__, message=str(e)[:300], probe='nonexpansive')
    run_factories(ctx, i)
    cov.disarm()
    n_exec, n_hit, unreached = cov.report()
    ctx.note('line_coverage', {'executable': n_exec, 'hit': n_hit})
    for u in unreached:
        ctx.note_set('unreached_lines', u)
