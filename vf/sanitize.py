"""Harness-side sanitizers (DESIGN.md section 2): poison, operator-call contract, alias shadow."""

import functools
import inspect

import numpy as np
import odl
from odl.operator.operator import Operator
from odl.space.npy_tensors import NumpyTensorSpace

from . import util

_STATE = {'poison': False, 'poisoned': 0}
_ORIG = {}


def _poison_arr(a):
    k = a.dtype.kind
    if k == 'c':
        a.fill(complex(np.nan, np.nan))      # both parts (a bare NaN only poisons the real part)
    elif k == 'f':
        a.fill(np.nan)
    elif k in 'iu':
        a.fill(np.iinfo(a.dtype).max // 3)
    elif k == 'b':
        a.fill(True)


def poison_on():
    """S-poison: NumpyTensorSpace.element() with neither inp nor data_ptr hands out NaN-filled memory."""
    if 'element' not in _ORIG:
        orig = NumpyTensorSpace.element
        _ORIG['element'] = orig

        @functools.wraps(orig)
        def element(self, inp=None, data_ptr=None, order=None):
            res = orig(self, inp, data_ptr, order)
            if _STATE['poison'] and inp is None and data_ptr is None:
                _STATE['poisoned'] += 1
                try:
                    _poison_arr(res.data)
                except Exception:
                    pass
            return res
        NumpyTensorSpace.element = element
    _STATE['poison'] = True


def poison_off():
    _STATE['poison'] = False


def poisoned_count():
    return _STATE['poisoned']


def is_library_class(cls):
    mod = getattr(cls, '__module__', '') or ''
    return mod.startswith('odl.') and not mod.startswith('odl.test') and '.test.' not in mod


def op_leaf_classes(op, depth=0):
    """Classes of an expression node and of every leaf operator below it."""
    out = [type(op)]
    if depth > 8:
        return out
    for name in ('left', 'right', 'operator', 'functional', 'inner'):
        sub = getattr(op, name, None)
        if isinstance(sub, Operator):
            out.extend(op_leaf_classes(sub, depth + 1))
    subs = getattr(op, 'operators', None)
    if isinstance(subs, (list, tuple)):
        for s in subs:
            if isinstance(s, Operator):
                out.extend(op_leaf_classes(s, depth + 1))
    ops = getattr(op, 'ops', None)
    if ops is not None and hasattr(ops, 'data'):
        try:
            for s in ops.data:
                if isinstance(s, Operator):
                    out.extend(op_leaf_classes(s, depth + 1))
        except Exception:
            pass
    return out


def is_library_op(op):
    try:
        return all(is_library_class(c) for c in op_leaf_classes(op))
    except Exception:
        return False


class CallMonitor(object):
    """Contract on Operator.__call__: x unchanged (when not aliased), result in range, out identity.

    Records through `report(kind, op, detail)`; never raises into the monitored code.
    With shadow=True every aliased call (out is x) is shadow-executed out-of-place first and the
    result compared afterwards (S-alias).
    """

    def __init__(self, report, shadow=False, library_only=True, count=None):
        self.report = report
        self.shadow = shadow
        self.library_only = library_only
        self.count = count if count is not None else {}
        self.depth = 0
        self.active = False
        self.orig = None

    def _c(self, k, n=1):
        self.count[k] = self.count.get(k, 0) + n

    def install(self):
        mon = self
        orig = Operator.__call__
        self.orig = orig

        @functools.wraps(orig)
        def __call__(self, x, out=None, **kwargs):
            if not mon.active or mon.depth > 0 and not mon.shadow:
                # nested calls are still monitored (depth only guards the shadow run)
                pass
            if not mon.active or (mon.library_only and not is_library_op(self)):
                return orig(self, x, out=out, **kwargs)
            mon._c('calls')
            aliased = out is not None and out is x
            s0 = None
            try:
                if not aliased:
                    s0 = util.snap(x)
            except Exception:
                s0 = None
            ref = None
            if aliased and mon.shadow and mon.depth == 0:
                mon.depth += 1
                mon.active = False
                try:
                    xc = x.copy()
                    r1 = orig(self, xc, **kwargs)
                    r2 = orig(self, x.copy(), **kwargs)
                    if util.close(r1, r2, 1e-13, 1e-14):
                        ref = r1
                    else:
                        mon._c('shadow-nondeterministic')
                except Exception:
                    ref = None
                finally:
                    mon.active = True
                    mon.depth -= 1
            res = orig(self, x, out=out, **kwargs)
            try:
                if s0 is not None and util.snap(x) != s0:
                    mon.report('x-modified', self, {})
                if out is not None and res is not out:
                    mon.report('not-out', self, {})
                if aliased:
                    mon._c('aliased')
                    mon._c('aliased:' + type(self).__name__)
                    if ref is not None:
                        mon._c('shadowed')
                        if not util.close(res, ref, 1e-10, 1e-12):
                            mon.report('aliased!=oop', self, {'maxdiff': util.maxdiff(res, ref)})
                inr = res in self.range
                if not inr:
                    mon.report('not-in-range', self, {'type': type(res).__name__})
            except Exception as e:  # monitor problems are never verdicts
                mon._c('monitor-exception:' + type(e).__name__)
            return res

        Operator.__call__ = __call__
        self.active = True
        return self

    def uninstall(self):
        if self.orig is not None:
            Operator.__call__ = self.orig
            self.orig = None
        self.active = False
