#!/venv/bin/python
"""Self-test: every "fix:" commit in /repo, reverse-applied on a scratch worktree, must be reported by the check
of the property it was found under (the defect returns => the check fires).  Writes selftest/fix_reversal.json.

usage: tools/selftest_fixes.py [commit ...]        (default: all fix commits recorded in known_findings.json)
"""
import json
import os
import re
import shutil
import subprocess
import sys
import time

ROOT = os.path.dirname(os.path.dirname(os.path.abspath(__file__)))
REPO = '/repo'
WT = '/tmp/vf_selftest/wt'


def sh(*a, **kw):
    return subprocess.run(list(a), capture_output=True, text=True, **kw)


def main():
    kf = json.load(open(os.path.join(ROOT, 'known_findings.json')))
    entries = []
    for line in kf['fixed']:
        m = re.match(r'fixed: property=(C\d+) ([0-9a-f]{7,}) (.*)', line)
        if m:
            entries.append((m.group(2), m.group(1), m.group(3)))
    want = set(sys.argv[1:])
    if want:
        entries = [e for e in entries if e[0] in want]
    shutil.rmtree('/tmp/vf_selftest', ignore_errors=True)
    os.makedirs('/tmp/vf_selftest')
    sh('git', '-C', REPO, 'worktree', 'prune')
    r = sh('git', '-C', REPO, 'worktree', 'add', '--detach', WT, 'HEAD')
    if r.returncode:
        print(r.stderr)
        return 1
    out = []
    env = dict(os.environ)
    env['VF_REPO'] = WT
    try:
        for h, prop, what in entries:
            patch = sh('git', '-C', WT, 'show', h).stdout
            ap = subprocess.run(['git', '-C', WT, 'apply', '-R'], input=patch, capture_output=True, text=True)
            rec = {'commit': h, 'property': prop, 'what': what[:160]}
            manual = os.path.join(ROOT, 'selftest', 'manual', '%s_equivalent.diff' % h)
            if ap.returncode and os.path.exists(manual):
                # later repairs touch the same lines: a hand-written patch that takes the repaired behaviour out of HEAD again
                ap = sh('git', '-C', WT, 'apply', manual)
                rec['via'] = 'selftest/manual/%s_equivalent.diff' % h
            if ap.returncode:
                rec['result'] = 'reverse-apply-failed'
                rec['detail'] = ap.stderr[-300:]
            else:
                t0 = time.time()
                c = sh(os.path.join(ROOT, 'check'), prop, '--tier', 'quick', '--no-evidence', env=env)
                sigs = [l.split('signature=', 1)[1] for l in c.stdout.splitlines() if l.startswith('VIOLATION')]
                rec['exit'] = c.returncode
                rec['new_signatures'] = len(sigs)
                rec['examples'] = [re.sub(r' \(x\d+\)$', '', s) for s in sigs[:3]]
                rec['seconds'] = round(time.time() - t0, 1)
                rec['result'] = 'detected' if c.returncode == 1 and sigs else 'MISSED'
            sh('git', '-C', WT, 'checkout', '--', '.')
            print(rec['result'], h, prop, rec.get('new_signatures'), what[:80], flush=True)
            out.append(rec)
    finally:
        sh('git', '-C', REPO, 'worktree', 'remove', '--force', WT)
        shutil.rmtree('/tmp/vf_selftest', ignore_errors=True)
    os.makedirs(os.path.join(ROOT, 'selftest'), exist_ok=True)
    path = os.path.join(ROOT, 'selftest', 'fix_reversal.json')
    if want and os.path.exists(path):
        # partial run: replace the entries of the commits that were re-tested
        prev = json.load(open(path))['results']
        new = {r['commit']: r for r in out}
        out = [new.pop(r['commit'], r) for r in prev] + list(new.values())
    with open(path, 'w') as f:
        json.dump({'head': sh('git', '-C', REPO, 'rev-parse', '--short', 'HEAD').stdout.strip(), 'results': out}, f, indent=1)
    print('detected %d / %d' % (sum(r['result'] == 'detected' for r in out), len(out)))
    return 0


if __name__ == '__main__':
    sys.exit(main())
