#!/venv/bin/python
"""Re-run the checks against every stored seeded regression (seeded/<ID>_<A|B>/patch.diff) and refresh meta.json.

usage: tools/recheck_seeds.py [--only C01_B,C04_A] [--quick-only] [--jobs N]

Each patch is applied to its own scratch worktree of /repo's HEAD (never to /repo), the property's check is run with
VF_REPO=<worktree> (quick; thorough when quick misses), the worktree is removed, and meta.json's ``checks`` /
``caught_by`` are rewritten.  Writes seeded/SUMMARY.json (one row per seed).
"""
import concurrent.futures as cf
import json
import os
import re
import shutil
import subprocess
import sys
import time

ROOT = os.path.dirname(os.path.dirname(os.path.abspath(__file__)))
REPO = '/repo'


def sh(*a, **kw):
    return subprocess.run(list(a), capture_output=True, text=True, **kw)


def run_check(pid, wt, tier):
    env = dict(os.environ, VF_REPO=wt)
    t0 = time.time()
    c = sh(os.path.join(ROOT, 'check'), pid, '--tier', tier, '--no-evidence', env=env)
    sigs = [re.sub(r' \(x\d+\)$', '', l.split('signature=', 1)[1]) for l in c.stdout.splitlines() if l.startswith('VIOLATION')]
    return {'check': pid, 'tier': tier, 'exit': c.returncode, 'unlisted_signatures': len(sigs), 'examples': sigs[:4],
            'seconds': round(time.time() - t0, 1), 'detected': bool(c.returncode == 1 and sigs)}


def one(name, quick_only):
    d = os.path.join(ROOT, 'seeded', name)
    meta = json.load(open(os.path.join(d, 'meta.json')))
    pid = meta['property']
    wt = '/tmp/vf_recheck_%d_%s/wt' % (os.getpid(), name)
    os.makedirs(os.path.dirname(wt))
    r = sh('git', '-C', REPO, 'worktree', 'add', '--detach', wt, 'HEAD')
    if r.returncode:
        return name, None, r.stderr
    try:
        ap = sh('git', '-C', wt, 'apply', os.path.join(d, 'patch.diff'))
        if ap.returncode:
            return name, None, 'patch no longer applies: ' + ap.stderr[-200:]
        results = [run_check(pid, wt, 'quick')]
        if not results[0]['detected'] and not quick_only:
            results.append(run_check(pid, wt, 'thorough'))
    finally:
        sh('git', '-C', REPO, 'worktree', 'remove', '--force', wt)
        shutil.rmtree(os.path.dirname(wt), ignore_errors=True)
    meta['checks'] = results
    meta['caught_by'] = sorted(set(r['check'] + ':' + r['tier'] for r in results if r['detected']))
    meta['rechecked_at_repo_head'] = sh('git', '-C', REPO, 'rev-parse', '--short', 'HEAD').stdout.strip()
    with open(os.path.join(d, 'meta.json'), 'w') as f:
        json.dump(meta, f, indent=1)
    return name, meta, None


def main():
    args = sys.argv[1:]
    names = sorted(n for n in os.listdir(os.path.join(ROOT, 'seeded')) if os.path.isdir(os.path.join(ROOT, 'seeded', n)))
    if '--only' in args:
        only = args[args.index('--only') + 1].split(',')
        names = [n for n in names if n in only]
    quick_only = '--quick-only' in args
    jobs = int(args[args.index('--jobs') + 1]) if '--jobs' in args else 2
    sh('git', '-C', REPO, 'worktree', 'prune')
    rows = {}
    with cf.ThreadPoolExecutor(jobs) as ex:
        for name, meta, err in ex.map(lambda n: one(n, quick_only), names):
            if err:
                print('%-8s ERROR %s' % (name, err))
                continue
            print('%-8s %-22s %s' % (name, ','.join(meta['caught_by']) or 'MISSED', (meta['checks'][-1]['examples'] or [''])[0][:110]))
            sys.stdout.flush()
    for n in sorted(os.listdir(os.path.join(ROOT, 'seeded'))):
        mp = os.path.join(ROOT, 'seeded', n, 'meta.json')
        if os.path.exists(mp):
            m = json.load(open(mp))
            rows[n] = {'property': m['property'], 'files_changed': m.get('files_changed'), 'caught_by': m.get('caught_by'),
                       'unlisted_signatures': [c['unlisted_signatures'] for c in m.get('checks', [])]}
    with open(os.path.join(ROOT, 'seeded', 'SUMMARY.json'), 'w') as f:
        json.dump(rows, f, indent=1)
    return 0


if __name__ == '__main__':
    sys.exit(main())
