#!/venv/bin/python
"""Regenerate /verif/MANIFEST.json from the table below and from which vf/props/cNN.py exist."""
import json
import os

ROOT = os.path.dirname(os.path.dirname(os.path.abspath(__file__)))

T = {
    'C01': ('contract on lincomb/multiply/divide vs long-double reference; aliasing x layout x size-regime lattice; NaN poisoning',
            'Every call of LinearSpace.lincomb/multiply/divide made by the workload (and by the operator overloads, zero/one/copy/assign/set_zero built on them) is checked by a record-only contract against an entry-wise long-double reference computed from copies taken before the call; operands are byte-compared afterwards and non-operand outputs are NaN-prefilled. The lattice of size regimes, dtypes, layouts, the 5 aliasing patterns and scalar classes is enumerated completely in both tiers; the seed only varies values. Held = no discrepancy on the executions observed. Also: real scalars on integer spaces, operands that are interleaved views of one buffer, operands holding the part objects of the output in another order or one object twice, exact zero divisors; thorough tier: the same contract on every call the repository suite makes (W-ambient).',
            'NumPy long-double arithmetic is the reference; finite operand values (except the a=b=0 clause); third-party BLAS is out of scope.'),
    'C02': ('reference weighted sums + axiom relations over weighting x exponent x boundary-node lattice',
            'inner/norm/dist of every generated space are compared with an independent NumPy model of the documented weighting (constant / array / product-space weights, cell-volume quadrature with boundary fractions) and the axioms are evaluated on seeded elements and scalars; the configuration lattice is enumerated completely in both tiers. Thorough tier: the same model and axioms on every inner / norm / dist call the repository suite makes (W-ambient, ~24 000 calls).',
            'float64/complex128 accumulation in NumPy is the reference; tolerances 1e-10 (double) / 1e-4 (single) relative.'),
    'C03': ('call-protocol monitor on Operator.__call__ over an introspected registry: prefill, snapshot, repeat, rejection probes, flag honesty; ambient suite run in the thorough tier',
            'Every operator/functional instance of an introspection-audited registry (all concrete library classes, the operators the library manufactures from them: adjoint, inverse, derivative, gradient, proximal, expression nodes) is driven through the call protocol: out-of-place twice, in-place into NaN- and random-prefilled out, bad x / bad out probes; a contract on Operator.__call__ checks every call. Held = protocol satisfied on all observed calls. Also: 18 arithmetic wrappers (incl. powers) around every leaf, the same input object changed in place between two calls (history), special complex inputs.',
            'Registry completeness is audited against Operator.__subclasses__() and reported; back-ends that are not installed (ASTRA) cannot run.'),
    'C04': ('random expression programs vs a NumPy reference interpreter of the algebra table',
            'Well-typed expression trees over linear/nonlinear/functional leaves are evaluated by the library operators and by a small interpreter that applies the documented table literally on arrays; values (out-of-place and in-place), domain, range and is_linear are compared; every ordered pair of combinators at depth 2 is enumerated, deeper trees are seeded. Also: aliased evaluation op(y, out=y) where every leaf is alias-safe, scalar kinds (Python / NumPy, fixed-width, extended), scalar subtraction, compositions across fields and with field-domain operators.',
            'Leaves are trusted only through their own direct evaluation, which the interpreter uses as the primitive.'),
    'C05': ('adjoint identity decided on full real-linear bases through the spaces own inner products (Gram matrices)',
            'For each linear operator of the registry on small spaces the complete matrices Re<A x_j, y_i> and Re<x_j, A* y_i> are built with the spaces own inner products, which decides the identity for all x, y given linearity (sampled); domain/range of the adjoint and adjoint.adjoint are checked; random expression trees of such operators are included; operators built with explicit second spaces (single-precision twins, weighted product spaces), structured complex matrices, repeated-component projections. Derivatives op.derivative(x) of the non-linear registry operators that offer an adjoint go through the same contract (real-part comparison between complex and real spaces).',
            'Linearity of A and A* is sampled, not proved; tolerance 1e-10 relative.'),
    'C06': ('central-difference convergence monitor (minimum error and rate) on built-ins and expression programs',
            'derivative(x)(d) is compared with central differences of the operator values at h = 1e-1..1e-6; held iff the minimal relative error is < 1e-6 or decays at second order; linearity, domain and range of the returned operator are checked; chain/product/sum rules are exercised by random expression trees over differentiable leaves. Also: base points scaled by 1e-9 / 1e-17, derivative objects re-used after later calls, the same point object changed in place, numerical derivatives on weighted / multi-axis spaces.',
            'Base points are kept away from documented kinks; finite differences in float64.'),
    'C07': ('sub-gradient / optimality monitor with feasible probes, firm non-expansiveness, idempotence, independent minimiser in low dimension',
            'For p = prox(x): f(p) finite, (x-p)/sigma satisfies the sub-gradient inequality and p is not beaten in objective value over feasible probes (other prox images, segments, perturbations at scales 1e-1..1e-5), firm non-expansiveness on pairs, indicator idempotence; scipy minimisers from p and x in dimension <= 4. All norms/inner products are the space own. Functional table incl. complex spaces (real-part inner products), composed wrappers, factory table with proximal_composition, three call modes.',
            'Probes sample the space; tolerances 1e-8 relative (double).'),
    'C08': ('Fenchel-Young, biconjugate and Moreau relations through the public API',
            'f(x)+f*(y) >= <x,y>, equality at y = grad f(x), f** = f on samples, and the Moreau decomposition for sigma in {0.4, 2} on every functional pair whose conjugate can be evaluated and on derived functionals; Fenchel-Young also at extreme magnitudes (floating-point exception flags decide admissibility) and just outside dom f*. Functional table incl. f * vector wrappers and Lp norms / balls with exponents 1.5 and 3; branch-reach audit over every convex_conj of the functional library.',
            'Sampled points; tolerance 1e-8 relative.'),
    'C09': ('gradient vs finite differences of values; Lipschitz bound on point pairs; reference interpreter for derived functionals',
            '<grad f(x), d> and derivative(x)(d) are compared with central differences of the values (min-error + rate rule); values of derived functionals are compared with the documented formulas; a finite grad_lipschitz must bound the observed gradient quotients on random pairs at separations 1e-3..3; base points scaled by 1e-9 / 1e-5 / 1e4, NumericalGradient on every weighting kind, parents re-evaluated after building derived functionals.',
            'Base points in the interior of the domain of differentiability; float64 finite differences.'),
    'C10': ('aliased-call differential check on every proximal factory and solver building block; shadow execution of aliased calls inside shipped solvers',
            'P(y, out=y) is compared with P(x) computed out-of-place from a copy for every proximal factory x options x spaces and every arithmetic wrapper / in-place building block; in addition every aliased Operator call made inside the shipped solvers is shadow-executed and compared at its real call site. Also: 11 arithmetic wrappers (reflection, residual, relaxation, averages, powers) around every proximal, repeated in-place application, proximals applied to their own data element.',
            'Equality up to 1e-12 relative; deterministic operators.'),
    'C11': ('recorded iterate traces: optimised vs reference implementation, split vs unsplit runs, exactly-once callbacks',
            'Callback-recorded iterates of admm_linearized/adupdates/doubleprox_dc are compared position by position with the *_simple references; runs of n then m iterations are compared with n+m at once for the resumable solvers; callback counts must equal iteration counts. Also: solver options (projection, callback_loop, lam, sensitivities, shared functional objects), caller arguments byte-compared after the call. Spellings of callback_loop: documented number of observations or a refusal before iterating.',
            'Same arithmetic in different order: tolerance 1e-9 relative; seeded random permutations.'),
    'C12': ('monotonicity checkers over callback traces; bounded progress, KKT inclusion and fixed-point tests on planted problems; step-size helper contracts',
            'Convergence is restated as bounded progress on planted problems with known optimum (kappa <= 5): error after N iterations below 1e-6 x initial; monotone quantities are checked on every iterate; solutions must be fixed points; step-size helpers must return admissible steps for every subset of given parameters; power-method estimate never above the true norm.',
            'Unbounded convergence is out of reach of runtime monitoring; thresholds hold with >= 3 orders of margin on the unchanged tree.'),
    'C13': ('full operator matrices vs reference stencil x extension matrices; exact transposes; exhaustive for small sizes',
            'Each configuration (method x pad mode x pad const x size x axis x dtype x cell side) is decided for all inputs through its full matrix obtained from unit arrays with NaN-prefilled out and compared with S.E built independently; adjoint modes and operator adjoints must be exact transposes; the derivative of the constant-padding variant equals the zero-padding matrix. Sizes 2..8 are enumerated exhaustively.',
            'Semantics pinned by the repository tests (symmetric == edge replicate, order2 one-sided rows) are followed.'),
    'C14': ('structural invariants on every constructed partition; point-location and slicing models',
            'Boundaries, cell sizes, boundary fractions, index(), slicing/insert/append/squeeze/byaxis and the equivalent uniform_partition parameterisations are checked against a small model on seeded partitions over the full lattice of dimensions, length-1 axes and per-side boundary flags; a post-condition on RectPartition.__init__ checks every partition constructed anywhere in the workload. Over-determined construction (all four parameters): consistent quadruples accepted, inconsistent ones refused in every magnitude class.',
            'Sampled limits and points; tolerance 1e-12 relative.'),
    'C15': ('point-wise sampling reference; multilinear interpolation model across calling conventions',
            'space.element(func) is compared with point-by-point evaluation for all callable kinds; nearest/linear/per-axis interpolators are compared with an independent multilinear model at nodes, ties, interior and just-outside points for single points, point arrays and mesh grids, with and without out.',
            'Floating-point ties accept either neighbour; 1e-12 relative.'),
    'C16': ('per-axis resize matrices (+ np.pad second opinion), exact transpose for the adjoint direction, operator-level checks',
            'resize_array is compared with explicit per-axis matrices for all modes, offsets, directions, dtypes, restricted axes, out=; forward and adjoint directions must be exact transposes on integer-valued data; extend-then-crop is the identity; ResizingOperator range partition, inverse and weighted adjoint identity are checked. Padding constants outside the output type are refused exactly when some axis grows.',
            'Admissible paddings only (Appendix B).'),
    'C17': ('differential execution against NumPy on the underlying arrays',
            'The same ufunc call (call/reduce/accumulate/outer/at/reduceat, out kinds, operand kinds, axis/dtype/keepdims) is made on elements and on arrays; raising behaviour, values (bit-equal, NaN-aware), dtype, shape, space kind and out identity must agree; memory sharing and asarray round trip are checked; legacy x.ufuncs interface compared with the same NumPy call; operands in Fortran order / as strided views; thorough tier: every __array_ufunc__ dispatch of the repository suite against NumPy on copies (W-ambient).',
            'gufuncs are excluded; documented non-support counts as agreement.'),
    'C18': ('numpy.fft / cross-back-end / round-trip / refinement monitors with plan-reuse stress; direct-quadrature FT and reciprocal-grid models; pywt baseline',
            'DFT vs numpy.fft, inverse round trip, numpy vs pyfftw, in-place vs out-of-place, repeated calls with cached plans, input snapshots; FourierTransform vs a direct O(n^2) quadrature on the operator own range grid and an independent reciprocal-grid model, Gaussian refinement; wavelet round trip vs raw pywt and coefficients vs pywt.wavedecn; adjoint identity for orthogonal wavelets with periodization. realspace_grid round trip through reciprocal_grid; dft_pre/postprocess_data with every option against their docstring formulas.',
            'numpy.fft and pywt are trusted references.'),
    'C19': ('documented-formula model of every geometry, rigid-motion invariants, vectorised-vs-scalar differential, detector derivatives, slicing and factory coverage',
            'A NumPy model written from the docstrings gives det_refpoint/src_position/rotation_matrix/det_axes from copies of the constructor arguments; SO(n) membership, position/direction relations, broadcast evaluation vs single evaluation with documented shapes, slicing, frommatrix and factory coverage of the volume are checked over all geometry classes and detector kinds. Array-valued surface measures, bulk axis rotations, exactly perpendicular from/to vectors and the option paths of the factory helpers (defaults, short scan, given shapes) are included.',
            'ASTRA conversions cannot run (not installed).'),
    'C20': ('equivalence/hash laws over a constructor-signature-driven twin pool; element-creation and indexing models',
            'Reflexivity, symmetry, transitivity (all triples), hash consistency, != as negation, membership, element(x) is x / value conversion / memory sharing / rejection, astype, real/complex counterparts, byaxis, product-space indexing and element indexing vs NumPy, over a pool containing identical, one-parameter-different and cross-type twins. Thorough tier: symmetry, equal => equal hash and membership <=> own space equals on every comparison the repository suite makes (W-ambient, ~290 000 comparisons).',
            'The pool is finite; parameters for which no variant could be generated are listed in the evidence.'),
}

NA_REASON = 'check not yet built in this snapshot of /verif (no technique switch; the property is decidable by runtime monitoring, see DESIGN.md)'


def main():
    checks = []
    na = []
    for pid in sorted(T):
        tech, text, note = T[pid]
        if os.path.exists(os.path.join(ROOT, 'vf', 'props', pid.lower() + '.py')):
            checks.append({
                'property_id': pid,
                'quick_cmd': './check %s --tier quick' % pid,
                'thorough_cmd': './check %s --tier thorough' % pid,
                'evidence_file': 'evidence/%s.json' % pid,
                'replay_cmd_template': './check %s --replay {path}' % pid,
                'engine': 'vf',
                'level_claimed': {'category': 'exploration', 'text': text, 'design_ref': 'DESIGN.md section 3, ' + pid},
                'level_note': note,
                'technique': 'runtime monitoring: ' + tech,
            })
        else:
            na.append({'property_id': pid, 'reason': NA_REASON})
    man = {
        'version': 1,
        'setup_cmd': 'true',
        'hooks': {
            'guard': 'ODL_VERIF',
            'enable': 'no source hooks: the checks set ODL_VERIF=1 for themselves and attach all monitors from the harness side (attribute replacement on the real classes, sys.monitoring line events) after importing odl from /repo working tree',
            'baseline_off_cmd': 'cd /repo && /venv/bin/python -m pytest -ra -q -p no:cacheprovider --timeout=900 --continue-on-collection-errors',
            'source_commits': [],
            'add_only': True,
        },
        'engines': [{
            'name': 'vf', 'path': 'vf/', 'serves_properties': [c['property_id'] for c in checks],
            'kind_free_text': 'Python harness: contracts / monitors attached to the real odl functions at import time, '
                              'reference models in NumPy, seeded class-complete workloads, sharded over subprocesses',
        }],
        'checks': checks,
        'not_applicable': na,
        'notes': 'Known findings: known_findings.json (matched by mechanism signature). Replays: replays/<id>/*.json. '
                 'Exit codes: 0 held, 1 violation, 2 inconclusive.',
    }
    with open(os.path.join(ROOT, 'MANIFEST.json'), 'w') as f:
        json.dump(man, f, indent=1)
    print('MANIFEST.json: %d checks, %d not yet claimed' % (len(checks), len(na)))


if __name__ == '__main__':
    main()
