#!/bin/sh
# developer helper: intake of round-5 deliveries (A -> I, B -> J) for the given property ids, 4 at a time
cd "$(dirname "$0")/.."
for id in "$@"; do
  for v in A:I B:J; do
    ( tools/intake_seed.py $id ${v%%:*} --src /tmp/seed5/out_$id --as ${v##*:} > /tmp/seed5/intake_${id}_${v##*:}.log 2>&1; tail -1 /tmp/seed5/intake_${id}_${v##*:}.log ) &
  done
  wait
done
