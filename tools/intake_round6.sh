#!/bin/sh
# developer helper: intake of round-6 deliveries (A -> K, B -> L) for the given property ids, two at a time
cd "$(dirname "$0")/.."
for id in "$@"; do
  for v in A:K B:L; do
    ( tools/intake_seed.py $id ${v%%:*} --src /tmp/seed6/out_$id --as ${v##*:} > /tmp/seed6/intake_${id}_${v##*:}.log 2>&1; tail -1 /tmp/seed6/intake_${id}_${v##*:}.log ) &
  done
  wait
done
