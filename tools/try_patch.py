#!/venv/bin/python
"""Apply a patch to a scratch worktree of /repo (never to /repo itself) and run checks against it.

usage: tools/try_patch.py <patch.diff> [--tier quick|thorough] [--suite] <ID> [<ID> ...]
  --suite   also run the repository's pinned test-suite on the patched worktree (must still pass for a
            seeded change to count)
Prints one line per check: DETECTED / missed, number of unlisted signatures and a few examples.
"""
import os
import re
import shutil
import subprocess
import sys
import time

ROOT = os.path.dirname(os.path.dirname(os.path.abspath(__file__)))
REPO = '/repo'


def sh(*a, **kw):
    return subprocess.run(list(a), capture_output=True, text=True, **kw)


def main():
    args = sys.argv[1:]
    tier = 'quick'
    suite = False
    if '--tier' in args:
        i = args.index('--tier')
        tier = args[i + 1]
        del args[i:i + 2]
    if '--suite' in args:
        suite = True
        args.remove('--suite')
    patch, ids = args[0], args[1:]
    wt = '/tmp/vf_try_%d/wt' % os.getpid()
    os.makedirs(os.path.dirname(wt))
    sh('git', '-C', REPO, 'worktree', 'prune')
    r = sh('git', '-C', REPO, 'worktree', 'add', '--detach', wt, 'HEAD')
    if r.returncode:
        print(r.stderr)
        return 2
    rc = 0
    try:
        ap = sh('git', '-C', wt, 'apply', os.path.abspath(patch))
        if ap.returncode:
            print('patch does not apply:', ap.stderr[-400:])
            return 2
        if suite:
            t0 = time.time()
            s = sh('/venv/bin/python', '-m', 'pytest', '-q', '-p', 'no:cacheprovider', '--timeout=900', '-x', cwd=wt,
                   env=dict(os.environ, PYTHONPATH=wt))
            tail = s.stdout.strip().splitlines()[-1] if s.stdout.strip() else ''
            print('SUITE %s (%.0fs): %s' % ('passes' if s.returncode == 0 else 'FAILS', time.time() - t0, tail))
        env = dict(os.environ, VF_REPO=wt)
        for pid in ids:
            t0 = time.time()
            c = sh(os.path.join(ROOT, 'check'), pid, '--tier', tier, '--no-evidence', env=env)
            sigs = [re.sub(r' \(x\d+\)$', '', l.split('signature=', 1)[1]) for l in c.stdout.splitlines() if l.startswith('VIOLATION')]
            inc = [l for l in c.stdout.splitlines() if l.startswith('INCONCLUSIVE')]
            print('%s %s: exit=%d unlisted=%d %.0fs %s %s' % ('DETECTED' if c.returncode == 1 and sigs else 'missed  ', pid, c.returncode, len(sigs),
                                                              time.time() - t0, sigs[:3], inc[:1]))
            if not (c.returncode == 1 and sigs):
                rc = 1
    finally:
        sh('git', '-C', REPO, 'worktree', 'remove', '--force', wt)
        shutil.rmtree(os.path.dirname(wt), ignore_errors=True)
    return rc


if __name__ == '__main__':
    sys.exit(main())
