#!/venv/bin/python
"""Intake of an independently written seeded regression (from a sub-agent that saw only the property text).

usage: tools/intake_seed.py <ID> <A|B> [--src /tmp/seed/out_<ID>] [--as C] [--checks ID,ID,...]

Confirms, on a scratch worktree of /repo's HEAD (never on /repo itself):
  1. the diff applies cleanly,
  2. the repository's pinned test-suite still passes with it,
  3. the demonstration passes without the change and fails with it,
then runs the property's check (quick; thorough if quick misses) against the changed worktree and stores
  seeded/<ID>_<A|B>/{patch.diff, demo.py, meta.json}.
A change that fails 1-3 is rejected (nothing is stored).
"""
import json
import os
import re
import shutil
import subprocess
import sys
import time

ROOT = os.path.dirname(os.path.dirname(os.path.abspath(__file__)))
REPO = '/repo'


def sh(*a, **kw):
    return subprocess.run(list(a), capture_output=True, text=True, **kw)


def run_check(pid, wt, tier):
    env = dict(os.environ, VF_REPO=wt)
    t0 = time.time()
    c = sh(os.path.join(ROOT, 'check'), pid, '--tier', tier, '--no-evidence', env=env)
    sigs = [re.sub(r' \(x\d+\)$', '', l.split('signature=', 1)[1]) for l in c.stdout.splitlines() if l.startswith('VIOLATION')]
    return {'check': pid, 'tier': tier, 'exit': c.returncode, 'unlisted_signatures': len(sigs), 'examples': sigs[:4],
            'seconds': round(time.time() - t0, 1), 'detected': bool(c.returncode == 1 and sigs)}


def main():
    args = sys.argv[1:]
    pid, which = args[0], args[1]
    src = '/tmp/seed/out_%s' % pid
    extra = []
    if '--src' in args:
        src = args[args.index('--src') + 1]
    store_as = which
    if '--as' in args:
        store_as = args[args.index('--as') + 1]
    if '--checks' in args:
        extra = args[args.index('--checks') + 1].split(',')
    diff = os.path.join(src, which + '.diff')
    demo = os.path.join(src, which + '_demo.py')
    metatxt = os.path.join(src, which + '_meta.txt')
    for f in (diff, demo):
        if not os.path.exists(f):
            print('missing', f)
            return 2
    wt = '/tmp/vf_intake_%d/wt' % os.getpid()
    os.makedirs(os.path.dirname(wt))
    sh('git', '-C', REPO, 'worktree', 'prune')
    r = sh('git', '-C', REPO, 'worktree', 'add', '--detach', wt, 'HEAD')
    if r.returncode:
        print(r.stderr)
        return 2
    meta = {'property': pid, 'variant': store_as, 'repo_head': sh('git', '-C', REPO, 'rev-parse', '--short', 'HEAD').stdout.strip()}
    ok = True
    try:
        env = dict(os.environ, PYTHONPATH=wt)
        d0 = sh('/venv/bin/python', os.path.abspath(demo), cwd=wt, env=env)
        meta['demo_without_change'] = 'passes' if d0.returncode == 0 else 'FAILS: ' + (d0.stdout + d0.stderr)[-300:]
        ap = sh('git', '-C', wt, 'apply', os.path.abspath(diff))
        if ap.returncode:
            print('REJECT: diff does not apply to HEAD:', ap.stderr[-300:])
            return 1
        meta['files_changed'] = sh('git', '-C', wt, 'diff', '--stat').stdout.strip().splitlines()[:-1]
        d1 = sh('/venv/bin/python', os.path.abspath(demo), cwd=wt, env=env)
        meta['demo_with_change'] = 'fails (exit %d): %s' % (d1.returncode, (d1.stdout + d1.stderr).strip().splitlines()[-1][:200] if (d1.stdout + d1.stderr).strip() else '') if d1.returncode else 'PASSES'
        t0 = time.time()
        s = sh('/venv/bin/python', '-m', 'pytest', '-q', '-p', 'no:cacheprovider', '--timeout=900', cwd=wt, env=env)
        tail = s.stdout.strip().splitlines()[-1] if s.stdout.strip() else ''
        meta['suite_with_change'] = tail
        if d0.returncode != 0 or d1.returncode == 0 or s.returncode != 0 or 'failed' in tail:
            ok = False
        results = []
        if ok:
            for c in [pid] + [e for e in extra if e != pid]:
                r1 = run_check(c, wt, 'quick')
                results.append(r1)
                if c == pid and not r1['detected']:
                    results.append(run_check(c, wt, 'thorough'))
        meta['checks'] = results
    finally:
        sh('git', '-C', REPO, 'worktree', 'remove', '--force', wt)
        shutil.rmtree(os.path.dirname(wt), ignore_errors=True)
    print(json.dumps(meta, indent=1))
    if not ok:
        print('REJECT: the change does not satisfy the intake conditions')
        return 1
    out = os.path.join(ROOT, 'seeded', '%s_%s' % (pid, store_as))
    os.makedirs(out, exist_ok=True)
    shutil.copy(diff, os.path.join(out, 'patch.diff'))
    shutil.copy(demo, os.path.join(out, 'demo.py'))
    meta['breaks'] = pid
    meta['needs_to_manifest'] = open(metatxt).read().strip() if os.path.exists(metatxt) else ''
    meta['what_was_run'] = ['git apply patch.diff on a scratch worktree of HEAD', 'pytest (pinned suite) on the changed worktree',
                            'demo.py with PYTHONPATH=<worktree> before and after', './check <ID> with VF_REPO=<worktree>']
    meta['caught_by'] = sorted(set(r['check'] + ':' + r['tier'] for r in meta['checks'] if r['detected']))
    with open(os.path.join(out, 'meta.json'), 'w') as f:
        json.dump(meta, f, indent=1)
    print('STORED', out, 'caught_by', meta['caught_by'])
    return 0


if __name__ == '__main__':
    sys.exit(main())
