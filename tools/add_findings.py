#!/venv/bin/python
"""Developer helper (never run by a check): run a check, and append its currently unlisted signatures to
known_findings.json with a description chosen by the first matching rule in tools/finding_texts.json.
Usage: tools/add_findings.py C05 [--dry]"""
import json, os, re, subprocess, sys
ROOT = os.path.dirname(os.path.dirname(os.path.abspath(__file__)))
prop = sys.argv[1]
dry = '--dry' in sys.argv
out = subprocess.run([os.path.join(ROOT, 'check'), prop, '--no-evidence'], capture_output=True, text=True).stdout
sigs = sorted(set(re.sub(r' \(x\d+\)$', '', l.split('signature=', 1)[1]) for l in out.splitlines() if l.startswith('VIOLATION')))
texts = json.load(open(os.path.join(ROOT, 'tools', 'finding_texts.json')))
kf = json.load(open(os.path.join(ROOT, 'known_findings.json')))
have = set(f['signature'] for f in kf['findings'])
n = 0
for s in sigs:
    if s in have:
        continue
    what = None
    for rule in texts:
        if re.search(rule['match'], s):
            what = rule['what']
            break
    if what is None:
        print('NO TEXT FOR', s)
        continue
    n += 1
    print('add', s)
    kf['findings'].append({'property': prop, 'signature': s, 'what': what})
if not dry:
    json.dump(kf, open(os.path.join(ROOT, 'known_findings.json'), 'w'), indent=1)
print(n, 'added')
