#!/bin/sh
# Developer helper: run every check (or the given ones) for several seeds, print only verdict / unlisted violations.
# usage: tools/sweep.sh "<seeds>" <tier> [ids...]
seeds="$1"; tier="$2"; shift 2
ids="${*:-C01 C02 C03 C04 C05 C06 C07 C08 C09 C10 C11 C12 C13 C14 C15 C16 C17 C18 C19 C20}"
cd "$(dirname "$0")/.."
for id in $ids; do for s in $seeds; do
  VERIF_SEED=$s ./check $id --tier $tier --no-evidence 2>&1 | grep -v "^KNOWN-FINDING" | grep -v "^COVERAGE-GAP" | cut -c1-260
done; done
